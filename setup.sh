#!/bin/sh
# MANIFEST.setup_cmd: build the third-party crates some units reference (itertools, indexmap, lru, json-writer, either)
# with Verus' own toolchain, offline, from the cargo registry cache; nothing else needs building (vx is python).
set -e
cd "$(dirname "$0")/deps"
RUSTUP_TOOLCHAIN=1.98.1 CARGO_NET_OFFLINE=true cargo build --offline
# bounded stand-ins (cargo crates under /verif/bounded that link /repo's crates by path): pre-build third-party crates
cd "$(dirname "$0")/.." 2>/dev/null || true
python3 "$(dirname "$0")/../vx/bounded.py" jsonrt quick >/dev/null 2>&1 || true
python3 "$(dirname "$0")/../vx/bounded.py" gqlrt quick >/dev/null 2>&1 || true
python3 "$(dirname "$0")/../vx/bounded.py" srcmap quick >/dev/null 2>&1 || true
python3 "$(dirname "$0")/../vx/bounded.py" nopanic quick >/dev/null 2>&1 || true
python3 "$(dirname "$0")/../vx/bounded.py" tsverdict quick >/dev/null 2>&1 || true
python3 "$(dirname "$0")/../vx/bounded.py" valueschema quick >/dev/null 2>&1 || true
python3 "$(dirname "$0")/../vx/bounded.py" valueop quick >/dev/null 2>&1 || true
python3 "$(dirname "$0")/../vx/bounded.py" opverdict quick >/dev/null 2>&1 || true
python3 "$(dirname "$0")/../vx/bounded.py" scalars quick >/dev/null 2>&1 || true
python3 "$(dirname "$0")/../vx/bounded.py" extmerge quick >/dev/null 2>&1 || true
python3 "$(dirname "$0")/../vx/bounded.py" loaderseq quick >/dev/null 2>&1 || true
python3 "$(dirname "$0")/../vx/bounded.py" serverschema quick >/dev/null 2>&1 || true
python3 "$(dirname "$0")/../vx/bounded.py" exports quick >/dev/null 2>&1 || true
python3 "$(dirname "$0")/../vx/bounded.py" introspect quick >/dev/null 2>&1 || true
python3 "$(dirname "$0")/../vx/bounded.py" optype quick >/dev/null 2>&1 || true
python3 "$(dirname "$0")/../vx/bounded.py" variables quick >/dev/null 2>&1 || true
python3 "$(dirname "$0")/../vx/bounded.py" runtimedoc quick >/dev/null 2>&1 || true
