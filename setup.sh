#!/bin/sh
# MANIFEST.setup_cmd: build the third-party crates some units reference (itertools, indexmap, lru, json-writer, either)
# with Verus' own toolchain, offline, from the cargo registry cache; nothing else needs building (vx is python).
set -e
cd "$(dirname "$0")/deps"
RUSTUP_TOOLCHAIN=1.98.1 CARGO_NET_OFFLINE=true cargo build --offline
