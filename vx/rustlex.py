"""Minimal Rust lexical helpers for vx: masking of comments/literals, brace matching,
item location.  Only *locates* text; never rewrites it."""
import re


def mask(src):
    """Return a string of the same length as src in which the *contents* of comments,
    string literals, raw strings, byte strings and char literals are replaced by spaces
    (newlines kept).  Delimiters of strings are kept as '"'.  Lifetimes are kept."""
    out = list(src)
    n = len(src)
    i = 0

    def blank(a, b):
        for k in range(a, b):
            if out[k] != '\n':
                out[k] = ' '

    while i < n:
        c = src[i]
        if c == '/' and i + 1 < n and src[i + 1] == '/':
            j = src.find('\n', i)
            if j < 0:
                j = n
            blank(i, j)
            i = j
        elif c == '/' and i + 1 < n and src[i + 1] == '*':
            depth = 1
            j = i + 2
            while j < n and depth > 0:
                if src[j] == '/' and j + 1 < n and src[j + 1] == '*':
                    depth += 1
                    j += 2
                elif src[j] == '*' and j + 1 < n and src[j + 1] == '/':
                    depth -= 1
                    j += 2
                else:
                    j += 1
            blank(i, j)
            i = j
        elif c == '"' or (c in 'br' and _raw_or_byte_string_start(src, i)):
            j = _string_end(src, i)
            # keep outer quotes
            a = src.index('"', i)
            blank(i, a)
            blank(a + 1, j - 1)
            out[a] = '"'
            out[j - 1] = '"'
            i = j
        elif c == "'":
            m = re.match(r"'(\\u\{[0-9a-fA-F_]+\}|\\x[0-9a-fA-F]{2}|\\.|[^\\'\n])'", src[i:i + 14])
            if m:
                blank(i + 1, i + m.end() - 1)
                i += m.end()
            else:
                i += 1  # lifetime
        else:
            i += 1
    return ''.join(out)


def _raw_or_byte_string_start(src, i):
    # identifiers ending in b/r must not be confused: require non-ident char before
    if i > 0 and (src[i - 1].isalnum() or src[i - 1] == '_'):
        return False
    return re.match(r'(b"|br#*"|r#*")', src[i:i + 40]) is not None


def _string_end(src, i):
    """index just past the closing delimiter (including raw hashes) of the string at i"""
    m = re.match(r'(b?)(r?)(#*)"', src[i:i + 40])
    raw = m.group(2) == 'r'
    hashes = m.group(3)
    j = i + m.end()
    n = len(src)
    if raw:
        close = '"' + hashes
        k = src.find(close, j)
        if k < 0:
            raise ValueError('unterminated raw string')
        # blank() keeps outer quotes only; the hashes after the closing quote stay
        return k + 1
    while j < n:
        if src[j] == '\\':
            j += 2
        elif src[j] == '"':
            return j + 1
        else:
            j += 1
    raise ValueError('unterminated string')


OPEN = {'{': '}', '(': ')', '[': ']'}
CLOSE = {'}', ')', ']'}


def match_close(masked, i):
    """masked[i] is an opening bracket; return index of its matching close."""
    stack = []
    n = len(masked)
    k = i
    while k < n:
        c = masked[k]
        if c in OPEN:
            stack.append(OPEN[c])
        elif c in CLOSE:
            if not stack or stack[-1] != c:
                raise ValueError('unbalanced at %d' % k)
            stack.pop()
            if not stack:
                return k
        k += 1
    raise ValueError('unbalanced')


def body_open(masked, start):
    """From `start` (somewhere in an item header) find the first '{' or ';' at
    paren/bracket depth 0.  Returns (index, char)."""
    depth = 0
    k = start
    n = len(masked)
    while k < n:
        c = masked[k]
        if c in '([':
            depth += 1
        elif c in ')]':
            depth -= 1
        elif depth == 0 and c in '{;':
            return k, c
        k += 1
    raise ValueError('no body')


ITEM_KINDS = ('fn', 'const', 'static', 'struct', 'enum', 'trait', 'impl', 'type', 'mod', 'macro_rules!', 'union')

_QUAL = r'(?:pub(?:\s*\([^)]*\))?\s+)?(?:default\s+)?(?:const\s+)?(?:async\s+)?(?:unsafe\s+)?(?:extern\s+"[^"]*"\s+)?'


def item_regex(kind, name):
    if kind == 'impl':
        # name is the text after 'impl' up to the '{' with whitespace normalised; match loosely
        pat = r'(?m)^[ \t]*' + r'(?:unsafe\s+)?impl\b'
        return re.compile(pat)
    if kind == 'macro_rules!':
        return re.compile(r'(?m)^[ \t]*macro_rules!\s+%s\b' % re.escape(name))
    if kind == 'const':
        return re.compile(r'(?m)^[ \t]*(?:pub(?:\s*\([^)]*\))?\s+)?const\s+%s\b' % re.escape(name))
    return re.compile(r'(?m)^[ \t]*' + _QUAL + kind + r'\s+' + re.escape(name) + r'\b')


def _norm(s):
    return re.sub(r'\s+', ' ', s).strip()


def attrs_start(src, masked, start):
    """walk back from `start` (beginning of the item's first line) over attribute lines and
    doc comments that immediately precede the item."""
    lines_before = src[:start].split('\n')
    # lines_before[-1] is '' (start is at line start) or indentation
    pos = start
    idx = len(lines_before) - 2
    while idx >= 0:
        l = lines_before[idx].strip()
        if l.startswith('///') or l.startswith('#[') or l.startswith('#!['):
            pos -= len(lines_before[idx]) + 1
            idx -= 1
        elif l.endswith(']') or l.endswith(')]'):
            # possibly the tail of a multi-line attribute: search upward for its '#['
            j = idx
            found = None
            while j >= 0 and idx - j < 12:
                if lines_before[j].strip().startswith('#['):
                    found = j
                    break
                if lines_before[j].strip() == '' or lines_before[j].strip().endswith(('}', ';')):
                    break
                j -= 1
            if found is None:
                break
            for q in range(found, idx + 1):
                pos -= len(lines_before[q]) + 1
            idx = found - 1
        else:
            break
    return pos


def find_items(src, masked, kind, name, lo=0, hi=None):
    """all (start, header_start, end) of items `kind name` within [lo,hi) of src.  For impl, name is
    the normalised header text between 'impl' and '{' (e.g. 'Tasks' or "<'a> HasPos for Foo<'a>")."""
    hi = len(src) if hi is None else hi
    res = []
    rx = item_regex(kind, name)
    for m in rx.finditer(masked, lo, hi):
        ls = m.start()
        try:
            k, ch = body_open(masked, m.end())
        except ValueError:
            continue
        if kind == 'impl':
            hdr = _norm(src[m.end():k])
            if hdr != _norm(name):
                continue
        if ch == '{':
            end = match_close(masked, k) + 1
            # const X: T = Foo { .. };  -> run on to ';'
            if kind in ('const', 'static', 'type'):
                k2, _ = body_open(masked, end)
                end = k2 + 1
        else:
            end = k + 1
            if kind in ('const', 'static'):
                pass
        res.append((attrs_start(src, masked, ls), ls, end))
    return res


def line_of(src, pos):
    return src.count('\n', 0, pos) + 1


FN_RX = re.compile(r'(?m)^[ \t]*' + _QUAL + r'(?:(?:open|closed|uninterp|broadcast|tracked)\s+)*(?:spec\s+|proof\s+|exec\s+)?(?:axiom\s+)?fn\s+(\w+)')


def all_fns(src, masked):
    """[(name, start, open_brace_or_None, end)] for every fn (any nesting) in src."""
    res = []
    for m in FN_RX.finditer(masked):
        try:
            k, ch = body_open(masked, m.end())
        except ValueError:
            continue
        if ch == ';':
            res.append((m.group(1), m.start(), None, k + 1))
        else:
            try:
                res.append((m.group(1), m.start(), k, match_close(masked, k) + 1))
            except ValueError:
                continue
    return res
