"""Splicing of contract clauses into verbatim Rust text (transformation T4 of DESIGN.md).

All positions are computed on the original text and the insertions are applied from the
back, so the real code between insertions is never touched.  Every spliced clause line
carries a marker comment /*@<clause-id>@*/ used afterwards to map Verus diagnostics
(line numbers of the generated file) back to clause ids."""
import re
from rustlex import mask, match_close, body_open, FN_RX


class LostAnchor(Exception):
    """an anchor (fn name, loop ordinal, hint text, return type) was not found: exit 2"""


def mark(text, cid):
    """append the clause marker to every line of text"""
    return '\n'.join((l + ' /*@%s@*/' % cid) if l.strip() else l for l in text.split('\n'))


def find_fn(text, masked, name, nth=0, lo=0, hi=None):
    hi = len(text) if hi is None else hi
    k = 0
    for m in FN_RX.finditer(masked, lo, hi):
        if m.group(1) != name:
            continue
        if k == nth:
            try:
                bo, ch = body_open(masked, m.end())
            except ValueError:
                raise LostAnchor('fn %s: no body' % name)
            if ch == ';':
                return m.start(), m.end(), None, bo + 1
            return m.start(), m.end(), bo, match_close(masked, bo) + 1
        k += 1
    raise LostAnchor('fn %s (occurrence %d) not found' % (name, nth))


LOOP_RX = re.compile(r"(?<![\w'])(while|for|loop)\b")


def find_loops(masked, bo, end):
    """[(kw_start, body_open_idx)] of loops in masked[bo:end], in textual order."""
    res = []
    for m in LOOP_RX.finditer(masked, bo, end):
        kw = m.group(1)
        # exclude `for<'a>` and `impl X for Y`
        after = masked[m.end():m.end() + 2]
        if kw == 'for' and after.lstrip().startswith('<'):
            continue
        # find body '{' at paren/bracket depth 0; braces inside parens (closures) are skipped
        depth = 0
        k = m.end()
        found = None
        while k < end:
            c = masked[k]
            if c in '([':
                depth += 1
            elif c in ')]':
                depth -= 1
                if depth < 0:
                    break
            elif c == '{' and depth == 0:
                found = k
                break
            elif c == ';' and depth == 0:
                break
            k += 1
        if found is None:
            continue
        if kw == 'for':
            # must contain ' in ' between keyword and '{'
            if not re.search(r'\bin\b', masked[m.end():found]):
                continue
        res.append((m.start(), found))
    return res


def _sig_return(text, masked, sig_start, bo):
    """locate return type span (a, b) in text[sig_start:bo]; None if no '->' at depth 0"""
    # find param list close: first '(' after fn name (skip generics)
    k = sig_start
    # skip generics <...> after name
    depth = 0
    p = masked.find('(', sig_start, bo)
    if p < 0:
        raise LostAnchor('no parameter list')
    pc = match_close(masked, p)
    m = re.compile(r'->').search(masked, pc, bo)
    if not m:
        return None
    a = m.end()
    # type ends at 'where' at depth 0 or at bo
    depth = 0
    k = a
    b = bo
    while k < bo:
        c = masked[k]
        if c in '([<':
            depth += 1
        elif c in ')]':
            depth -= 1
        elif c == '>' and masked[k - 1] != '-':
            depth -= 1
        elif depth == 0 and masked.startswith('where', k) and not (masked[k - 1].isalnum() or masked[k - 1] == '_') \
                and not (masked[k + 5].isalnum() or masked[k + 5] == '_'):
            b = k
            break
        k += 1
    # trim whitespace
    while a < b and text[a].isspace():
        a += 1
    while b > a and text[b - 1].isspace():
        b -= 1
    return a, b


class FnSpec:
    """contract material for one function (filled by the template parser)"""

    def __init__(self, name, nth=0):
        self.name = name
        self.nth = nth
        self.ret = None
        self.requires = []      # (id, text)
        self.ensures = []
        self.decreases = None   # (id, text)
        self.prefix = []        # text
        self.loops = {}         # ordinal -> dict(invariant=[(id,text)], invariant_except_break=[], ensures=[], decreases=(id,text), prefix=[])
        self.hints = []         # (id, where, occ, anchor, text)
        self.attrs = []         # text lines put before the fn
        self.nloops = None      # expected number of loops (None = don't check)
        self.wraps = []         # (id, occ, anchor, text)  value-naming hint
        self.closures = []      # (ordinal, header_text, clauses[(id,kind,text)])
        self.arm_wraps = []     # (id, match_ordinal, arm_ordinal, text)
        self.tail_wraps = []    # (id, occ, opener_anchor, text)
        self.extra_sig = []     # raw text appended in clause position (e.g. 'no_unwind')
        self.suffix = []        # (id, text) inserted before the closing brace of the fn body
        self.lost_hints = []    # ids of hints whose anchor was not found (dropped, reported)

    def loop(self, n):
        return self.loops.setdefault(n, dict(invariant=[], invariant_except_break=[], ensures=[],
                                              decreases=None, prefix=[], for_continue=False, body_invariant=[],
                                              body_ensures=[], iter_name=None, body_prefix=[], suffix=[]))

    def clause_ids(self):
        ids = [c[0] for c in self.requires + self.ensures]
        if self.decreases:
            ids.append(self.decreases[0])
        for l in self.loops.values():
            ids += [c[0] for c in l['invariant'] + l['invariant_except_break'] + l['ensures'] + l['body_invariant'] + l['body_ensures']]
            if l['decreases']:
                ids.append(l['decreases'][0])
            ids += [c[0] for c in l.get('suffix', [])]
        ids += [h[0] for h in self.hints]
        ids += [w[0] for w in self.wraps]
        ids += [w[0] for w in self.arm_wraps]
        ids += [x[0] for x in self.suffix]
        ids += [w[0] for w in self.tail_wraps]
        for _, _, cl in self.closures:
            ids += [c[0] for c in cl]
        return ids



MATCH_RX = re.compile(r"(?<![\w'])match\b")


def find_matches(masked, bo, end):
    """[(kw_start, body_open)] of `match` expressions in masked[bo:end], textual order"""
    res = []
    for m in MATCH_RX.finditer(masked, bo, end):
        depth = 0
        k = m.end()
        found = None
        while k < end:
            c = masked[k]
            if c in '([':
                depth += 1
            elif c in ')]':
                depth -= 1
                if depth < 0:
                    break
            elif c == '{' and depth == 0:
                found = k
                break
            elif c == ';' and depth == 0:
                break
            k += 1
        if found is not None:
            res.append((m.start(), found))
    return res


def match_arms(masked, lb):
    """[(body_start, body_end)] of the arms of the match whose '{' is at lb (body = expression after =>)"""
    close = match_close(masked, lb)
    arms = []
    k = lb + 1
    depth = 0
    while k < close:
        c = masked[k]
        if c in '([{':
            depth += 1
        elif c in ')]}':
            depth -= 1
        elif depth == 0 and c == '=' and masked[k + 1] == '>':
            a = k + 2
            while masked[a].isspace():
                a += 1
            if masked[a] == '{':
                b = match_close(masked, a) + 1
            else:
                d2 = 0
                b = a
                while b < close:
                    ch = masked[b]
                    if ch in '([{':
                        d2 += 1
                    elif ch in ')]}':
                        d2 -= 1
                    elif ch == ',' and d2 == 0:
                        break
                    b += 1
                # trim trailing whitespace
                while masked[b - 1].isspace():
                    b -= 1
            arms.append((a, b))
            k = b
            continue
        k += 1
    return arms


BLOCKLIKE = re.compile(r"(if|match|for|while|loop|unsafe)\b|\{|'[a-z_]\w*\s*:")


def _skip_blocklike(masked, a, end):
    """a points at a block-like expression (if/match/for/while/loop/{); return index just past it (incl. else chains)"""
    k = a
    while True:
        # find the opening brace at depth 0
        depth = 0
        while k < end:
            c = masked[k]
            if c in '([':
                depth += 1
            elif c in ')]':
                depth -= 1
            elif c == '{' and depth == 0:
                break
            k += 1
        k = match_close(masked, k) + 1
        m = re.match(r'\s*else\b', masked[k:end])
        if m:
            k += m.end()
            continue
        return k


def block_tail(masked, lb):
    """(a, b) span of the tail expression of the block whose '{' is at lb; None if the block ends with ';'"""
    close = match_close(masked, lb)
    # position after the last depth-0 ';'
    depth = 0
    last = lb + 1
    k = lb + 1
    while k < close:
        c = masked[k]
        if c in '([{':
            depth += 1
        elif c in ')]}':
            depth -= 1
        elif c == ';' and depth == 0:
            last = k + 1
        k += 1
    a = last
    while True:
        while a < close and masked[a].isspace():
            a += 1
        if a >= close:
            return None
        m = BLOCKLIKE.match(masked, a)
        if m:
            e = _skip_blocklike(masked, a, close)
            rest = masked[e:close].strip()
            if rest and not rest.startswith('.') and not rest.startswith('?'):
                a = e
                continue
        break
    b = close
    while masked[b - 1].isspace():
        b -= 1
    return a, b

CLOSURE_RX = re.compile(r'(?<![\w)\]])\|([^|\n]*)\|')


def find_closures(masked, bo, end):
    """[(start, params_end)] for closure headers `|...|` in masked[bo:end] (textual order).
    Heuristic: a '|' that follows '(', ',', '=', '{', ';', 'move', 'return' or whitespace-after-those."""
    res = []
    k = bo
    while k < end:
        c = masked[k]
        if c == '|':
            # previous non-space char
            p = k - 1
            while p >= bo and masked[p].isspace():
                p -= 1
            prev = masked[p]
            is_open = prev in '(,={;[' or masked[max(0, p - 3):p + 1].endswith('move') or masked[max(0, p - 5):p + 1].endswith('return')
            if masked[k + 1] == '|' and is_open:
                res.append((k, k + 2))
                k += 2
                continue
            if is_open:
                q = masked.find('|', k + 1, end)
                if q > 0:
                    res.append((k, q + 1))
                    k = q + 1
                    continue
        k += 1
    return res


def splice_fn(text, spec, lo=0, hi=None):
    """return text with spec's clauses spliced into fn spec.name found in text[lo:hi]."""
    masked = mask(text)
    fs, sig_end, bo, end = find_fn(text, masked, spec.name, spec.nth, lo, hi)
    ins = []  # (pos, order, text)

    def add(pos, s, order=0):
        ins.append((pos, order, s))

    indent = re.match(r'[ \t]*', text[fs:]).group(0)
    if bo is None:
        # bodiless declaration (trait method): clauses go before the ';'
        semi = end - 1
        add(fs, indent + '/*vx:contracted*/\n')
        if spec.ret:
            r = _sig_return(text, masked, sig_end, semi)
            if r is None:
                raise LostAnchor('fn %s: no return type to name' % spec.name)
            add(r[0], '(%s: ' % spec.ret)
            add(r[1], ')')
        cl = []
        if spec.requires:
            cl.append(indent + '    requires')
            for cid, t in spec.requires:
                cl.append(mark(_ind(t, indent + '        ') + ',', cid))
        if spec.ensures:
            cl.append(indent + '    ensures')
            for cid, t in spec.ensures:
                cl.append(mark(_ind(t, indent + '        ') + ',', cid))
        if cl:
            add(semi, '\n' + '\n'.join(cl) + '\n' + indent)
        return apply_insertions(text, ins)
    # attributes
    add(fs, indent + '/*vx:contracted*/\n')
    for a in spec.attrs:
        add(fs, indent + a + '\n')
    # return naming
    if spec.ret:
        r = _sig_return(text, masked, sig_end, bo)
        if r is None:
            raise LostAnchor('fn %s: no return type to name' % spec.name)
        a, b = r
        add(a, '(%s: ' % spec.ret)
        add(b, ')')
    # fn-level clauses
    cl = []
    if spec.requires:
        cl.append(indent + '    requires')
        for cid, t in spec.requires:
            cl.append(mark(_ind(t, indent + '        ') + ',', cid))
    if spec.ensures:
        cl.append(indent + '    ensures')
        for cid, t in spec.ensures:
            cl.append(mark(_ind(t, indent + '        ') + ',', cid))
    if spec.decreases:
        cl.append(indent + '    decreases')
        cl.append(mark(_ind(spec.decreases[1], indent + '        ') + ',', spec.decreases[0]))
    for t in spec.extra_sig:
        cl.append(indent + '    ' + t)
    if cl:
        # place clauses right before '{' ; strip trailing space before the brace
        add(bo, '\n' + '\n'.join(cl) + '\n' + indent, order=1)
    # prefix
    for p in spec.prefix:
        add(bo + 1, '\n' + _ind(p, indent + '    '))
    for cid, t in spec.suffix:
        add(end - 1, mark(_ind(t, indent + '    '), cid) + '\n' + indent)
    # loops
    loops = find_loops(masked, bo, end)
    if spec.nloops is not None and len(loops) != spec.nloops:
        raise LostAnchor('fn %s: expected %d loops, found %d' % (spec.name, spec.nloops, len(loops)))
    for n, l in spec.loops.items():
        if n >= len(loops):
            raise LostAnchor('fn %s: loop %d not found (%d loops)' % (spec.name, n, len(loops)))
        kw, lb = loops[n]
        lind = re.match(r'[ \t]*', text[text.rfind('\n', 0, kw) + 1:]).group(0)
        cl = []
        for key in ('invariant_except_break', 'invariant', 'ensures'):
            if l[key]:
                cl.append(lind + '    ' + key)
                for cid, t in l[key]:
                    cl.append(mark(_ind(t, lind + '        ') + ',', cid))
        if l['decreases']:
            cl.append(lind + '    decreases')
            cl.append(mark(_ind(l['decreases'][1], lind + '        ') + ',', l['decreases'][0]))
        if cl:
            hdr = text[kw:lb]
            if 'vx:T10' in hdr and 'decreases 0int' in hdr:
                # loop produced by T10 already carries `decreases 0int`: clauses go before it
                if l['decreases']:
                    raise LostAnchor('fn %s: loop %d is a T10 block, it has a fixed decreases clause' % (spec.name, n))
                dpos = kw + hdr.index('decreases 0int')
                add(dpos, '\n'.join(c_.strip() if i_ == 0 else c_ for i_, c_ in enumerate(cl)) + '\n' + lind + '    ', order=1)
            else:
                add(lb, '\n' + '\n'.join(cl) + '\n' + lind, order=1)
        for p in l['prefix']:
            add(lb + 1, '\n' + _ind(p, lind + '    '), order=0)
        if l['suffix']:
            # ghost proof steps at the end of the loop body (before its closing brace); if the body ends in a tail
            # expression the loop would not type-check as () anyway, so a statement position is guaranteed
            lclose = match_close(masked, lb)
            for cid, t in l['suffix']:
                if cid in getattr(spec, 'dropped', set()):
                    continue
                add(lclose, '    ' + mark(t, cid) + '\n' + lind, order=0)
        if l['iter_name']:
            # T4: name the ghost iterator handle of a `for` loop:  for x in e  ->  for x in <name>: e
            mm = re.compile(r'\bin\b').search(masked, kw, lb)
            if not mm:
                raise LostAnchor('fn %s: loop %d is not a for loop' % (spec.name, n))
            add(mm.end(), ' %s:' % l['iter_name'])
        if l['for_continue']:
            # T13': `continue` inside a `for` is unsupported by Verus.  The body B becomes
            #   loop <clauses> decreases 0int { B[continue -> break]; break; }
            # i.e. a block that is left early exactly where B continued (same control flow, no back edge).
            close = match_close(masked, lb)
            inner = find_loops(masked, lb + 1, close)
            skip = [(a, match_close(masked, b)) for a, b in inner]
            nrep = 0
            for cm in re.finditer(r"(?<![\w'])continue\b", masked[lb:close]):
                pos_c = lb + cm.start()
                if any(a <= pos_c <= b for a, b in skip):
                    continue
                ins.append((pos_c, -1, ('DEL', pos_c + len('continue'))))
                add(pos_c, 'break /*vx:T13 was continue*/')
                nrep += 1
            if nrep == 0:
                raise LostAnchor('fn %s: loop %d has no continue to rewrite (T13)' % (spec.name, n))
            cl2 = [lind + '    loop /*vx:T13 one-iteration block*/']
            if l['body_invariant']:
                cl2.append(lind + '        invariant_except_break')
                for cid, t in l['body_invariant']:
                    cl2.append(mark(_ind(t, lind + '            ') + ',', cid))
            if l['body_ensures']:
                cl2.append(lind + '        ensures')
                for cid, t in l['body_ensures']:
                    cl2.append(mark(_ind(t, lind + '            ') + ',', cid))
            cl2.append(lind + '        decreases 0int')
            cl2.append(lind + '    {')
            for bp in l['body_prefix']:
                cl2.append(_ind(bp, lind + '        '))
            add(lb + 1, '\n' + '\n'.join(cl2), order=2)
            add(close, '    break; /*vx:T13*/\n' + lind + '    }\n' + lind)
    # hints
    for cid, where, occ, anchor, t in spec.hints:
        try:
            pos, pend = _find_anchor(text, bo, end, anchor, occ, spec.name, True)
        except LostAnchor:
            spec.lost_hints.append(cid)
            continue
        if where == 'before':
            ls = text.rfind('\n', 0, pos) + 1
            hind = re.match(r'[ \t]*', text[ls:]).group(0)
            add(ls, mark(_ind(t, hind), cid) + '\n')
        elif where == 'after':
            le = text.find('\n', pend)
            ls = text.rfind('\n', 0, pos) + 1
            hind = re.match(r'[ \t]*', text[ls:]).group(0)
            add(le + 1, mark(_ind(t, hind), cid) + '\n')
        else:
            raise LostAnchor('bad hint position %r' % where)
    # value-naming wraps:  E  ->  { let r__ = E; <text> r__ }
    for w_ in spec.wraps:
        cid, occ, anchor, t = w_[:4]
        wty = w_[4] if len(w_) > 4 else None
        try:
            pos, pend = _find_anchor(text, bo, end, anchor, occ, spec.name, True)
        except LostAnchor:
            spec.lost_hints.append(cid)
            continue
        add(pos, '{ let r__%s = ' % ((': ' + wty) if wty else ''))
        add(pend, '; ' + mark(t, cid) + ' r__ }')
    if spec.arm_wraps:
        ms = find_matches(masked, bo, end)
        for cid, mo, ao, t in spec.arm_wraps:
            if mo >= len(ms):
                spec.lost_hints.append(cid)
                continue
            arms = match_arms(masked, ms[mo][1])
            if ao >= len(arms):
                spec.lost_hints.append(cid)
                continue
            a, b = arms[ao]
            add(a, '{ let r__ = ')
            add(b, '; ' + mark(t, cid) + ' r__ }')
    for cid, occ, anchor, t in spec.tail_wraps:
        try:
            pos, pend = _find_anchor(text, bo - 1, end, anchor, occ, spec.name, True)
        except LostAnchor:
            spec.lost_hints.append(cid)
            continue
        lb = pend - 1
        if masked[lb] != '{':
            raise LostAnchor('fn %s: tail anchor %r must end with the block opener' % (spec.name, anchor))
        tl = block_tail(masked, lb)
        if tl is None:
            spec.lost_hints.append(cid)
            continue
        add(tl[0], '{ let r__ = ')
        add(tl[1], '; ' + mark(t, cid) + ' r__ }')
    # closure contracts
    if spec.closures:
        cls = find_closures(masked, bo, end)
        for ordinal, header, clauses in spec.closures:
            if ordinal >= len(cls):
                raise LostAnchor('fn %s: closure %d not found (%d closures)' % (spec.name, ordinal, len(cls)))
            cs, ce = cls[ordinal]
            # replace header |..| by the typed header, wrap body expression in a block
            body_start = ce
            while text[body_start].isspace():
                body_start += 1
            ctext = ''
            for cid, kind, t in clauses:
                ctext += '\n' + mark('    %s %s,' % (kind, t), cid)
            if masked[body_start] == '{':
                be = match_close(masked, body_start) + 1
                add(cs, '/*vx:closure-header*/ ' + header + ctext + '\n', order=0)
                ins.append((cs, -1, ('DEL', ce)))
            else:
                be = _expr_end(masked, body_start, end)
                add(cs, header + ctext + '\n{ ', order=0)
                ins.append((cs, -1, ('DEL', ce)))
                add(be, ' }')
    return apply_insertions(text, ins)


def _expr_end(masked, k, end):
    depth = 0
    while k < end:
        c = masked[k]
        if c in '([{':
            depth += 1
        elif c in ')]}':
            if depth == 0:
                return k
            depth -= 1
        elif c in ',;' and depth == 0:
            return k
        k += 1
    return end


def _find_anchor(text, bo, end, anchor, occ, fname, want_end=False):
    """anchor matching is whitespace-flexible: a run of whitespace in the anchor matches any run in the code"""
    toks = anchor.split()
    rx = re.compile(r'\s+'.join(re.escape(t) for t in toks))
    pos = bo
    m = None
    for _ in range(occ + 1):
        m = rx.search(text, pos + 1, end)
        if not m:
            raise LostAnchor('fn %s: anchor %r (occurrence %d) not found' % (fname, anchor, occ))
        pos = m.start()
    return (m.start(), m.end()) if want_end else m.start()


def _ind(t, indent):
    return '\n'.join(indent + l if l.strip() else l for l in t.split('\n'))


def apply_insertions(text, ins):
    # stable: for equal positions, lower `order` first, and original sequence preserved
    dels = [(p, x[1]) for (p, o, x) in ins if isinstance(x, tuple)]
    adds = [(p, o, i, x) for i, (p, o, x) in enumerate(ins) if not isinstance(x, tuple)]
    adds.sort(key=lambda t: (t[0], t[1], t[2]))
    out = []
    last = 0
    delmap = dict(dels)
    i = 0
    pos_sorted = sorted(set([a[0] for a in adds] + list(delmap.keys())))
    byp = {}
    for a in adds:
        byp.setdefault(a[0], []).append(a[3])
    for p in pos_sorted:
        if p < last:
            # inside a deleted region
            continue
        out.append(text[last:p])
        for s in byp.get(p, []):
            out.append(s)
        last = p
        if p in delmap:
            last = delmap[p]
    out.append(text[last:])
    return ''.join(out)
