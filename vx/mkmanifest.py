#!/usr/bin/env python3
"""writes /verif/MANIFEST.json from contracts/claims.json (claimed properties, notes) and the N/A table"""
import json, os
V = os.path.dirname(os.path.dirname(os.path.abspath(__file__)))
claims = json.load(open(os.path.join(V, 'contracts', 'claims.json')))
base_cmd = json.load(open('/root/.vp/BASELINE.json'))['cmd'] if os.path.exists('/root/.vp/BASELINE.json') else 'cargo test --workspace --offline'
m = dict(version=1,
         setup_cmd=claims['setup_cmd'],
         hooks=dict(guard='none', enable='no hooks: contracts are spliced into mechanically extracted copies of the real functions on every run; nothing under /repo is instrumented',
                    baseline_off_cmd='cd /repo && cargo test --workspace --no-fail-fast --offline', source_commits=[], add_only=True),
         engines=[dict(name='vx+verus', path='/verif/vx', serves_properties=sorted(claims['claimed'].keys()),
                       kind_free_text='mechanical extractor/splicer (python3) feeding Verus 0.2026.09.13 (Z3) single-file runs; contracts in /verif/contracts/<unit>/unit.rs')],
         checks=[], notes=claims.get('notes', ''), not_applicable=[])
for pid in sorted(claims['claimed']):
    c = claims['claimed'][pid]
    m['checks'].append(dict(property_id=pid, quick_cmd='./check %s --quick' % pid, thorough_cmd='./check %s --thorough' % pid,
                            evidence_file='/verif/evidence/%s.json' % pid,
                            replay_cmd_template='./check %s --replay {path}' % pid, engine='vx+verus',
                            level_claimed=dict(category='proof', text=c['text'], design_ref=c.get('design_ref', 'DESIGN.md section 6')),
                            level_note=c['note'], technique=c.get('technique', 'contract-based deductive verification (Verus) of mechanically extracted real functions')))
for pid in sorted(claims['not_applicable']):
    m['not_applicable'].append(dict(property_id=pid, reason=claims['not_applicable'][pid]))
json.dump(m, open(os.path.join(V, 'MANIFEST.json'), 'w'), indent=1)
print('claimed', sorted(claims['claimed']), 'n/a', sorted(claims['not_applicable']))
