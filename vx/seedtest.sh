#!/bin/sh
# usage: vx/seedtest.sh <patch.diff> <Cxx> [<Cyy> ...]  -- runs checks against a scratch copy of /repo/crates with the patch applied
set -e
P=$(realpath "$1"); shift
D=$(mktemp -d /tmp/vx-seed-XXXXXX)
trap 'rm -rf "$D"' EXIT
rsync -a --exclude target /repo/crates "$D"/
(cd "$D" && patch -p1 -s < "$P")
for c in "$@"; do
  "$(dirname "$0")/../check" "$c" --repo "$D" || echo "exit=$?"
done
