#!/usr/bin/env python3
"""keep the three refactorings of /tmp/seed/H-<pid>-out as /verif/seeded/harmless/<pid>-h<k>/{patch.diff, meta.json};
re-checks in the sub-agent's worktree that each applies and that the unedited suite passes with it (215 tests);
removes the worktree.  usage: vx/keep_harmless.py <pid> [--no-suite]"""
import sys, os, json, subprocess, shutil, re, glob
V = os.path.dirname(os.path.dirname(os.path.abspath(__file__)))
pid = sys.argv[1]
wt, out = '/tmp/seed/H-' + pid, '/tmp/seed/H-' + pid + '-out'
meta = json.load(open(out + '/meta.json'))
def sh(c):
    return subprocess.run(c, shell=True, cwd=wt, capture_output=True, text=True)
existing = len(glob.glob(V + '/seeded/harmless/%s-h*' % pid))
for k, r in enumerate(meta['refactorings'], 1):
    pf = os.path.join(out, r['patch'])
    sh('git checkout -- . && git clean -fdq -e target')
    ok = sh('git apply %s' % pf).returncode == 0
    suite = None
    if ok and '--no-suite' not in sys.argv:
        p = sh('cargo test --workspace --no-fail-fast --offline 2>&1')
        passed = sum(int(x) for x in re.findall(r'test result: \w+\. (\d+) passed', p.stdout))
        failed = sum(int(x) for x in re.findall(r'test result: \w+\. \d+ passed; (\d+) failed', p.stdout))
        suite = dict(passed=passed, failed=failed)
        ok = failed == 0 and passed >= 215
    hid = '%s-h%d' % (pid, existing + k)
    if not ok:
        print(hid, 'NOT kept (does not apply or suite fails)', suite); continue
    d = V + '/seeded/harmless/' + hid
    os.makedirs(d, exist_ok=True)
    shutil.copy(pf, d + '/patch.diff')
    json.dump(dict(id=hid, property=pid, function=r.get('function'), kind=r.get('kind'), why_behaviour_preserving=r.get('why_behaviour_preserving'),
                   origin='behaviour-preserving refactoring written by an independent sub-agent that was given only the property text and its anchored files',
                   confirmed_by_me=dict(patch_applies=True, existing_suite_with_change=suite)), open(d + '/meta.json', 'w'), indent=1)
    print(hid, 'kept', suite)
sh('git checkout -- .')
subprocess.run(['git', '-C', '/repo', 'worktree', 'remove', '--force', wt])
shutil.rmtree(out, ignore_errors=True)
