#!/usr/bin/env python3
"""Prepare a 'harmless refactoring' round: per property a scratch worktree under /tmp/seed/H-<pid> and a prompt asking a
sub-agent for three behaviour-preserving refactorings of the property's anchored functions.  They are used to measure
false alarms: a check must answer exit 0 or exit 2 on them, never a VIOLATION."""
import json, os, subprocess, sys
V = os.path.dirname(os.path.dirname(os.path.abspath(__file__)))
props = {json.loads(l)['id']: json.loads(l) for l in open(os.path.join(V, 'properties.jsonl'))}
tmpl = open(os.path.join(V, 'vx', 'harmless_prompt.tmpl')).read()
os.makedirs('/tmp/seed', exist_ok=True)
for pid in sys.argv[1:]:
    sid = 'H-' + pid
    wt = '/tmp/seed/' + sid
    if os.path.exists(wt):
        print(sid, 'exists'); continue
    subprocess.run(['git', '-C', '/repo', 'worktree', 'add', '--detach', wt, 'HEAD'], check=True, capture_output=True)
    if os.path.isdir('/repo/target'):
        subprocess.run(['cp', '-a', '/repo/target', wt + '/target'], check=True)
    p = props[pid]
    text = '%s: %s\n\n%s' % (pid, p['title'], p['statement'])
    files = ', '.join(f for f in p['anchors']['files'] if f.endswith('.rs'))
    import glob
    used = []
    for m in glob.glob(os.path.join(V, 'seeded', 'harmless', pid + '-h*', 'meta.json')):
        used.append((json.load(open(m)).get('function') or '')[:90])
    avoid = ('\nAVOID these functions, other sub-agents already refactored them: ' + '; '.join(used) + '.\n') if used else ''
    out = tmpl.replace('@WT@', wt).replace('@OUT@', wt + '-out').replace('@PROPERTY@', text).replace('@PID@', pid).replace('@FILES@', files + avoid)
    open('/tmp/seed/%s.prompt' % sid, 'w').write(out)
    print(sid, '/tmp/seed/%s.prompt' % sid)
