#!/bin/sh
# usage: vx/sedtest.sh <relative file> '<sed expr>' <unit>   -- run one unit against a scratch copy with a sed edit
D=$(mktemp -d /tmp/vx-sed-XXXXXX)
trap 'rm -rf "$D"' EXIT
rsync -a --exclude target /repo/crates "$D"/
sed -i "$2" "$D/$1"
if diff -q "$D/$1" "/repo/$1" >/dev/null; then echo "SED MADE NO CHANGE"; exit 3; fi
VX_REPO="$D" python3 "$(dirname "$0")/runone.py" "$3" 2>&1 | grep -E "^(status|FAILED|PANIC|NOTE|REPLAY|TERM)" | cut -c1-300
