#!/usr/bin/env python3
"""False-alarm measurement: run the property's check (and every other claimed property whose anchored crates the patch
touches is left out - one property per patch, the one the refactoring was written for) against a scratch copy of /repo
with one behaviour-preserving refactoring applied.  Expected: exit 0 (held) or exit 2 (undecided), never a VIOLATION.
usage: vx/harmlessrun.py [ids...]      reads /verif/seeded/harmless/<id>/{patch.diff, meta.json}; writes RESULTS.json there"""
import os, sys, json, glob, subprocess, tempfile, shutil, re, concurrent.futures
V = os.path.dirname(os.path.dirname(os.path.abspath(__file__)))
H = V + '/seeded/harmless'
def one(d):
    hid = os.path.basename(d)
    meta = json.load(open(d + '/meta.json'))
    prop = meta['property']
    t = tempfile.mkdtemp(prefix='vx-harmless-')
    try:
        subprocess.run(['rsync', '-a', '--exclude', 'target', '/repo/crates', t + '/'], check=True)
        for x_ in ('Cargo.toml', 'Cargo.lock'):
            shutil.copy('/repo/' + x_, t)
        p = subprocess.run(['patch', '-p1', '-s', '-i', d + '/patch.diff'], cwd=t, capture_output=True, text=True)
        if p.returncode != 0:
            return hid, dict(property=prop, result='patch-does-not-apply')
        env = dict(os.environ, VX_SCRATCH_EVIDENCE=t + '/ev')
        q = subprocess.run([V + '/check', prop, '--repo', t], capture_output=True, text=True, env=env)
        viol = [l[:400] for l in q.stdout.split('\n') if l.startswith('VIOLATION')]
        obl = re.findall(r'failed obligation: (\S+)', q.stdout)
        und = [l[:300] for l in re.findall(r'UNDECIDED .*', q.stdout)][:4]
        res = 'FALSE-ALARM' if (q.returncode == 1 or viol) else ('held' if q.returncode == 0 else 'undecided')
        return hid, dict(property=prop, function=meta.get('function'), kind=meta.get('kind'), exit=q.returncode, result=res, violations=viol[:4], failed_obligations=obl[:6], undecided=und)
    finally:
        shutil.rmtree(t, ignore_errors=True)
ids = sys.argv[1:]
dirs = [d for d in sorted(glob.glob(H + '/*-*')) if os.path.isdir(d) and (not ids or os.path.basename(d) in ids)]
out = {}
if os.path.exists(H + '/RESULTS.json') and ids:
    out = json.load(open(H + '/RESULTS.json'))
with concurrent.futures.ThreadPoolExecutor(max_workers=3) as ex:
    for hid, r in ex.map(one, dirs):
        out[hid] = r
        print(hid, r['result'], r.get('failed_obligations', [])[:3], (r.get('undecided') or [''])[0][:160])
json.dump(out, open(H + '/RESULTS.json', 'w'), indent=1, sort_keys=True)
