#!/usr/bin/env python3
"""vx - extractor / splicer / runner for contract-based verification of uhyo/nitrogql with Verus.

See /verif/DESIGN.md section 3.  Python stdlib only."""
import sys, os, re, json, hashlib, subprocess, tempfile, shutil, time, concurrent.futures

HERE = os.path.dirname(os.path.abspath(__file__))
sys.path.insert(0, HERE)
from rustlex import mask, find_items, line_of, all_fns, match_close, body_open, attrs_start  # noqa
from splice import FnSpec, splice_fn, LostAnchor, mark, apply_insertions  # noqa
import inline as inl  # noqa

VERIF = os.path.dirname(HERE)
REPO = os.environ.get('VX_REPO', '/repo')
CONTRACTS = os.path.join(VERIF, 'contracts')
MARK_RX = re.compile(r'/\*@([^@]+)@\*/')

VERIFICATION_MSG = re.compile(
    r'postcondition not satisfied|precondition not satisfied|precondition not met|assertion failed|assertion not satisfied|index out of bounds|invariant not satisfied|'
    r'decreases not satisfied|could not prove termination|possible arithmetic|possible division by zero|'
    r'possible bit shift|loop invariant|cannot show invariant|not all paths|'
    r'failed to prove|unable to prove|constructed value may fail to meet its declared type invariant|'
    r'may be out of range|panic')
PANIC_MSG = re.compile(r'possible arithmetic|possible division by zero|possible bit shift|may be out of range')
TERMINATION_MSG = re.compile(r'decreases not satisfied|could not prove termination')
UNDECIDED_MSG = re.compile(r'rlimit|Resource limit|timed out|time limit|internal error|not supported|unsupported|'
                           r'does not yet support|Verus does not')


class Undecided(Exception):
    pass


# ----------------------------------------------------------------------------------------
# template parsing

class Clause:
    def __init__(self, cid, kind, text, fn, unit):
        self.id, self.kind, self.text, self.fn, self.unit = cid, kind, text, fn, unit

    def props(self, primary):
        m = re.match(r'((?:C\d\d\+)*C\d\d)\.', self.id)
        return m.group(1).split('+') if m else [primary]


def parse_directive_lines(lines):
    """group template lines into ('text', str) and ('dir', str) entries; //@| continues a directive"""
    out = []
    for l in lines:
        s = l.strip()
        if s.startswith('//@|'):
            if not out or out[-1][0] != 'dir':
                raise Undecided('template: continuation without directive')
            t = s[4:]
            if t.startswith(' '):
                t = t[1:]
            out[-1] = ('dir', out[-1][1] + '\n' + t.rstrip())
        elif s.startswith('//@'):
            out.append(('dir', s[3:].strip()))
        else:
            out.append(('text', l))
    return out


ID_RX = re.compile(r'^\[([^\]]+)\]\s*')


class Unit:
    def __init__(self, uid, repo=REPO):
        self.id = uid
        self.repo = repo
        self.dir = os.path.join(CONTRACTS, uid)
        self.template = os.path.join(self.dir, 'unit.rs')
        self.props = []
        self.primary = None
        self.clauses = {}        # id -> Clause
        self.lemmas = {}         # fn name -> clause id
        self.items = []          # extraction records
        self.transforms = []     # logged transformations
        self.verus_args = []
        self.fns_under_contract = []  # (fn name, file, item)
        self.has_replay = False
        self.auto = 0
        self.rlimit = None
        self.external_auto = []
        self.needs_deps = False
        self.dropped_hints = set()   # hint ids not spliced (failed / anchor lost / no longer type-check)
        self.lost_hints = []

    # -- ids
    def _cid(self, text, fn, kind):
        m = ID_RX.match(text)
        if m:
            cid = m.group(1)
            text = text[m.end():]
        else:
            self.auto += 1
            cid = '%s.%s.%s.%s%d' % (self.primary, self.id, fn, kind, self.auto)
        if cid in self.clauses:
            raise Undecided('template: duplicate clause id ' + cid)
        self.clauses[cid] = Clause(cid, kind, text, fn, self.id)
        return cid, text

    def generate(self):
        def expand(lines, depth=0):
            out_ = []
            for l in lines:
                m = re.match(r'\s*//@\s*fragment\s+(\S+)', l)
                if m and depth < 6:
                    out_ += expand(open(os.path.join(CONTRACTS, '_fragments', m.group(1))).read().split('\n'), depth + 1)
                else:
                    out_.append(l)
            return out_
        raw = expand(open(self.template).read().split('\n'))
        ents = parse_directive_lines(raw)
        out = []
        i = 0
        n = len(ents)
        while i < n:
            kind, s = ents[i]
            if kind == 'text':
                out.append(s)
                i += 1
                continue
            w = s.split(None, 1)
            cmd = w[0] if w else ''
            arg = w[1] if len(w) > 1 else ''
            if cmd == 'unit':
                a = arg.split()
                if a[0] != self.id:
                    raise Undecided('template unit id mismatch')
                for kv in a[1:]:
                    if '=' not in kv:
                        continue   # flags such as `disabled` (read by check.py)
                    k, v = kv.split('=')
                    if k == 'props':
                        self.props = v.split(',')
                    elif k == 'primary':
                        self.primary = v
                    elif k == 'rlimit':
                        self.rlimit = int(v)
                if not self.primary:
                    self.primary = self.props[0]
                i += 1
            elif cmd == 'verus-args':
                self.verus_args += arg.split()
                i += 1
            elif cmd == 'deps':
                self.needs_deps = True
                i += 1
            elif cmd == 'include':
                p = os.path.join(VERIF, 'prelude', arg.strip())
                out.append('// ---- vx:include prelude/%s ----' % arg.strip())
                out.append(open(p).read())
                i += 1
            elif cmd == 'canary':
                out.append('proof fn vx_canary__()\n    ensures false, /*@CANARY@*/\n{}')
                i += 1
            elif cmd == 'lemma':
                m = ID_RX.match(arg)
                cid = m.group(1)
                fn = arg[m.end():].strip()
                self.clauses[cid] = Clause(cid, 'lemma', 'proof fn ' + fn, fn, self.id)
                self.lemmas[fn] = cid
                i += 1
            elif cmd == 'replay':
                self.has_replay = True
                i += 1
            elif cmd in ('extract', 'contract', 'inline'):
                j = i + 1
                subs = []
                while j < n and not (ents[j][0] == 'dir' and ents[j][1].split(None, 1)[0] == 'end'):
                    if ents[j][0] == 'text':
                        if ents[j][1].strip():
                            raise Undecided('template: text inside %s block: %r' % (cmd, ents[j][1]))
                    else:
                        subs.append(ents[j][1])
                    j += 1
                if j >= n:
                    raise Undecided('template: unterminated %s block' % cmd)
                if cmd == 'extract':
                    out.append(self._extract(arg, subs))
                elif cmd == 'inline':
                    out.append(self._inline(arg, subs))
                else:
                    # contract: applies to already generated text (inlined modules)
                    text = '\n'.join(out)
                    text = self._contract(text, arg, subs)
                    out = [text]
                i = j + 1
            else:
                raise Undecided('template: unknown directive %r' % cmd)
        text = '\n'.join(out)
        if '// ---- vx:inline crate' in text:
            text = self._finalize_inlined(text)
        return self._dedupe_root_uses(text)

    @staticmethod
    def _dedupe_root_uses(text):
        """template fragments may repeat the same root-level `use crate::..;` line: keep the first (E0252 otherwise)"""
        seen, out, inl = set(), [], 0
        for l in text.split('\n'):
            if l.startswith('// ---- vx:inline crate'):
                inl += 1
            elif l.startswith('// ---- vx:end-inline'):
                inl -= 1
            if inl == 0 and re.match(r'use crate::[\w:#]+(\s+as\s+\w+)?;\s*$', l):
                if l.strip() in seen:
                    continue
                seen.add(l.strip())
            out.append(l)
        return '\n'.join(out)

    def _finalize_inlined(self, text):
        """inside inlined crates every fn that carries no contract of this unit becomes external_body:
        it is type-checked by Verus but not verified, and callers see no contract for it."""
        masked = mask(text)
        ins = []
        n_ext = 0
        for m in re.finditer(r'// ---- vx:inline crate (\w+)', text):
            e = text.find('// ---- vx:end-inline %s' % m.group(1), m.end())
            for name, s, k, fe, ind in inl.fn_spans(text[m.end():e], masked[m.end():e]):
                s += m.end()
                before = text[max(0, s - 400):s]
                tail = before.split('\n')[-4:]
                if any('verifier::external' in t or 'vx:contracted' in t or 'verifier::spec' in t for t in tail):
                    continue
                # skip fns nested in a macro_rules or spec code
                ins.append((s, ind + '#[verifier::external_body] /*vx:not-under-contract*/\n'))
                n_ext += 1
        out, last = [], 0
        for pos, t in sorted(ins):
            out.append(text[last:pos])
            out.append(t)
            last = pos
        out.append(text[last:])
        self.not_under_contract = n_ext
        return ''.join(out)

    # -- extraction of one item
    def _locate(self, src, masked, path):
        lo, hi = 0, len(src)
        span = None
        for part in path:
            kind, name = part.split(None, 1)
            nth = 0
            m = re.match(r'(.*)#(\d+)$', name)
            if m:
                name, nth = m.group(1).strip(), int(m.group(2))
            found = find_items(src, masked, kind, name, lo, hi)
            if len(found) <= nth:
                raise LostAnchor('item %r not found' % part)
            span = found[nth]
            lo, hi = span[1], span[2]
        return span

    def _extract(self, arg, subs):
        parts = [p.strip() for p in arg.split('::')]
        rel = parts[0]
        path = parts[1:]
        fpath = os.path.join(self.repo, rel)
        if not os.path.exists(fpath):
            raise LostAnchor('file %s not found' % rel)
        src = open(fpath).read()
        masked = mask(src)
        a, hs, b = self._locate(src, masked, path)
        text = src[a:b]
        sha = hashlib.sha256(text.encode()).hexdigest()
        rec = dict(unit=self.id, file=rel, item=' :: '.join(path), sha256=sha,
                   lines=[line_of(src, a), line_of(src, b - 1)], transformations=[])
        self.items.append(rec)
        default_fn = None
        last = path[-1].split(None, 1)
        if last[0] == 'fn':
            default_fn = re.sub(r'#\d+$', '', last[1]).strip()
        text = self._apply_subs(text, subs, default_fn, rec)
        hdr = '// ---- vx:extract %s :: %s (lines %d-%d, sha256 %s) ----\n' % (
            rel, ' :: '.join(path), rec['lines'][0], rec['lines'][1], sha[:16])
        return hdr + text + '\n// ---- vx:end-extract ----'

    def _inline(self, arg, subs):
        text, recs, ext = inl.inline_crate(self.repo, arg, subs, self)
        self.items += recs
        self.external_auto += ext
        return text

    def _contract(self, text, arg, subs):
        """contract <module::path> :: fn name  -- splice into fn inside inlined module text"""
        parts = [p.strip() for p in arg.split('::fn ')]
        modpath = parts[0].strip().rstrip(':').strip()
        fname = parts[1].strip()
        lo, hi = inl.module_span(text, modpath)
        rec = dict(unit=self.id, file='(inlined) ' + modpath, item='fn ' + fname, transformations=[])
        masked = mask(text)
        # sha of the fn text before splicing
        from splice import find_fn
        nth = 0
        m = re.match(r'(.*)#(\d+)$', fname)
        if m:
            fname, nth = m.group(1).strip(), int(m.group(2))
        fs, _, bo, fe = find_fn(text, masked, fname, nth, lo, hi)
        rec['sha256'] = hashlib.sha256(text[fs:fe].encode()).hexdigest()
        self.items.append(rec)
        if any(x.split()[0] == 'unexternal' for x in subs):
            # the unit verifies a function that the syntactic scan marked external (after a rewrite rule removed the
            # unsupported construct): drop the auto attribute line in front of it
            subs = [x for x in subs if x.split()[0] != 'unexternal']
            ls = text.rfind('\n', 0, fs) + 1
            prev_s = text.rfind('\n', 0, ls - 1) + 1
            prev = text[prev_s:ls]
            if 'vx:auto' in prev and 'external_body' in prev:
                text = text[:prev_s] + text[ls:]
                hi -= (ls - prev_s)
                rec['transformations'].append(dict(rule='T8', what='auto external_body removed: function verified by this unit'))
            # else: the syntactic scan did not mark it (nothing to remove)
        seg = text[lo:hi]
        seg = self._apply_subs(seg, subs, fname, rec, nth=nth)
        return text[:lo] + seg + text[hi:]

    def _apply_subs(self, text, subs, default_fn, rec, nth=0):
        specs = {}
        cur = None
        order = []

        def spec_for(name, nth_=0):
            key = (name, nth_)
            if key not in specs:
                specs[key] = FnSpec(name, nth_)
                order.append(key)
            return specs[key]

        if default_fn:
            cur = spec_for(default_fn, nth)
        item_attrs = []
        for s in subs:
            w = s.split(None, 1)
            cmd = w[0]
            arg = w[1] if len(w) > 1 else ''
            if cmd == 'fn':
                m = re.match(r'(\w+)(?:#(\d+))?', arg.strip())
                cur = spec_for(m.group(1), int(m.group(2) or 0))
            elif cmd == 'rewrite':
                # rewrite <rule> <count> "<from>" => "<to>"
                m = re.match(r'(\S+)\s+(\d+|\*)\s+(".*?(?<!\\)")\s*=>\s*(".*")\s*$', arg, re.S)
                if not m:
                    raise Undecided('template: bad rewrite %r' % arg)
                rule, cnt = m.group(1), m.group(2)
                frm, to = json.loads(m.group(3)), json.loads(m.group(4))
                c = text.count(frm)
                if (cnt != '*' and c != int(cnt)) or c == 0:
                    raise LostAnchor('rewrite %s: %r occurs %d times, expected %s' % (rule, frm, c, cnt))
                text = text.replace(frm, to)
                t = dict(rule=rule, frm=frm, to=to, count=c, item=rec.get('item'))
                rec['transformations'].append(t)
                self.transforms.append(t)
            elif cmd == 'rewrite_re':
                m = re.match(r'(\S+)\s+(\d+|\*)\s+(".*?(?<!\\)")\s*=>\s*(".*")\s*$', arg, re.S)
                rule, cnt = m.group(1), m.group(2)
                frm, to = json.loads(m.group(3)), json.loads(m.group(4))
                text, c = re.subn(frm, to, text)
                if (cnt != '*' and c != int(cnt)) or c == 0:
                    raise LostAnchor('rewrite_re %s: %r matched %d times, expected %s' % (rule, frm, c, cnt))
                t = dict(rule=rule, frm_regex=frm, to=to, count=c, item=rec.get('item'))
                rec['transformations'].append(t)
                self.transforms.append(t)
            elif cmd == 'enumerate_for':
                text, c = inl.rewrite_enumerate_for(text)
                if c == 0:
                    raise LostAnchor('enumerate_for: no `for (i, x) in e.enumerate()` found')
                t = dict(rule='T15', what='for (i, x) in e.enumerate() { B } -> counter variable incremented at the top of the body', count=c, item=rec.get('item'))
                rec['transformations'].append(t)
                self.transforms.append(t)
            elif cmd == 'wrap_chain':
                a_ = arg.split()
                text, c = inl.rewrite_method_chain(text, a_[0], a_[1].split(','))
                if c == 0:
                    raise LostAnchor('wrap_chain: no .%s found' % '().'.join(a_[1].split(',')))
                t = dict(rule='T16', what='RECV.%s(..) -> crate::%s(RECV, ..): trusted wrapper whose body is that same call' % ('(..).'.join(a_[1].split(',')), a_[0]), count=c, item=rec.get('item'))
                rec['transformations'].append(t)
                self.transforms.append(t)
            elif cmd == 'only':
                # only f1,f2  -- T-DROP: every other fn of the extracted impl block is removed (not verified, not callable)
                keepf = [x.strip() for x in arg.split(',')]
                mk = mask(text)
                spans = [(n_, s0, e_) for (n_, s0, k_, e_, ind_) in inl.fn_spans(text, mk)]
                present = [n_ for n_, _, _ in spans]
                for kf in keepf:
                    if kf not in present:
                        raise LostAnchor('only: fn %s not found in extracted item' % kf)
                droppedf = []
                for n_, s0, e_ in sorted(spans, key=lambda x: -x[1]):
                    if n_ in keepf:
                        continue
                    # nested fns inside a kept fn stay
                    if any(n2 in keepf and s2 < s0 and e_ <= e2 for n2, s2, e2 in spans):
                        continue
                    ls = attrs_start(text, mk, s0)
                    text = text[:ls] + '/* vx:T-DROP fn %s dropped (outside this unit) */' % n_ + text[e_:]
                    mk = mask(text)
                    droppedf.append(n_)
                t = dict(rule='T-DROP', what='fns dropped from extracted impl: ' + ','.join(reversed(droppedf)), item=rec.get('item'))
                rec['transformations'].append(t)
                self.transforms.append(t)
            elif cmd == 'pub':
                text, c = re.subn(r'(?m)^([ \t]*)((?:const|static|fn|struct|enum|type|trait|unsafe fn|async fn)\b)', r'\1pub \2', text, count=1)
                if c != 1:
                    raise LostAnchor('pub: item keyword not found')
                rec['transformations'].append(dict(rule='T3', what='item made pub'))
            elif cmd == 'pubfields':
                text, c = inl.pub_fields(text)
                rec['transformations'].append(dict(rule='T3', what='fields/items made pub', count=c))
            elif cmd == 'derive_remove':
                names = [x.strip() for x in arg.split(',')]
                text, removed = inl.derive_remove(text, names)
                rec['transformations'].append(dict(rule='T2', what='derive removed', names=removed))
            elif cmd == 'strip_attrs':
                names = [x.strip() for x in arg.split(',')]
                text, c = inl.strip_attrs(text, names)
                rec['transformations'].append(dict(rule='T2', what='attributes stripped', names=names, count=c))
            elif cmd == 'strip_log':
                text, c = inl.strip_log_macros(text)
                rec['transformations'].append(dict(rule='T6', what='log macros removed', count=c))
            elif cmd == 'hoist_closure_patterns':
                text, c = inl.hoist_closure_patterns(text)
                rec['transformations'].append(dict(rule='T5', what='closure param patterns hoisted', count=c))
            elif cmd == 'attr' and (cur is None or arg.startswith('item ')):
                item_attrs.append(arg[5:] if arg.startswith('item ') else arg)
            elif cur is None:
                raise Undecided('template: %r outside fn context' % s)
            elif cmd == 'attr':
                cur.attrs.append(arg)
            elif cmd == 'ret':
                cur.ret = arg.strip()
            elif cmd == 'loops':
                cur.nloops = int(arg)
            elif cmd in ('requires', 'ensures'):
                cid, t = self._cid(arg, cur.name, cmd)
                getattr(cur, cmd).append((cid, t))
            elif cmd == 'decreases':
                cid, t = self._cid(arg, cur.name, 'decreases')
                cur.decreases = (cid, t)
            elif cmd == 'sig':
                cur.extra_sig.append(arg)
            elif cmd == 'prefix':
                cur.prefix.append(arg)
            elif cmd == 'suffix':
                cid, t = self._cid(arg, cur.name, 'hint')
                self.clauses[cid].kind = 'hint'
                if cid not in self.dropped_hints:
                    cur.suffix.append((cid, t))
            elif cmd == 'loop':
                m = re.match(r'(\d+)\s+(\w+)\s*(.*)$', arg, re.S)
                nl, sub, rest = int(m.group(1)), m.group(2), m.group(3)
                l = cur.loop(nl)
                if sub in ('invariant', 'invariant_except_break', 'ensures'):
                    cid, t = self._cid(rest, cur.name, 'loop%d.%s' % (nl, sub))
                    l[sub].append((cid, t))
                elif sub == 'decreases':
                    cid, t = self._cid(rest, cur.name, 'loop%d.decreases' % nl)
                    l['decreases'] = (cid, t)
                elif sub == 'prefix':
                    l['prefix'].append(rest)
                elif sub == 'body_prefix':
                    l['body_prefix'].append(rest)
                elif sub == 'suffix':
                    cid, t = self._cid(rest, cur.name, 'hint')
                    self.clauses[cid].kind = 'hint'
                    if cid not in self.dropped_hints:
                        l['suffix'].append((cid, t))
                elif sub == 'iter_name':
                    l['iter_name'] = rest.strip()
                elif sub == 'for_continue':
                    l['for_continue'] = True
                    t = dict(rule='T13', what='for-loop body with `continue` wrapped in a one-iteration `loop { ..; break; }`, continue -> break', item=cur.name, loop=nl)
                    rec['transformations'].append(t)
                    self.transforms.append(t)
                elif sub in ('body_invariant', 'body_ensures'):
                    cid, t = self._cid(rest, cur.name, 'loop%d.%s' % (nl, sub))
                    l[sub].append((cid, t))
                else:
                    raise Undecided('template: bad loop directive %r' % s)
            elif cmd == 'hint':
                # hint before|after <occ> "<anchor>" :: text
                m = re.match(r'(before|after)\s+(\d+)\s+("(?:[^"\\]|\\.)*")\s*::\s*(.*)$', arg, re.S)
                if not m:
                    raise Undecided('template: bad hint %r' % arg)
                cid, t = self._cid(m.group(4), cur.name, 'hint')
                if cid not in self.dropped_hints:
                    cur.hints.append((cid, m.group(1), int(m.group(2)), json.loads(m.group(3)), t))
            elif cmd == 'wrap':
                # wrap <occ> "<anchor expr>" [as <type>] :: text    (E -> { let r__[: type] = E; text r__ })
                m = re.match(r'(\d+)\s+("(?:[^"\\]|\\.)*")\s*(?:as\s+(.+?)\s*)?::\s*(.*)$', arg, re.S)
                cid, t = self._cid(m.group(4), cur.name, 'wrap')
                if cid not in self.dropped_hints:
                    cur.wraps.append((cid, int(m.group(1)), json.loads(m.group(2)), t, m.group(3)))
            elif cmd == 'wrap_arm':
                m = re.match(r'(\d+)\s+(\d+)\s*::\s*(.*)$', arg, re.S)
                cid, t = self._cid(m.group(3), cur.name, 'wrap')
                if cid not in self.dropped_hints:
                    cur.arm_wraps.append((cid, int(m.group(1)), int(m.group(2)), t))
            elif cmd == 'wrap_tail':
                m = re.match(r'(\d+)\s+("(?:[^"\\]|\\.)*")\s*::\s*(.*)$', arg, re.S)
                cid, t = self._cid(m.group(3), cur.name, 'wrap')
                if cid not in self.dropped_hints:
                    cur.tail_wraps.append((cid, int(m.group(1)), json.loads(m.group(2)), t))
            elif cmd == 'closure':
                # closure <ordinal> <header> ;; requires [id] e ;; ensures [id] e
                m = re.match(r'(\d+)\s+(.*)$', arg, re.S)
                segs = [x.strip() for x in m.group(2).split(';;')]
                cls = []
                for sg in segs[1:]:
                    k, t = sg.split(None, 1)
                    cid, t = self._cid(t, cur.name, 'closure%s.%s' % (m.group(1), k))
                    cls.append((cid, k, t))
                cur.closures.append((int(m.group(1)), segs[0], cls))
            else:
                raise Undecided('template: unknown sub-directive %r' % s)
        for key in order:
            sp = specs[key]
            if sp.clause_ids() or sp.ret or sp.prefix or sp.attrs or sp.loops or sp.extra_sig or sp.arm_wraps or sp.tail_wraps or sp.suffix:
                text = splice_fn(text, sp)
                self.lost_hints += sp.lost_hints
                ext = any('external_body' in a for a in sp.attrs)
                if ext:
                    # contract of a function whose body is NOT verified in this unit: an ASSUMPTION, never an obligation
                    for cid_ in sp.clause_ids():
                        if cid_ in self.clauses:
                            self.clauses[cid_].kind = 'assumed'
                if not ext:
                    self.fns_under_contract.append(dict(unit=self.id, function=sp.name, file=rec.get('file'),
                                                        item=rec.get('item'), clauses=sp.clause_ids()))
        if item_attrs:
            text = '\n'.join(item_attrs) + '\n' + text
        return text


# ----------------------------------------------------------------------------------------
# running verus

def deps_args():
    d = os.path.join(VERIF, 'deps', 'target', 'debug', 'deps')
    args = ['-L', 'dependency=' + d]
    ext = os.path.join(VERIF, 'deps', 'externs.json')
    if os.path.exists(ext):
        for name, pat in json.load(open(ext)).items():
            import glob
            g = sorted(glob.glob(os.path.join(d, pat)))
            if g:
                args += ['--extern', '%s=%s' % (name, g[-1])]
    return args


def run_verus(gen_path, unit, rlimit, seed=None, extra=None, timeout=1500):
    cmd = ['verus', gen_path, '--output-json', '--time', '--multiple-errors', '50', '--rlimit', str(rlimit)]
    cmd += unit.verus_args
    if extra:
        cmd += extra
    if seed is not None:
        cmd += ['-V', 'smt.random_seed=%d' % seed] if False else []
    rust_args = ['--error-format=json']
    if unit.needs_deps:
        rust_args += deps_args()
    cmd += ['--'] + rust_args
    t0 = time.time()
    try:
        p = subprocess.run(cmd, capture_output=True, text=True, timeout=timeout, cwd=os.path.dirname(gen_path))
    except subprocess.TimeoutExpired:
        return dict(cmd=' '.join(cmd), timeout=True, wall=time.time() - t0, diags=[], js=None, rc=-1, stderr='timeout')
    wall = time.time() - t0
    js = None
    try:
        js = json.loads(p.stdout)
    except Exception:
        pass
    diags = []
    other = []
    for l in p.stderr.split('\n'):
        l = l.strip()
        if l.startswith('{'):
            try:
                diags.append(json.loads(l))
                continue
            except Exception:
                pass
        if l:
            other.append(l)
    return dict(cmd=' '.join(cmd), timeout=False, wall=wall, diags=diags, js=js, rc=p.returncode,
                stderr='\n'.join(other))


def fn_ranges(gen_text):
    masked = mask(gen_text)
    res = []
    for name, s, bo, e in all_fns(gen_text, masked):
        res.append((name, line_of(gen_text, s), line_of(gen_text, e - 1)))
    return res


def enclosing_fn(ranges, line):
    best = None
    for name, a, b in ranges:
        if a <= line <= b and (best is None or (b - a) < (best[2] - best[1])):
            best = (name, a, b)
    return best[0] if best else None


def analyse(unit, gen_path, gen_text, res):
    """map diagnostics to clause ids. returns dict(failed={cid:[msgs]}, panic=[...], undecided=[...], canary_ok)"""
    lines = gen_text.split('\n')
    marks = {}
    for i, l in enumerate(lines, 1):
        for m in MARK_RX.finditer(l):
            marks.setdefault(i, []).append(m.group(1))
    ranges = fn_ranges(gen_text)
    failed, panic, undecided, termination = {}, [], [], []
    bad_hints = set()
    bad_hints_compile = set()   # proof steps that no longer TYPE-CHECK against the code (scaffolding lost)
    canary = False
    extracted_fns = set(f['function'] for f in unit.fns_under_contract)
    if res['timeout']:
        undecided.append('verus timeout')
    for d in res['diags']:
        if d.get('level') != 'error':
            continue
        msg = d.get('message', '')
        if msg.startswith('aborting due to'):
            continue
        rendered = d.get('rendered') or msg
        spans = d.get('spans', [])
        if d.get('code') or not VERIFICATION_MSG.search(msg):
            # a compile error located on a spliced hint line: the hint no longer fits the code -> drop it and retry
            hint_ids = []
            for sp in spans:
                if os.path.basename(sp.get('file_name', '')) != os.path.basename(gen_path):
                    continue
                for ln in range(sp['line_start'], sp['line_end'] + 1):
                    for cid in marks.get(ln, []):
                        c = unit.clauses.get(cid)
                        if c is not None and c.kind in ('hint', 'wrap') and cid not in hint_ids:
                            hint_ids.append(cid)
            if hint_ids and not UNDECIDED_MSG.search(msg):
                bad_hints.update(hint_ids)
                bad_hints_compile.update(hint_ids)
                continue
            if UNDECIDED_MSG.search(msg):
                undecided.append('verus: ' + msg.split('\n')[0])
            else:
                undecided.append('rustc/verus error (contract-does-not-typecheck or unsupported): ' + rendered[:600])
            continue
        ids = []
        prim_line = None
        in_vstd = False
        for sp in spans:
            fn_ = sp.get('file_name', '')
            if os.path.basename(fn_) != os.path.basename(gen_path):
                in_vstd = True
                continue
            if sp.get('is_primary'):
                prim_line = sp['line_start']
            if not (sp.get('is_primary') or 'failed' in (sp.get('label') or '')):
                continue   # e.g. "at the end of the function body": covers unrelated lines
            for ln in range(sp['line_start'], sp['line_end'] + 1):
                for cid in marks.get(ln, []):
                    if cid not in ids:
                        ids.append(cid)
        if prim_line is None and spans:
            for sp in spans:
                if os.path.basename(sp.get('file_name', '')) == os.path.basename(gen_path):
                    prim_line = sp['line_start']
        encl = enclosing_fn(ranges, prim_line) if prim_line else None
        if 'CANARY' in ids:
            canary = True
            continue
        if ids:
            pre_of_callee = False
            for cid in ids:
                c_ = unit.clauses.get(cid)
                # "precondition not satisfied": the marked clause is a `requires` of the CALLEE; the obligation that
                # failed is the caller's (its body must establish it at the call site).  It is recorded as a body
                # obligation of the enclosing function, so that it is reported also when the callee's contract is an
                # assumption of this unit (such clause ids are not obligations of the unit themselves).
                if 'precondition not' in msg and c_ is not None and c_.kind in ('requires', 'assumed') and encl in extracted_fns and c_.fn.split('::')[-1] != encl:
                    src_line = lines[prim_line - 1].strip() if prim_line else ''
                    h = hashlib.sha256((cid + src_line).encode()).hexdigest()[:8]
                    panic.append(dict(fn=encl, line=prim_line, src=src_line, msg='precondition %s of the callee is not established at this call' % cid, rendered=rendered,
                                      id='C08.%s.%s.nopanic@%s' % (unit.id, encl, h)))
                    pre_of_callee = True
                else:
                    failed.setdefault(cid, []).append(rendered)
            if pre_of_callee or ids:
                continue
        if encl in unit.lemmas:
            failed.setdefault(unit.lemmas[encl], []).append(rendered)
            continue
        if TERMINATION_MSG.search(msg) and encl in extracted_fns:
            termination.append(dict(fn=encl, line=prim_line, msg=msg, rendered=rendered))
            continue
        if (PANIC_MSG.search(msg) or 'precondition not' in msg or 'index out of bounds' in msg) and encl in extracted_fns:
            src_line = lines[prim_line - 1].strip() if prim_line else ''
            h = hashlib.sha256(src_line.encode()).hexdigest()[:8]
            panic.append(dict(fn=encl, line=prim_line, src=src_line, msg=msg, rendered=rendered,
                              id='C08.%s.%s.nopanic@%s' % (unit.id, encl, h)))
            continue
        undecided.append('unattributed verification failure in %s (template code): %s' % (encl, rendered[:600]))
    # hints: an id 'X#h' is a proof step FOR clause X (its failure is reported as X); a hint with a plain id is an
    # intermediate fact: if only such hints fail in a function, the proof is broken but no contract clause is
    # known to fail -> undecided, never a violation.
    for cid in list(failed.keys()):
        c = unit.clauses.get(cid)
        if c is None or c.kind not in ('hint', 'wrap'):
            continue
        msgs = failed.pop(cid)
        # a proof step (plain id, or `X#h` = step towards clause X) that no longer holds: Verus assumed it afterwards,
        # so nothing proved after it can be trusted, and its failure alone says nothing about the contract.  It is
        # dropped and the unit is re-verified without it (run_unit): only if a CONTRACT clause then fails is a
        # violation reported (the replay file lists the dropped steps).
        bad_hints.add(cid)
    js = res['js']
    if js is None and not res['timeout']:
        undecided.append('verus produced no JSON (rc=%s): %s' % (res['rc'], res['stderr'][:600]))
    vr = (js or {}).get('verification-results', {})
    if vr.get('encountered-vir-error'):
        undecided.append('verus vir error: ' + res['stderr'][:600])
    return dict(failed=failed, panic=panic, undecided=undecided, canary=canary, termination=termination, bad_hints=bad_hints, bad_hints_compile=bad_hints_compile,
                verified=vr.get('verified'), errors=vr.get('errors'))


def per_function(res):
    out = []
    js = res.get('js') or {}
    try:
        for m in js['times-ms']['smt']['smt-run-module-times']:
            for f in m['function-breakdown']:
                out.append(dict(function=f['function'], mode=f.get('mode:'), smt_ms=f.get('time'),
                                rlimit=f.get('rlimit'), success=f.get('success'), backend='verus-z3'))
    except Exception:
        pass
    return out


ASSUME_RX = re.compile(r'\bassume\s*\(|\badmit\s*\(|external_body|assume_specification|verifier::external\b|'
                       r'exec_allows_no_decreases_clause|verifier::truncate|external_type_specification|'
                       r'external_trait_specification|external_fn_specification|\baxiom\b|verifier::external_trait')


def scan_assumptions(gen_text, unit_id):
    masked = mask(gen_text)
    res = []
    ranges = fn_ranges(gen_text)
    mlines = masked.split('\n')
    olines = gen_text.split('\n')
    for i, l in enumerate(mlines, 1):
        m = ASSUME_RX.search(l)
        if m:
            # describe by the next non-attribute line
            j = i - 1
            desc = olines[j].strip()
            k = j + 1
            while desc.startswith('#[') and k < len(olines):
                desc = desc + ' ' + olines[k].strip()
                if not olines[k].strip().startswith('#['):
                    break
                k += 1
            res.append('%s: %s: %s' % (unit_id, m.group(0).strip(' ('), desc[:200]))
    return res


CALLEES_FILE = os.path.join(CONTRACTS, '_callees.json')


def callees_of(gen):
    """for every function defined in the generated file: the functions defined in the same file that its body calls
    (by name; `g(`, `.g(`, `::g(`).  Recorded for the unchanged tree in contracts/_callees.json (vx/mkcallees.py): the
    proof that was accepted is a modular proof against the contracts of exactly these callees."""
    msk = inl.mask(gen)
    spans = inl.fn_spans(gen, msk)
    names = set(n for n, _, _, _, _ in spans)
    out = {}
    for name, s0, k, e, ind in spans:
        body = msk[k:e]
        called = set(m.group(1) for m in re.finditer(r'\b([A-Za-z_][A-Za-z0-9_]*)\s*(?:::<[^>()]*>)?\s*\(', body))
        out.setdefault(name, set()).update((called & names) - {name})
    return {k: sorted(v) for k, v in out.items()}


def new_callees(uid, gen, fn):
    """callees of `fn` in this tree that the recorded proof did not know (None if nothing is recorded for the unit)"""
    try:
        base = json.load(open(CALLEES_FILE)).get(uid)
    except Exception:
        base = None
    if base is None:
        return None
    fn = fn.split('::')[-1]
    now = set(callees_of(gen).get(fn, []))
    return sorted(now - set(base.get(fn, [])))


def run_unit(uid, tier='quick', repo=REPO, keep=None, seed=0):
    """generate + verify one unit; returns a result dict"""
    t0 = time.time()
    u = Unit(uid, repo)
    r = dict(unit=uid, status='ok', notes=[], failed={}, panic=[], termination=[], clauses={}, props=[],
             items=[], fns=[], per_function=[], assumptions=[], transforms=[], wall_s=0, cmd='', verified=None,
             errors=None, lemmas={}, has_replay=False, primary=None, external_auto=[])
    scratch = tempfile.mkdtemp(prefix='vx-%s-' % uid)
    try:
        dropped = set()
        dropped_compile = set()
        passes = 0
        while True:
            passes += 1
            u = Unit(uid, repo)
            u.dropped_hints = set(dropped)
            try:
                gen = u.generate()
            except LostAnchor as e:
                r.update(status='undecided', notes=['lost anchor: %s' % e], props=u.props, primary=u.primary)
                return r
            except Undecided as e:
                r.update(status='undecided', notes=['%s' % e], props=u.props, primary=u.primary)
                return r
            gen_path = os.path.join(scratch, 'gen_%s.rs' % uid)
            open(gen_path, 'w').write(gen)
            if keep:
                os.makedirs(keep, exist_ok=True)
                shutil.copy(gen_path, os.path.join(keep, 'gen_%s.rs' % uid))
            rl = u.rlimit or 30
            if tier == 'thorough':
                rl *= 4
            res = run_verus(gen_path, u, rl)
            an = analyse(u, gen_path, gen, res)
            dropped_compile |= set(an.get('bad_hints_compile', ()))
            new_bad = set(an['bad_hints']) - dropped
            if new_bad and passes < 8:
                dropped |= new_bad
                continue
            break
        r['dropped_hints'] = sorted(dropped)
        r['lost_hints'] = sorted(set(u.lost_hints))
        r['passes'] = passes
        for c_ in u.clauses.values():
            # naming convention: ids containing `assumed` mark contracts that are assumptions in this unit (trait-level
            # contracts on generic parameters, callee contracts proved in another unit)
            if re.search(r'(^|\.)assumed[._]', c_.id):
                c_.kind = 'assumed'
        r.update(props=u.props, primary=u.primary, cmd=res['cmd'], verified=an['verified'], errors=an['errors'],
                 failed=an['failed'], panic=an['panic'], termination=an['termination'],
                 clauses={c.id: dict(kind=c.kind, text=c.text, fn=c.fn, props=c.props(u.primary)) for c in u.clauses.values()},
                 items=u.items, fns=u.fns_under_contract, per_function=per_function(res),
                 assumptions=scan_assumptions(gen, uid), transforms=u.transforms, lemmas=u.lemmas,
                 has_replay=u.has_replay, external_auto=u.external_auto, gen_lines=gen.count('\n') + 1)
        notes = list(an['undecided'])
        if not an['canary'] and 'CANARY' in gen:
            notes.append('canary not reported as failing (verifier did not run obligations?)')
        if 'CANARY' not in gen:
            notes.append('template has no canary')
        scaffolding_lost = sorted(set(u.lost_hints) | dropped_compile)
        if os.environ.get('VX_HINT_POLICY', 'strict') == 'strict':
            # a proof step that still anchors and type-checks but no longer VERIFIES was dropped as well: the proof that
            # remains is not the accepted one either (a rewrite of the arm the step talks about does this), so a clause
            # that fails afterwards is not judged on that basis alone
            scaffolding_lost = sorted(set(scaffolding_lost) | set(dropped))
        r['scaffolding_lost'] = scaffolding_lost
        if an['failed'] or an['panic'] or an['termination']:
            r['status'] = 'violation'
        elif notes:
            r['status'] = 'undecided'
        r['notes'] = notes
        # replay search for failed clauses
        if r['status'] == 'violation' and u.has_replay:
            r['replay'] = run_replay(u, gen_path, scratch, list(an['failed'].keys()) + [p['id'] for p in an['panic']], seed)
        if r['status'] == 'violation' and os.environ.get('VX_SCAFFOLD_POLICY', 'undecided') == 'undecided':
            # modular verification: a function that now calls a function the accepted proof did not know (a helper that
            # was extracted, for example - it has no contract in this unit) cannot be judged against its own contract;
            # failing clauses of such a function are not evidence of a violation.  Undecided, never an alarm.
            found_input = any((v or {}).get('found') for v in (r.get('replay') or {}).values() if isinstance(v, dict))
            unknown = {}
            for cid in list(an['failed'].keys()):
                c_ = u.clauses.get(cid)
                nc = new_callees(uid, gen, c_.fn) if c_ is not None and c_.fn else None
                if nc:
                    unknown[cid] = nc
            for p_ in an['panic'] + an['termination']:
                nc = new_callees(uid, gen, p_.get('fn') or '') if p_.get('fn') else None
                if nc:
                    unknown[p_['id']] = nc
            if unknown and not found_input:
                r['failed'] = {k: v for k, v in r['failed'].items() if k not in unknown}
                r['panic'] = [p_ for p_ in r['panic'] if p_['id'] not in unknown]
                r['termination'] = [p_ for p_ in r['termination'] if p_['id'] not in unknown]
                an = dict(an, failed=r['failed'], panic=r['panic'], termination=r['termination'])
                r['downgraded_unknown_callees'] = unknown
                r['not_judged'] = sorted(set(r.get('not_judged', [])) | set(unknown))
                notes = notes + ['modular proof not applicable: %s now call(s) %s, which the recorded proof does not know (no contract in this unit); obligations not judged: %s'
                                 % (', '.join(sorted(set(u.clauses[c].fn for c in unknown if c in u.clauses))) or 'a function under contract',
                                    ', '.join(sorted(set(x for v in unknown.values() for x in v))), ', '.join(sorted(unknown)))]
                r['notes'] = notes
                if not (r['failed'] or r['panic'] or r['termination']):
                    r['status'] = 'undecided'
        if r['status'] == 'violation' and scaffolding_lost and os.environ.get('VX_SCAFFOLD_POLICY', 'undecided') == 'undecided':
            found = any((v or {}).get('found') for v in (r.get('replay') or {}).values() if isinstance(v, dict))
            if not found:
                # (optional, conservative policy; default is to REPORT: a contract clause that was discharged on the unchanged
                # tree and is not any more, with the dropped proof steps listed in the replay file)
                # proof steps whose anchor disappeared or that no longer type-check were removed: the remaining proof is
                # not the one that was accepted on the unchanged tree, so an unprovable clause is NOT evidence of a
                # violation (a renamed local or a reformatted line would do the same).  Undecided, never an alarm.
                r['status'] = 'undecided'
                r['downgraded'] = dict(failed=sorted(an['failed'].keys()), panic=[p['id'] for p in an['panic']])
                r['not_judged'] = sorted(set(r.get('not_judged', [])) | set(an['failed'].keys()) | set(p['id'] for p in an['panic']))
                r['notes'] = notes + ['proof scaffolding no longer fits the code (proof steps lost or no longer type-checking: %s); obligations not discharged without them: %s'
                                      % (', '.join(scaffolding_lost), ', '.join(sorted(an['failed'].keys()) + [p['id'] for p in an['panic']]))]
                r['failed'], r['panic'], r['termination'] = {}, [], []
        return r
    finally:
        r['wall_s'] = round(time.time() - t0, 2)
        shutil.rmtree(scratch, ignore_errors=True)


def run_replay(u, gen_path, scratch, clause_ids, seed, one_input=None):
    """compile the generated file (real extracted code + exec oracles) and search for a failing input"""
    binp = os.path.join(scratch, 'replay_bin')
    cmd = ['verus', gen_path, '--compile', '--no-verify', '-o', binp] + u.verus_args
    rust_args = ['-o', binp]
    if u.needs_deps:
        rust_args += deps_args()
    cmd = ['verus', gen_path, '--compile', '--no-verify'] + u.verus_args + ['--'] + rust_args
    p = subprocess.run(cmd, capture_output=True, text=True, cwd=scratch, timeout=900)
    if not os.path.exists(binp):
        return dict(error='replay binary did not build: ' + p.stderr[-1500:])
    out = {}
    for cid in clause_ids:
        args = [binp, cid, str(seed)]
        if one_input is not None:
            args.append(one_input)
        try:
            q = subprocess.run(args, capture_output=True, text=True, timeout=600)
        except subprocess.TimeoutExpired:
            out[cid] = dict(found=False, note='replay search timed out')
            continue
        found = None
        for l in q.stdout.split('\n'):
            if l.startswith('{'):
                try:
                    found = json.loads(l)
                except Exception:
                    pass
        out[cid] = found or dict(found=False, note='no result line; rc=%s stderr=%s' % (q.returncode, q.stderr[-400:]))
    return out


def run_witnesses(uid, repo, findings, seed=0):
    """known findings: compile the replay binary of the unit (the real extracted code + verified oracle) and run it on
    each listed witness input with clause id `witness`; returns {finding id: result dict}"""
    scratch = tempfile.mkdtemp(prefix='vx-wit-%s-' % uid)
    try:
        u = Unit(uid, repo)
        try:
            gen = u.generate()
        except (LostAnchor, Undecided) as e:
            return {f['id']: dict(error='unit does not generate: %s' % e) for f in findings}
        if not u.has_replay:
            return {f['id']: dict(error='unit has no replay harness') for f in findings}
        gp = os.path.join(scratch, 'gen_%s.rs' % uid)
        open(gp, 'w').write(gen)
        binp = os.path.join(scratch, 'replay_bin')
        rust_args = ['-o', binp]
        if u.needs_deps:
            rust_args += deps_args()
        cmd = ['verus', gp, '--compile', '--no-verify'] + u.verus_args + ['--'] + rust_args
        p = subprocess.run(cmd, capture_output=True, text=True, cwd=scratch, timeout=900)
        if not os.path.exists(binp):
            return {f['id']: dict(error='replay binary did not build: ' + p.stderr[-800:]) for f in findings}
        out = {}
        for f in findings:
            try:
                q = subprocess.run([binp, 'witness', str(seed), f['witness_input']], capture_output=True, text=True, timeout=300)
            except subprocess.TimeoutExpired:
                out[f['id']] = dict(error='witness run timed out')
                continue
            found = None
            for l in q.stdout.split('\n'):
                if l.startswith('{'):
                    try:
                        found = json.loads(l)
                    except Exception:
                        pass
            out[f['id']] = found or dict(error='no result line; rc=%s stderr=%s' % (q.returncode, q.stderr[-300:]))
        return out
    finally:
        shutil.rmtree(scratch, ignore_errors=True)
