#!/usr/bin/env python3
"""run the checks of each seeded change's property against a scratch copy of /repo/crates with the patch applied;
writes /verif/seeded/RESULTS.json (which check catches which change).  usage: vx/seedrun.py [ids...]"""
import os, sys, json, glob, subprocess, tempfile, shutil, re, concurrent.futures
V = os.path.dirname(os.path.dirname(os.path.abspath(__file__)))
claimed = [c['property_id'] for c in json.load(open(V + '/MANIFEST.json'))['checks']]
def one(d):
    sid = os.path.basename(d)
    meta = json.load(open(d + '/meta.json'))
    prop = meta['property']
    t = tempfile.mkdtemp(prefix='vx-seedrun-')
    try:
        subprocess.run(['rsync', '-a', '--exclude', 'target', '/repo/crates', t + '/'], check=True)
        for x_ in ('Cargo.toml', 'Cargo.lock'):
            shutil.copy('/repo/' + x_, t)
        p = subprocess.run(['patch', '-p1', '-s', '--dry-run', '-i', d + '/patch.diff'], cwd=t, capture_output=True, text=True)
        pf = d + '/patch.diff'
        if p.returncode != 0 and os.path.exists(d + '/patch.rebased.diff'):
            pf = d + '/patch.rebased.diff'   # same change re-expressed after a fix: commit touched the same lines
        p = subprocess.run(['patch', '-p1', '-s', '-i', pf], cwd=t, capture_output=True, text=True)
        if p.returncode != 0:
            return sid, dict(property=prop, result='patch-does-not-apply')
        res = {}
        for pr in ([prop] if prop in claimed else []):
            env = dict(os.environ, VX_SCRATCH_EVIDENCE=t + '/ev')
            q = subprocess.run([V + '/check', pr, '--repo', t], capture_output=True, text=True, env=env)
            obl = re.findall(r'failed obligation: (\S+)', q.stdout)
            res[pr] = dict(exit=q.returncode, failed_obligations=obl,
                           undecided=re.findall(r'UNDECIDED .*', q.stdout)[:3])
        caught = any(v['exit'] == 1 for v in res.values())
        return sid, dict(property=prop, function=meta.get('function'), result='caught' if caught else ('not-claimed' if not res else ('undecided' if any(v['exit'] == 2 for v in res.values()) else 'missed')), checks=res)
    finally:
        shutil.rmtree(t, ignore_errors=True)
ids = sys.argv[1:]
dirs = [d for d in sorted(glob.glob(V + '/seeded/C*-*')) if not ids or os.path.basename(d) in ids]
out = {}
if os.path.exists(V + '/seeded/RESULTS.json') and ids:
    out = json.load(open(V + '/seeded/RESULTS.json'))
with concurrent.futures.ThreadPoolExecutor(max_workers=4) as ex:
    for sid, r in ex.map(one, dirs):
        out[sid] = r
        print(sid, r['result'], {k: v['failed_obligations'][:3] for k, v in r.get('checks', {}).items()})
json.dump(out, open(V + '/seeded/RESULTS.json', 'w'), indent=1, sort_keys=True)
