#!/usr/bin/env python3
"""helper for writing self-test mutants: vx/mkmutant.py <unit> <name> <file under /repo> <<< 'python: s = s.replace(...)'
reads python statements on stdin operating on variable `s` (the file text); writes contracts/<unit>/mutants/<name>.patch"""
import sys, os, subprocess, tempfile, shutil
unit, name, rel = sys.argv[1:4]
V = os.path.dirname(os.path.dirname(os.path.abspath(__file__)))
src = open('/repo/' + rel).read()
s = src
code = sys.stdin.read()
exec(code)
if s == src:
    print('mutant %s: NO CHANGE' % name); sys.exit(1)
d = tempfile.mkdtemp()
try:
    for side, txt in (('a', src), ('b', s)):
        p = os.path.join(d, side, rel); os.makedirs(os.path.dirname(p), exist_ok=True); open(p, 'w').write(txt)
    out = subprocess.run(['diff', '-u', 'a/' + rel, 'b/' + rel], cwd=d, capture_output=True, text=True).stdout
    os.makedirs(os.path.join(V, 'contracts', unit, 'mutants'), exist_ok=True)
    open(os.path.join(V, 'contracts', unit, 'mutants', name + '.patch'), 'w').write(out)
    print('mutant %s: %d lines' % (name, out.count('\n')))
finally:
    shutil.rmtree(d)
