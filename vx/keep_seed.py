#!/usr/bin/env python3
"""store a confirmed seeded change under /verif/seeded/<id>/ and remove its scratch worktree: vx/keep_seed.py <id>..."""
import sys, os, json, shutil, subprocess
for sid in sys.argv[1:]:
    out = '/tmp/seed/%s-out' % sid
    conf = json.load(open(out + '/confirm.json'))
    if not conf.get('confirmed'):
        print(sid, 'NOT confirmed, not kept'); continue
    meta = json.load(open(out + '/meta.json'))
    dst = '/verif/seeded/' + sid
    shutil.rmtree(dst, ignore_errors=True)
    os.makedirs(dst)
    shutil.copy(out + '/patch.diff', dst + '/patch.diff')
    shutil.copytree(out + '/demo', dst + '/demo')
    m = dict(id=sid, property=meta.get('property', sid.split('-')[0]), summary=meta.get('summary'), function=meta.get('function'),
             needs_to_manifest=meta.get('needs_to_manifest'),
             origin='written by an independent sub-agent that was given only the property text and a scratch worktree',
             confirmed_by_me=dict(what_i_ran=conf['what_i_ran'], patch_applies=conf['patch_applies'],
                                  existing_suite_with_change=conf['existing_suite_with_change'],
                                  demo_passes_without_change=conf['demo_passes_without_change'],
                                  demo_fails_with_change=conf['demo_fails_with_change']))
    json.dump(m, open(dst + '/meta.json', 'w'), indent=1)
    subprocess.run(['git', '-C', '/repo', 'worktree', 'remove', '--force', '/tmp/seed/' + sid])
    shutil.rmtree(out, ignore_errors=True)
    print(sid, 'kept')
