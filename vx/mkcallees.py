#!/usr/bin/env python3
"""record, for every unit, which functions of the generated file each function calls on the CURRENT tree
(contracts/_callees.json).  Part of the proof scaffolding: run it on the unchanged tree after a template changes."""
import os, sys, json, glob
sys.path.insert(0, os.path.dirname(os.path.abspath(__file__)))
import vx
out = {}
for d in sorted(glob.glob(os.path.join(vx.CONTRACTS, '*', 'unit.rs'))):
    uid = os.path.basename(os.path.dirname(d))
    try:
        u = vx.Unit(uid, vx.REPO)
        gen = u.generate()
    except Exception as e:
        print(uid, 'skipped:', str(e)[:100])
        continue
    out[uid] = vx.callees_of(gen)
json.dump(out, open(vx.CALLEES_FILE, 'w'), indent=0, sort_keys=True)
print(len(out), 'units recorded')
