#!/bin/sh
# usage: vx/runmutants.sh <unit>   -- run every contracts/<unit>/mutants/*.patch against a scratch copy
for m in /verif/contracts/$1/mutants/*.patch; do
  D=$(mktemp -d /tmp/vx-mut-XXXXXX); rsync -a --exclude target /repo/crates $D/
  (cd $D && patch -p1 -s < $m) || echo "PATCH FAILED $m"
  printf "%s: " "$(basename $m)"; VX_REPO=$D python3 /verif/vx/runone.py $1 2>&1 | grep "^status\|^FAILED\|^PANIC" | tr '\n' ' '; echo
  rm -rf $D
done
