#!/usr/bin/env python3
"""debug helper: write the generated file of a unit to a path: vx/gen.py <unit> <out.rs> [repo]"""
import sys, os
sys.path.insert(0, os.path.dirname(os.path.abspath(__file__)))
import vx
u = vx.Unit(sys.argv[1], sys.argv[3] if len(sys.argv) > 3 else '/repo')
open(sys.argv[2], 'w').write(u.generate())
