#!/usr/bin/env python3
"""bounded stand-ins (NOT proofs): small cargo crates under /verif/bounded/<id> that link the real crates of the working
tree by path, enumerate inputs up to a stated bound and compare the real output with an independent oracle.
run_bounded(id, tier, repo) -> dict(status ok|violation|undecided, evaluations, distinct_nontrivial, failures, ...)"""
import os, sys, json, subprocess, hashlib, shutil, time, glob
VERIF = os.path.dirname(os.path.dirname(os.path.abspath(__file__)))
BDIR = os.path.join(VERIF, 'bounded')


def _install(src, dst):
    """copy then rename: a concurrently running copy of dst keeps its inode (no ETXTBSY), readers never see a partial file"""
    tmp = '%s.tmp-%d' % (dst, os.getpid())
    shutil.copy2(src, tmp)
    os.replace(tmp, dst)


def load_registry():
    p = os.path.join(VERIF, 'contracts', 'bounded.json')
    return json.load(open(p)) if os.path.exists(p) else {}


def _inline_stripped(text):
    """`//@inline-stripped <path>`: the text of a crate-root file of the tree under check (a binary crate's main.rs, which
    cannot be linked or loaded as a module) is placed at the crate root of the harness, mechanically, on every run.
    Dropped, and nothing else: inner attributes (`#![..]`), `mod x;` declarations (the harness declares the same modules
    with #[path] onto the same files) and the empty native `fn main() {}` with its cfg attribute."""
    import re
    out = []
    for line in text.split('\n'):
        m = re.match(r'\s*//@inline-stripped\s+(\S+)\s*$', line)
        if not m:
            out.append(line)
            continue
        path = m.group(1)
        if not os.path.exists(path):
            out.append('compile_error!("vx: %s does not exist in the tree under check");' % path)
            continue
        src_lines = open(path).read().split('\n')
        kept, dropped, i = [], [], 0
        while i < len(src_lines):
            l = src_lines[i]
            if re.match(r'\s*#!\[', l) or re.match(r'\s*mod \w+;\s*$', l):
                dropped.append(l)
            elif re.match(r'\s*#\[cfg\(not\(target_family = "wasm"\)\)\]\s*$', l) and i + 1 < len(src_lines) and re.match(r'\s*fn main\(\) \{\}\s*$', src_lines[i + 1]):
                dropped += [l, src_lines[i + 1]]
                i += 1
            else:
                kept.append(l)
            i += 1
        out.append('// ---- inlined from %s; dropped lines: %s' % (path, json.dumps(dropped)))
        out += kept
        out.append('// ---- end of inlined text')
    return '\n'.join(out)


def run_bounded(bid, tier='quick', repo='/repo', extra_args=None):
    t0 = time.time()
    reg = load_registry().get(bid) or {}
    crate = reg.get('crate', 'harness')
    src = os.path.join(BDIR, crate)
    repo = os.path.realpath(repo)
    tag = hashlib.sha256(repo.encode()).hexdigest()[:8]
    work = os.path.join(BDIR, 'work', '%s-%s-%s' % (crate, tag, ('%d-%s' % (os.getpid(), bid)) if repo != '/repo' else 0))   # scratch trees: one work dir per check (removed afterwards)
    def prepare_work():
        os.makedirs(work, exist_ok=True)
        toml = open(os.path.join(src, 'Cargo.toml.tmpl')).read().replace('@REPO@', repo)
        tp = os.path.join(work, 'Cargo.toml')
        if not os.path.exists(tp) or open(tp).read() != toml:
            open(tp, 'w').write(toml)
        link = os.path.join(work, 'src')
        if os.path.islink(link) or os.path.exists(link):
            if os.path.islink(link):
                os.unlink(link)
            else:
                shutil.rmtree(link)
        if reg.get('templated_src'):
            # sources that name files of the tree under check (#[path = "@REPO@/.."]): copied with the path substituted
            os.makedirs(link)
            for fn in os.listdir(os.path.join(src, 'src')):
                t_ = open(os.path.join(src, 'src', fn)).read().replace('@REPO@', repo)
                t_ = _inline_stripped(t_)
                open(os.path.join(link, fn), 'w').write(t_)
        else:
            os.symlink(os.path.join(src, 'src'), link)
        # versions of third-party crates: the repository's own lock file (everything is in the offline registry cache)
        lock = os.path.join(repo, 'Cargo.lock')
        if os.path.exists(lock) and not os.path.exists(os.path.join(work, 'Cargo.lock')):
            shutil.copy(lock, os.path.join(work, 'Cargo.lock'))
        if not os.path.exists(os.path.join(work, 'Cargo.lock')) and os.path.exists('/repo/Cargo.lock'):
            shutil.copy('/repo/Cargo.lock', os.path.join(work, 'Cargo.lock'))
    # one shared target directory (third-party crates are built once); the repository's crates are path dependencies, so
    # a different tree is a different set of packages and is rebuilt.  Build under a lock, then run a private copy of the
    # binary; artifacts created for a scratch tree are removed again.
    import fcntl
    tdir = os.path.join(BDIR, 'target')
    os.makedirs(tdir, exist_ok=True)
    env = dict(os.environ, CARGO_NET_OFFLINE='true', CARGO_TARGET_DIR=tdir)
    res = dict(id=bid, tier=tier, repo=repo, kind='bounded')
    scratch_tree = repo != '/repo'
    binname = reg.get('bin', bid)   # several checks may share one harness binary (args_prefix selects the family)
    binp = os.path.join(work, 'bin-' + bid)

    def listing():
        out = set()
        for sub in ('release/deps', 'release/.fingerprint', 'release/incremental', 'release/build'):
            d = os.path.join(tdir, sub)
            if os.path.isdir(d):
                out |= set(os.path.join(d, x) for x in os.listdir(d))
        return out
    needs_cli = bool((load_registry().get(bid) or {}).get('needs_cli'))
    clip = os.path.join(work, 'nitrogql-cli')
    with open(os.path.join(tdir, '.vx-lock'), 'w') as lk:
        fcntl.flock(lk, fcntl.LOCK_EX)
        prepare_work()
        before = listing() if scratch_tree else set()
        if needs_cli:
            # the real CLI binary of the tree under check, built from that tree's own workspace manifest.  Cargo names the
            # artifacts of workspace members by their workspace-RELATIVE path, so two copies of the repository collide in
            # one target directory (measured: a scratch copy's binary was reused for /repo): every tree gets its own
            # target directory here, and a scratch tree's is removed afterwards.
            if not os.path.exists(os.path.join(repo, 'Cargo.toml')):
                res.update(status='undecided', note='bounded check %s needs the workspace manifest %s/Cargo.toml to build nitrogql-cli' % (bid, repo), wall_s=round(time.time() - t0, 2))
                return res
            ctdir = os.path.join(BDIR, 'target-cli', 'repo' if not scratch_tree else '%s-%d' % (tag, os.getpid()))
            # leftovers of scratch-tree runs that were killed before they could clean up
            for d in glob.glob(os.path.join(BDIR, 'target-cli', '*-*')):
                pid = d.rsplit('-', 1)[1]
                if pid.isdigit() and not os.path.exists('/proc/' + pid):
                    shutil.rmtree(d, ignore_errors=True)
            cenv = dict(env, CARGO_TARGET_DIR=ctdir)
            pc = subprocess.run(['cargo', 'build', '--offline', '--release', '-q', '-p', 'nitrogql-cli'], cwd=repo, env=cenv, capture_output=True, text=True, timeout=3000)
            cbuilt = os.path.join(ctdir, 'release', 'nitrogql-cli')
            ok_cli = pc.returncode == 0 and os.path.exists(cbuilt)
            if ok_cli:
                _install(cbuilt, clip)
            if scratch_tree:
                shutil.rmtree(ctdir, ignore_errors=True)
            if not ok_cli:
                res.update(status='undecided', note='nitrogql-cli did not build from this tree: ' + pc.stderr[-1500:], wall_s=round(time.time() - t0, 2))
                return res
        p = subprocess.run(['cargo', 'build', '--offline', '--release', '-q', '--bin', binname], cwd=work, env=env, capture_output=True, text=True, timeout=3000)
        built = os.path.join(tdir, 'release', binname)
        if p.returncode == 0 and os.path.exists(built):
            _install(built, binp)
        if scratch_tree:
            for x in listing() - before:
                if os.path.isdir(x):
                    shutil.rmtree(x, ignore_errors=True)
                else:
                    try:
                        os.unlink(x)
                    except OSError:
                        pass
            # the top-level binary now belongs to the scratch tree: force a relink for the next tree
            for x in (built, built + '.d'):
                if os.path.exists(x):
                    os.unlink(x)
    if p.returncode != 0:
        res.update(status='undecided', note='bounded harness did not build against this tree: ' + p.stderr[-1500:], wall_s=round(time.time() - t0, 2))
        if scratch_tree:
            shutil.rmtree(work, ignore_errors=True)
        return res
    try:
        q = subprocess.run([binp] + list(reg.get('args_prefix', [])) + [tier] + (extra_args or []), capture_output=True, text=True, timeout=3000, env=dict(os.environ, VX_CLI=clip))
    except subprocess.TimeoutExpired:
        res.update(status='undecided', note='bounded harness timed out', wall_s=round(time.time() - t0, 2))
        return res
    out = None
    for l in q.stdout.split('\n'):
        if l.startswith('{'):
            try:
                out = json.loads(l)
            except Exception:
                pass
    if out is None:
        res.update(status='undecided', note='bounded harness produced no result (rc=%s): %s' % (q.returncode, q.stderr[-800:]), wall_s=round(time.time() - t0, 2))
        return res
    res.update(out)
    # a failure of the harness itself (its generator produced an input the real code rejects, its reader does not
    # understand the output's shape) is not a statement about the property: such signatures make the check UNDECIDED
    hp = {k: v for k, v in (res.get('signatures') or {}).items() if k.startswith(('harness:', 'generator:'))}
    if hp:
        res['signatures'] = {k: v for k, v in res['signatures'].items() if k not in hp}
        res['failures'] = [f for f in res.get('failures', []) if f.get('signature') not in hp]
        res['failure_count'] = sum(res['signatures'].values())
        res['harness_problems'] = hp
    if reg.get('miri') and not extra_args:
        # the same program interpreted by Miri on a fixed list of inputs: undefined behaviour (invalid free, use after
        # free, wrong layout ..) aborts the interpreter with a report
        menv = dict(os.environ, CARGO_NET_OFFLINE='true', CARGO_TARGET_DIR=os.path.join(BDIR, 'target-miri', 'repo' if not scratch_tree else '%s-%d' % (tag, os.getpid())),
                    MIRIFLAGS='-Zmiri-disable-isolation')
        try:
            with open(os.path.join(tdir, '.vx-lock-miri'), 'w') as lk2:
                fcntl.flock(lk2, fcntl.LOCK_EX)
                prepare_work()
                mq = subprocess.run(['cargo', '+nightly', 'miri', 'run', '--offline', '-q', '--', 'miri'], cwd=work, env=menv, capture_output=True, text=True, timeout=3000)
        except subprocess.TimeoutExpired:
            mq = None
        if scratch_tree:
            shutil.rmtree(menv['CARGO_TARGET_DIR'], ignore_errors=True)
        if mq is None:
            res['miri'] = dict(status='undecided', note='miri run timed out')
        else:
            txt = (mq.stdout or '') + '\n' + (mq.stderr or '')
            ub = [l.strip() for l in txt.split('\n') if 'Undefined Behavior' in l or l.startswith('error: memory leaked') or 'MISMATCH' in l]
            if ub:
                sig = 'miri: ' + ub[0][:160]
                res.setdefault('signatures', {})[sig] = len(ub)
                res.setdefault('failures', []).append(dict(signature=sig, family='miri', index=-1, graphql='fixed list of call histories (see bounded/loaderseq/src/main.rs, mode miri)',
                                                           definition='(history)', why=ub[0][:400], got=txt[-1800:]))
                res['failure_count'] = res.get('failure_count', 0) + len(ub)
                res['miri'] = dict(status='violation', report=ub[:5])
            elif 'miri histories done' in txt and mq.returncode == 0:
                res['miri'] = dict(status='ok', histories='8 fixed histories x 2 buffer shapes, interpreted without undefined behaviour')
            else:
                res['miri'] = dict(status='undecided', note=txt[-800:])
    res['status'] = 'violation' if res.get('failure_count') else ('undecided' if ((res.get('miri') or {}).get('status') == 'undecided' or res.get('harness_problems')) else 'ok')
    if res['status'] == 'undecided':
        res['note'] = ('harness problem(s): %s' % json.dumps(res['harness_problems'])[:600]) if res.get('harness_problems') else ('miri step undecided: ' + str((res.get('miri') or {}).get('note'))[:600])
    res['wall_s'] = round(time.time() - t0, 2)
    if scratch_tree:
        shutil.rmtree(work, ignore_errors=True)
    return res


if __name__ == '__main__':
    r = run_bounded(sys.argv[1], sys.argv[2] if len(sys.argv) > 2 else 'quick', os.environ.get('VX_REPO', '/repo'), sys.argv[3:])
    fs = r.pop('failures', [])
    print(json.dumps(r, indent=1)[:3000])
    for f in fs[:6]:
        print(json.dumps(f, indent=1)[:1500])
