#!/usr/bin/env python3
"""./check <Cxx> [--quick|--thorough] [--replay FILE] [--units a,b] [--repo PATH]

exit 0: every obligation attributed to the property was discharged on this run (known findings are
        printed as KNOWN-FINDING lines); exit 1 + `VIOLATION property=<id> replay=<path>`: an obligation
        failed; exit 2: undecided (lost anchor, contract no longer type-checks, rlimit, canary)."""
import sys, os, json, time, hashlib, glob, re, concurrent.futures, subprocess
HERE = os.path.dirname(os.path.abspath(__file__))
sys.path.insert(0, HERE)
import vx
import bounded as vb

VERIF = vx.VERIF


def discover_units():
    res = {}
    for t in sorted(glob.glob(os.path.join(vx.CONTRACTS, '*', 'unit.rs'))):
        uid = os.path.basename(os.path.dirname(t))
        props, disabled = [], False
        for l in open(t):
            m = re.match(r'\s*//@\s*unit\s+(\S+)\s+(.*)$', l)
            if m:
                for kv in m.group(2).split():
                    if kv.startswith('props='):
                        props = kv[6:].split(',')
                    if kv == 'disabled':
                        disabled = True
                break
        if not disabled:
            res[uid] = props
    return res


def load_json(name, default):
    p = os.path.join(VERIF, name)
    if os.path.exists(p):
        return json.load(open(p))
    return default


def main():
    args = sys.argv[1:]
    if not args:
        print(__doc__)
        sys.exit(2)
    prop = args[0]
    tier = os.environ.get('VERIF_TIER', 'quick')
    replay_file = None
    only_units = None
    repo = vx.REPO
    i = 1
    while i < len(args):
        a = args[i]
        if a == '--quick':
            tier = 'quick'
        elif a == '--thorough':
            tier = 'thorough'
        elif a == '--replay':
            replay_file = args[i + 1]
            i += 1
        elif a == '--units':
            only_units = args[i + 1].split(',')
            i += 1
        elif a == '--repo':
            repo = args[i + 1]
            i += 1
        i += 1
    if tier not in ('quick', 'thorough'):
        tier = 'quick'
    seed = int(os.environ.get('VERIF_SEED', '0') or 0)
    if replay_file:
        sys.exit(do_replay(prop, replay_file, repo, seed))
    t0 = time.time()
    units = discover_units()
    mine = [u for u, ps in units.items() if prop in ps]
    if only_units:
        mine = [u for u in mine if u in only_units]
    breg = vb.load_registry()
    my_bounded = [b for b, d in breg.items() if prop in d.get('props', [])] if not only_units else []
    if not mine and not my_bounded:
        print('UNDECIDED property=%s reason=no-unit-serves-this-property' % prop)
        sys.exit(2)
    findings = load_json('known_findings.json', dict(findings=[]))['findings']
    # a finding with `suppress_clause` silences its whole clause (not used: it would hide other violations of the clause);
    # a finding with `witness_input` is a REGION finding: the contract clause excludes a syntactically described region,
    # stays an obligation everywhere else, and the witness is re-run against the real code on every run.
    open_findings = {f['clause_id']: f for f in findings if f.get('status') == 'open' and f['property'] == prop and f.get('suppress_clause')}
    wit_findings = [f for f in findings if f.get('status') == 'open' and f['property'] == prop and f.get('witness_input') is not None and f.get('unit') in mine]
    results = []
    wit_results = {}
    bounded_results = []
    with concurrent.futures.ThreadPoolExecutor(max_workers=min(12, len(mine) + 2 + len(my_bounded))) as ex:
        bfuts = {ex.submit(vb.run_bounded, b, tier, repo): b for b in my_bounded}
        futs = {ex.submit(vx.run_unit, u, tier, repo, None, seed): u for u in mine}
        wfuts = {}
        for u in sorted(set(f['unit'] for f in wit_findings)):
            wfuts[ex.submit(vx.run_witnesses, u, repo, [f for f in wit_findings if f['unit'] == u], seed)] = u
        for f in concurrent.futures.as_completed(futs):
            results.append(f.result())
        for f in concurrent.futures.as_completed(wfuts):
            wit_results.update(f.result())
        for f in concurrent.futures.as_completed(bfuts):
            bounded_results.append(f.result())
    results.sort(key=lambda r: r['unit'])
    bounded_results.sort(key=lambda r: r['id'])

    # thorough: stability re-runs and self-test
    extra = {}
    if tier == 'thorough':
        extra = thorough_extras(prop, mine, repo, seed, results)

    # ---- aggregate
    obligations, discharged = 0, 0
    samples, viol, undecided, known_lines, notes = [], [], [], [], []
    per_fn, fns, items, assumptions, transforms, unit_summ, ext_auto = [], [], [], [], [], [], []
    assumed_contracts = []
    for r in results:
        unit_ok = r['status'] != 'undecided' or bool(r['failed'] or r['panic'])
        unit_summ.append(dict(unit=r['unit'], status=r['status'], verified=r.get('verified'), errors=r.get('errors'), passes=r.get('passes'), dropped_hints=r.get('dropped_hints'), lost_hints=r.get('lost_hints'),
                              wall_s=r['wall_s'], gen_lines=r.get('gen_lines'), notes=[n[:300] for n in r['notes']]))
        if r.get('not_judged') and r['status'] != 'undecided':
            # some obligations of this unit were not judged (unknown callee / lost proof steps) while others failed or
            # held: the ones not judged are neither discharged nor violated
            undecided.append((r['unit'], [n for n in r['notes'] if 'not judged' in n or 'not discharged' in n] or r['notes']))
        if r['status'] == 'undecided' and not (r['failed'] or r['panic'] or r['termination']):
            undecided.append((r['unit'], r['notes']))
        elif r['notes']:
            notes.append((r['unit'], r['notes']))
        failed_fns = set()
        for cid, c in r['clauses'].items():
            if c['kind'] == 'assumed':
                assumed_contracts.append(dict(unit=r['unit'], id=cid, fn=c['fn'], text=c['text']))
                continue
            if prop not in c['props']:
                continue
            obligations += 1
            ok = cid not in r['failed'] and r['status'] != 'undecided' and cid not in (r.get('not_judged') or [])
            if cid in r['failed']:
                failed_fns.add(c['fn'])
                if cid in open_findings:
                    known_lines.append('KNOWN-FINDING: property=%s %s %s' % (prop, cid, open_findings[cid].get('what', '')))
                else:
                    viol.append(dict(unit=r['unit'], clause=cid, text=c['text'], kind=c['kind'], fn=c['fn'],
                                     verus_output=r['failed'][cid], replay=(r.get('replay') or {}).get(cid),
                                     dropped_hints=r.get('dropped_hints'), lost_hints=r.get('lost_hints')))
            if ok:
                discharged += 1
            if len(samples) < 400:
                samples.append(dict(id=cid, unit=r['unit'], fn=c['fn'], kind=c['kind'], text=c['text'], discharged=ok))
        # body obligations: one per function under contract (panic freedom + callee preconditions + termination)
        panic_fns = {}
        for p in r['panic'] + r['termination']:
            panic_fns.setdefault(p['fn'], []).append(p)
        for f in r['fns']:
            fprops = set(p_ for c in f['clauses'] if c in r['clauses'] for p_ in r['clauses'][c]['props'])
            fprops.add('C08')
            if prop not in fprops:
                continue
            obligations += 1
            bid = 'C08.%s.%s.body' % (r['unit'], f['function'])
            bad = panic_fns.get(f['function'])
            ok = not bad and r['status'] != 'undecided'
            if ok:
                discharged += 1
            if len(samples) < 400:
                samples.append(dict(id=bid, unit=r['unit'], fn=f['function'], kind='body',
                                    text='no panic / overflow / out-of-range index, callee preconditions hold, terminates',
                                    discharged=ok))
            if bad and prop == 'C08':
                for p in bad:
                    pid = p.get('id', bid)
                    if pid in open_findings:
                        known_lines.append('KNOWN-FINDING: property=%s %s %s' % (prop, pid, open_findings[pid].get('what', '')))
                    else:
                        viol.append(dict(unit=r['unit'], clause=pid, text=p.get('src', ''), kind='panic-class',
                                         fn=p['fn'], verus_output=[p['rendered']], replay=(r.get('replay') or {}).get(pid)))
        per_fn += [dict(unit=r['unit'], **f) for f in r['per_function'] if f.get('mode') != 'spec']
        fns += r['fns']
        items += r['items']
        assumptions += r['assumptions']
        transforms += r['transforms']
        ext_auto += r.get('external_auto', [])

    # ---- bounded stand-ins (never counted in obligations / discharged)
    bounded_ev = []
    bounded_known = {f['bounded_signature']: f for f in findings if f.get('status') == 'open' and f['property'] == prop and f.get('bounded_signature')}
    bounded_kf_groups = {}
    bounded_unlisted = set()
    for br in bounded_results:
        d = breg.get(br['id'], {})
        if br['status'] == 'undecided':
            undecided.append(('bounded:' + br['id'], [br.get('note', '')]))
        sigs = br.get('signatures') or {}
        for sig, cnt in sorted(sigs.items()):
            ex_ = [f for f in br.get('failures', []) if f.get('signature') == sig]
            kf = bounded_known.get(sig) or next((f for f in findings if f.get('status') == 'open' and f['property'] == prop and sig in (f.get('bounded_signatures') or [])), None) or next((f for f in findings if f.get('status') == 'open' and f['property'] == prop and ((f.get('bounded_signature_prefix') and sig.startswith(f['bounded_signature_prefix'])) or (f.get('bounded_signature_contains') and f['bounded_signature_contains'] in sig))), None)
            if kf:
                g = bounded_kf_groups.setdefault((kf['id'], br['id']), dict(kf=kf, n=0, sigs=[], ex=None))
                g['n'] += cnt
                g['sigs'].append(sig)
                g['ex'] = g['ex'] or (ex_[0]['graphql'] if ex_ else '')
                continue
            bounded_unlisted.add(br['id'])
            viol.append(dict(unit='bounded:' + br['id'], clause='%s.bounded.%s:%s' % (prop, br['id'], sig), text=d.get('oracle', ''), kind='bounded-check',
                             fn=', '.join(d.get('functions', [])), verus_output=['bounded check %s: %d failing inputs with signature: %s' % (br['id'], cnt, sig)] + [json.dumps(e, indent=1) for e in ex_[:2]],
                             replay=dict(found=True, input=(ex_[0] if ex_ else {}).get('graphql'), observed=(ex_[0] if ex_ else {}).get('got'), expected=(ex_[0] if ex_ else {}).get('why'),
                                         bounded=br['id'], index=(ex_[0] if ex_ else {}).get('index'))))
        bounded_ev.append(dict(id=br['id'], label='BOUNDED (stand-in for functions outside the verifier\'s reach; not a proof, not counted in obligations)',
                               functions=d.get('functions'), why_not_deductive=d.get('why_not_deductive'), oracle=d.get('oracle'),
                               bound=(d.get('bound') or {}).get(tier), status=br['status'], evaluations=br.get('evaluations'),
                               distinct_nontrivial=br.get('distinct_nontrivial'), per_family=br.get('per_family'),
                               rule=d.get('rule'), samples=br.get('samples'), failure_signatures=sigs, wall_s=br.get('wall_s'), note=br.get('note'), miri=br.get('miri')))

    for (kid, bid_), g in sorted(bounded_kf_groups.items()):
        known_lines.append('KNOWN-FINDING: property=%s %s %s (bounded check %s: %d failing inputs in %d signature(s), e.g. %s)' % (
            prop, kid, g['kf'].get('what', '')[:300], bid_, g['n'], len(g['sigs']), json.dumps((g['ex'] or '')[:160])))

    # ---- output
    wit_notes = []
    for f in findings:
        if f.get('status') == 'open' and f['property'] == prop and f.get('static') and f.get('unit') in mine:
            known_lines.append('KNOWN-FINDING: property=%s %s %s (region excluded from clause %s; witness: %s)' % (
                prop, f['id'], f.get('what', ''), f['clause_id'], f.get('witness_fixture', '')))
    for f in wit_findings:
        wr = wit_results.get(f['id'], {})
        if wr.get('found'):
            known_lines.append('KNOWN-FINDING: property=%s %s %s input=%s observed=%s' % (
                prop, f['id'], f.get('what', ''), json.dumps(f['witness_input']), json.dumps(wr.get('observed'))))
        elif 'error' in wr:
            known_lines.append('KNOWN-FINDING: property=%s %s %s (witness not re-run: %s)' % (prop, f['id'], f.get('what', ''), wr['error'][:200]))
        else:
            wit_notes.append('known finding %s no longer reproduces on this tree (input %s); its region is still excluded from clause %s'
                             % (f['id'], json.dumps(f['witness_input']), f['clause_id']))
            print('NOTE property=%s %s' % (prop, wit_notes[-1]))
    for l in known_lines:
        print(l)
    rc = 0
    nviol = 0
    if viol:
        rpdir = os.path.join(VERIF, 'replays') if os.path.realpath(repo) == '/repo' else '/tmp/vx-scratch-replays'
        os.makedirs(rpdir, exist_ok=True)
        for v in viol:
            h = hashlib.sha256((v['clause'] + ''.join(v['verus_output'])).encode()).hexdigest()[:10]
            path = os.path.join(rpdir, '%s-%s-%s.json' % (prop, re.sub(r'[^\w.@-]', '_', v['clause']), h))
            rp = v.get('replay') or {}
            doc = dict(property=prop, unit=v['unit'], failed_obligation=v['clause'], obligation_text=v['text'],
                       kind=v['kind'], function=v['fn'], verus_output=v['verus_output'], tier=tier, seed=seed,
                       proof_hints_dropped=v.get('dropped_hints') or [], proof_hints_anchor_lost=v.get('lost_hints') or [],
                       note=('proof hints that no longer held / fit were removed and the unit re-verified without them before this obligation was reported'
                             if (v.get('dropped_hints') or v.get('lost_hints')) else ''),
                       how_to_rerun='cd /verif && ./check %s --replay %s' % (prop, path))
            if rp.get('found'):
                doc.update(input=rp.get('input'), observed=rp.get('observed'), expected=rp.get('expected'))
                if rp.get('bounded'):
                    doc.update(bounded=rp['bounded'], index=rp.get('index'))
                tail = ''
            else:
                doc.update(input=None, search=rp or 'unit has no replay harness')
                tail = ' no-failing-input-found'
            json.dump(doc, open(path, 'w'), indent=1)
            print('VIOLATION property=%s replay=%s obligation=%s%s' % (prop, path, v['clause'], tail)
                  if False else 'VIOLATION property=%s replay=%s%s' % (prop, path, tail))
            print('  failed obligation: %s  [%s in %s]' % (v['clause'], v['kind'], v['fn']))
            first = (v['verus_output'][0] if v['verus_output'] else '').strip().split('\n')
            for l in first[:8]:
                print('  | ' + l)
            nviol += 1
        rc = 1
    elif undecided:
        for u, ns in undecided:
            for n in ns:
                print('UNDECIDED property=%s unit=%s reason=%s' % (prop, u, n.replace('\n', ' ')[:500]))
        rc = 2
    wall = time.time() - t0
    not_cov = load_json('contracts/not_covered.json', {}).get(prop, [])
    trusted = load_json('contracts/trusted_base.json', {}).get('common', [])
    ev = dict(property_id=prop, tier=tier, seed=seed, level='proof',
              coverage=dict(obligations=obligations, discharged=discharged,
                            checker_cmd='verus <generated single file per unit> --output-json --time --multiple-errors 50 --rlimit N -- --error-format=json  (units: %s)' % ','.join(mine),
                            trusted_base=trusted,
                            units=unit_summ,
                            functions_under_contract=[dict(unit=f['unit'], function=f['function'], file=f['file'], item=f['item'],
                                                           clauses=len(f['clauses'])) for f in fns],
                            extracted_items=[dict(unit=i_['unit'], file=i_['file'], item=i_['item'], sha256=i_.get('sha256'),
                                                  lines=i_.get('lines'), transformations=i_.get('transformations'))
                                             for i_ in items],
                            per_function=per_fn[:600],
                            solver_time_ms=sum((f.get('smt_ms') or 0) for f in per_fn),
                            samples=samples,
                            bounded=bounded_ev,
                            auto_external_body=ext_auto,
                            assumed_contracts=assumed_contracts,
                            not_covered=not_cov,
                            known_findings=known_lines, known_finding_notes=wit_notes,
                            undecided=[dict(unit=u, notes=[n[:400] for n in ns]) for u, ns in undecided],
                            explanation='obligations = contract clauses (requires/ensures/invariant/decreases/hint asserts/lemmas) attributed to %s '
                                        'plus one body obligation per real function under contract; discharged = those Verus proved on this run. '
                                        'The verified text is extracted mechanically from %s on every run.' % (prop, repo),
                            **extra),
              assumptions=sorted(set(assumptions)) + (['bounded checks (%s): trust the oracle code under /verif/bounded (independent readers, reference models), cargo / rustc of the repository toolchain, serde_json%s; they explore only the stated finite family' % (', '.join(b['id'] for b in bounded_results), ', Miri (nightly) for the interpreted histories' if any(b.get('miri') for b in bounded_results) else '')] if bounded_results else []) + ['assumed contract (callee body not verified in this unit) %s: %s :: %s' % (a['unit'], a['fn'], a['id']) for a in assumed_contracts] + ['A-CALLERS: preconditions are proved only at call sites that are themselves under contract',
                                                      'Verus 0.2026.09.13 / Z3 / rustc 1.98.1 are trusted'],
              wall_s=round(wall, 2), violations=nviol)
    evdir = os.path.join(VERIF, 'evidence') if os.path.realpath(repo) == '/repo' else os.environ.get('VX_SCRATCH_EVIDENCE', '/tmp/vx-scratch-evidence')
    os.makedirs(evdir, exist_ok=True)
    json.dump(ev, open(os.path.join(evdir, prop + '.json'), 'w'), indent=1)
    print('%s property=%s tier=%s units=%d obligations=%d discharged=%d%s wall=%.1fs' % (
        {0: 'OK', 1: 'FAIL', 2: 'UNDECIDED'}[rc], prop, tier, len(mine), obligations, discharged,
        ''.join(' bounded:%s=%s(%s cases)' % (b['id'], ('known-findings-only' if b['status'] == 'violation' and b['id'] not in bounded_unlisted else b['status']), b.get('evaluations')) for b in bounded_results), wall))
    sys.exit(rc)


def thorough_extras(prop, mine, repo, seed, results):
    """self-test on scratch copies with the unit's own mutants + proactive replay search"""
    import tempfile, shutil
    st = []
    jobs = []
    for u in mine:
        for mp in sorted(glob.glob(os.path.join(vx.CONTRACTS, u, 'mutants', '*.patch'))):
            jobs.append((u, mp))

    def one(job):
        u, mp = job
        d = tempfile.mkdtemp(prefix='vx-selftest-')
        try:
            # copy only the crates directory sources (small)
            subprocess.run(['rsync', '-a', '--exclude', 'target', '--exclude', '.git', '--exclude', 'node_modules',
                            os.path.join(repo, 'crates'), d + '/'], check=True)
            for extra_ in ('Cargo.toml', 'Cargo.lock'):
                if os.path.exists(os.path.join(repo, extra_)):
                    shutil.copy(os.path.join(repo, extra_), d)
            p = subprocess.run(['patch', '-p1', '-s', '-i', mp], cwd=d, capture_output=True, text=True)
            if p.returncode != 0:
                return dict(unit=u, mutant=os.path.basename(mp), result='patch-does-not-apply')
            r = vx.run_unit(u, 'quick', d, None, seed)
            caught = sorted(list(r['failed'].keys()) + [x['id'] for x in r['panic']])
            harmless = os.path.basename(mp).startswith('harmless_')
            # harmless_*.patch: an edit that does NOT break the property; expected: no violation (ok or undecided)
            res = ('caught' if r['status'] == 'violation' else r['status'])
            if harmless:
                res = 'FALSE-ALARM' if r['status'] == 'violation' else 'no-alarm (%s)' % r['status']
            return dict(unit=u, mutant=os.path.basename(mp), expected=('no alarm' if harmless else 'caught'), result=res,
                        failed_obligations=caught)
        finally:
            shutil.rmtree(d, ignore_errors=True)
    with concurrent.futures.ThreadPoolExecutor(max_workers=8) as ex:
        st = list(ex.map(one, jobs))
    return dict(selftest=st)


def do_replay(prop, path, repo, seed):
    doc = json.load(open(path))
    if doc.get('bounded'):
        os.environ['VERIF_SEED'] = str(doc.get('seed', 0))   # the enumeration of some checks is offset by the seed
        r = vb.run_bounded(doc['bounded'], doc.get('tier', 'quick'), repo, ['--one', str(doc.get('index'))])
        print('replay of bounded check %s input #%s against the current tree: %s' % (doc['bounded'], doc.get('index'), json.dumps(dict(status=r['status'], signatures=r.get('signatures')))))
        for f in r.get('failures', [])[:2]:
            print(json.dumps(f, indent=1)[:3000])
        if r['status'] == 'violation':
            print('VIOLATION property=%s replay=%s' % (prop, path))
            return 1
        return 0 if r['status'] == 'ok' else 2
    u = vx.Unit(doc['unit'], repo)
    import tempfile, shutil
    scratch = tempfile.mkdtemp(prefix='vx-replay-')
    try:
        gen = u.generate()
        gp = os.path.join(scratch, 'gen_%s.rs' % u.id)
        open(gp, 'w').write(gen)
        if doc.get('input') is not None and u.has_replay:
            r = vx.run_replay(u, gp, scratch, [doc['failed_obligation']], seed, one_input=str(doc['input']))
            res = r.get(doc['failed_obligation'], r)
            print('replay of %s on input %s against the current tree: %s' % (doc['failed_obligation'], doc['input'], json.dumps(res)))
            if res.get('found'):
                print('VIOLATION property=%s replay=%s' % (prop, path))
                return 1
            return 0
        # no concrete input: re-run the obligation
        r = vx.run_unit(doc['unit'], 'quick', repo, None, seed)
        cid = doc['failed_obligation']
        bad = cid in r['failed'] or any(p['id'] == cid for p in r['panic'])
        print('re-verification of obligation %s on the current tree: %s' % (cid, 'FAILS' if bad else r['status']))
        if bad:
            print('VIOLATION property=%s replay=%s no-failing-input-found' % (prop, path))
            return 1
        return 0 if r['status'] == 'ok' else 2
    finally:
        shutil.rmtree(scratch, ignore_errors=True)


if __name__ == '__main__':
    main()
