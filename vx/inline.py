"""Item-level mechanical transformations (T2, T3, T5, T6) and crate inlining for vx."""
import re, os, hashlib
from rustlex import mask, match_close, body_open, line_of


def pub_fields(text):
    """T3: make struct fields and items `pub` (single-file crate: no change of meaning)."""
    masked = mask(text)
    c = 0
    out = []
    last = 0
    # struct bodies: add pub to `name: Type` lines at depth 1 of a struct
    for m in re.finditer(r'(?m)^[ \t]*(?:pub(?:\([^)]*\))?\s+)?struct\s+\w+', masked):
        try:
            k, ch = body_open(masked, m.end())
        except ValueError:
            continue
        if ch != '{':
            continue
        e = match_close(masked, k)
        seg_start = k + 1
        depth = 0
        pos = seg_start
        line_start = True
        # iterate over lines inside the struct body at depth 0
        i = seg_start
        while i < e:
            nl = masked.find('\n', i, e)
            if nl < 0:
                nl = e
            line = masked[i:nl]
            if depth == 0:
                fm = re.match(r'([ \t]*)(pub(?:\([^)]*\))?\s+)?((?:r#)?\w+)\s*:', line)
                if fm and not line.strip().startswith('#'):
                    if fm.group(2) is None:
                        ins = i + len(fm.group(1))
                        out.append(text[last:ins] + 'pub ')
                        last = ins
                        c += 1
                    elif fm.group(2).startswith('pub('):
                        a = i + len(fm.group(1))
                        out.append(text[last:a] + 'pub ')
                        last = a + len(fm.group(2))
                        c += 1
            for ch2 in line:
                if ch2 in '([{<':
                    depth += 1
                elif ch2 in ')]}>':
                    depth -= 1
            depth = max(depth, 0)
            i = nl + 1
    out.append(text[last:])
    text = ''.join(out)
    # pub(crate) / private items -> pub
    text, n1 = re.subn(r'(?m)^([ \t]*)pub\((?:crate|super)\)\s+', r'\1pub ', text)
    return text, c + n1


def derive_remove(text, names):
    removed = []

    def fix(m):
        items = [x.strip() for x in m.group(2).split(',') if x.strip()]
        keep = []
        for x in items:
            if x in names or x.split('::')[-1] in names:
                removed.append(x)
            else:
                keep.append(x)
        if not keep:
            return ''
        return '%s#[derive(%s)]\n' % (m.group(1), ', '.join(keep))
    text = re.sub(r'(?m)^([ \t]*)#\[derive\(([^\]]*)\)\]\n', fix, text)
    return text, removed


def strip_attrs(text, names):
    c = 0
    for nme in names:
        rx = re.compile(r'(?ms)^[ \t]*#\[%s\b(?:\((?:[^()]|\((?:[^()]|\([^()]*\))*\))*\))?\]\n' % re.escape(nme))
        text, k = rx.subn('', text)
        c += k
    return text, c


def strip_log_macros(text):
    return re.subn(r'(?ms)^[ \t]*(?:log::)?(?:debug|info|warn|trace|error)!\((?:[^()]|\((?:[^()]|\([^()]*\))*\))*\);\n', '', text)


def hoist_closure_patterns(src):
    """T5: |(a, _)| expr  ->  |p__| { let (a, _) = p__; expr }"""
    out = []
    i = 0
    c = 0
    pat = re.compile(r'\|(\((?:[^|()]|\([^()]*\))*\))\|\s*')
    masked = mask(src)
    while True:
        m = pat.search(masked, i)
        if not m:
            out.append(src[i:])
            break
        out.append(src[i:m.start()])
        j = m.end()
        if masked[j] == '{':
            e = match_close(masked, j)
            body = src[j:e + 1]
            k = e + 1
        else:
            depth = 0
            k = j
            while True:
                ch = masked[k]
                if ch in '([{':
                    depth += 1
                elif ch in ')]}':
                    if depth == 0:
                        break
                    depth -= 1
                elif ch == ',' and depth == 0:
                    break
                k += 1
            body = src[j:k]
        out.append('|p__| { let %s = p__; %s }' % (src[m.start(1):m.end(1)], body.strip()))
        c += 1
        i = k
    return ''.join(out), c


def module_span(text, modpath):
    """(lo, hi) of the body of nested module a::b::c in text"""
    masked = mask(text)
    lo, hi = 0, len(text)
    for part in [p for p in modpath.split('::') if p]:
        m = re.compile(r'(?m)^[ \t]*(?:pub(?:\([^)]*\))?\s+)?mod\s+%s\s*\{' % re.escape(part)).search(masked, lo, hi)
        if not m:
            from splice import LostAnchor
            raise LostAnchor('module %s (in %s) not found' % (part, modpath))
        k = m.end() - 1
        e = match_close(masked, k)
        lo, hi = k + 1, e
    return lo, hi


def inline_crate(repo, arg, subs, unit):
    raise NotImplementedError
