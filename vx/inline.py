"""Item-level mechanical transformations (T2, T3, T5, T6) and crate inlining for vx."""
import re, os, hashlib
from rustlex import mask, match_close, body_open, line_of


def pub_fields(text):
    """T3: make struct fields and items `pub` (single-file crate: no change of meaning)."""
    masked = mask(text)
    c = 0
    out = []
    last = 0
    # struct bodies: add pub to `name: Type` lines at depth 1 of a struct
    for m in re.finditer(r'(?m)^[ \t]*(?:pub(?:\([^)]*\))?\s+)?struct\s+\w+', masked):
        try:
            k, ch = body_open(masked, m.end())
        except ValueError:
            continue
        if ch != '{':
            continue
        e = match_close(masked, k)
        seg_start = k + 1
        depth = 0
        pos = seg_start
        line_start = True
        # iterate over lines inside the struct body at depth 0
        i = seg_start
        while i < e:
            nl = masked.find('\n', i, e)
            if nl < 0:
                nl = e
            line = masked[i:nl]
            if depth == 0:
                fm = re.match(r'([ \t]*)(pub(?:\([^)]*\))?\s+)?((?:r#)?\w+)\s*:', line)
                if fm and not line.strip().startswith('#'):
                    if fm.group(2) is None:
                        ins = i + len(fm.group(1))
                        out.append(text[last:ins] + 'pub ')
                        last = ins
                        c += 1
                    elif fm.group(2).startswith('pub('):
                        a = i + len(fm.group(1))
                        out.append(text[last:a] + 'pub ')
                        last = a + len(fm.group(2))
                        c += 1
            for ch2 in line:
                if ch2 in '([{<':
                    depth += 1
                elif ch2 in ')]}>':
                    depth -= 1
            depth = max(depth, 0)
            i = nl + 1
    out.append(text[last:])
    text = ''.join(out)
    # pub(crate) / private items -> pub
    text, n1 = re.subn(r'(?m)^([ \t]*)pub\((?:crate|super)\)\s+', r'\1pub ', text)
    return text, c + n1


def derive_remove(text, names):
    removed = []

    def fix(m):
        items = [x.strip() for x in m.group(2).split(',') if x.strip()]
        keep = []
        for x in items:
            if x in names or x.split('::')[-1] in names:
                removed.append(x)
            else:
                keep.append(x)
        if not keep:
            return ''
        return '%s#[derive(%s)]\n' % (m.group(1), ', '.join(keep))
    text = re.sub(r'(?m)^([ \t]*)#\[derive\(([^\]]*)\)\]\n', fix, text)
    return text, removed


def strip_attrs(text, names):
    c = 0
    for nme in names:
        rx = re.compile(r'(?ms)^[ \t]*#\[%s\b(?:\((?:[^()]|\((?:[^()]|\([^()]*\))*\))*\))?\]\n' % re.escape(nme))
        text, k = rx.subn('', text)
        c += k
    return text, c


def strip_log_macros(text):
    return re.subn(r'(?ms)^[ \t]*(?:log::)?(?:debug|info|warn|trace|error)!\((?:[^()]|\((?:[^()]|\([^()]*\))*\))*\);\n', '', text)


def hoist_closure_patterns(src):
    """T5: |(a, _)| expr  ->  |p__| { let (a, _) = p__; expr }"""
    out = []
    i = 0
    c = 0
    pat = re.compile(r'\|(\((?:[^|()]|\([^()]*\))*\))\|\s*')
    masked = mask(src)
    while True:
        m = pat.search(masked, i)
        if not m:
            out.append(src[i:])
            break
        out.append(src[i:m.start()])
        j = m.end()
        if masked[j] == '{':
            e = match_close(masked, j)
            body = src[j:e + 1]
            k = e + 1
        else:
            depth = 0
            k = j
            while True:
                ch = masked[k]
                if ch in '([{':
                    depth += 1
                elif ch in ')]}':
                    if depth == 0:
                        break
                    depth -= 1
                elif ch == ',' and depth == 0:
                    break
                k += 1
            body = src[j:k]
        out.append('|p__| { let %s = p__; %s }' % (src[m.start(1):m.end(1)], body.strip()))
        c += 1
        i = k
    return ''.join(out), c


def rewrite_format_concat(text):
    """T7: format!("{}{}", a, b) -> crate::vx_concat2(&(a), &(b))  (only pure `{}` holes; Display of str/String)"""
    masked = mask(text)
    out, last, c = [], 0, 0
    for m in re.finditer(r'\bformat!\(', masked):
        if m.start() < last:
            continue
        op = m.end() - 1
        cl = match_close(masked, op)
        inner = text[op + 1:cl]
        minner = masked[op + 1:cl]
        # split on top-level commas
        parts, depth, st = [], 0, 0
        for k, ch in enumerate(minner):
            if ch in '([{':
                depth += 1
            elif ch in ')]}':
                depth -= 1
            elif ch == ',' and depth == 0:
                parts.append(inner[st:k])
                st = k + 1
        parts.append(inner[st:])
        parts = [p_ for p_ in parts if p_.strip()]
        if len(parts) == 3 and parts[0].strip() == '"{}{}"':
            out.append(text[last:m.start()])
            out.append('crate::vx_concat2(&(%s), &(%s))' % (parts[1].strip(), parts[2].strip()))
            last = cl + 1
            c += 1
    out.append(text[last:])
    return ''.join(out), c


def rewrite_assert_eq(text):
    """T14: assert_eq!(a, b[, msg]);  ->  if !((a) == (b)) { panic!(msg) }   (assert_eq! expands to core::panicking::assert_failed,
    which Verus rejects; the comparison and the panic are kept, only the Debug rendering of the operands is lost)"""
    masked = mask(text)
    out, last, c = [], 0, 0
    for m in re.finditer(r'\bassert_eq!\(', masked):
        if m.start() < last:
            continue
        op = m.end() - 1
        cl = match_close(masked, op)
        inner = text[op + 1:cl]
        minner = masked[op + 1:cl]
        parts, depth, st = [], 0, 0
        for k, ch in enumerate(minner):
            if ch in '([{':
                depth += 1
            elif ch in ')]}':
                depth -= 1
            elif ch == ',' and depth == 0:
                parts.append(inner[st:k])
                st = k + 1
        parts.append(inner[st:])
        parts = [p_.strip() for p_ in parts if p_.strip()]
        if len(parts) in (2, 3):
            msg = parts[2] if len(parts) == 3 else '"assertion `left == right` failed"'
            out.append(text[last:m.start()])
            out.append('if !((%s) == (%s)) { panic!(%s) }' % (parts[0], parts[1], msg))
            last = cl + 1
            if text[last:last + 1] == ';':
                last += 1
            c += 1
    out.append(text[last:])
    return ''.join(out), c


LABELLED_LET_RX = re.compile(r"\blet\s+(mut\s+)?(\w+)\s*(?::\s*([^=;{}]+?))?\s*=\s*('\w+)\s*:\s*\{")


def rewrite_labelled_blocks(text, types=None):
    """T10: Verus supports neither labelled blocks nor `break` with a value.
        let v = 'L: { ...; break 'L e; ...; tail }      ==>
        let v; 'L: loop /*vx:T10*/ decreases 0int { ...; { v = e; break 'L; } ...; v = tail; break 'L; }
    a block that is left exactly where the original was left, with the same value (one-iteration loop, deferred
    initialisation).  Returns (text, [labels rewritten])."""
    from splice import block_tail
    done = []
    while True:
        masked = mask(text)
        m = LABELLED_LET_RX.search(masked)
        if not m:
            break
        mutkw, var, ty, label = m.group(1) or '', m.group(2), m.group(3), m.group(4)
        lb = m.end() - 1
        close = match_close(masked, lb)
        k = close + 1
        while k < len(masked) and masked[k].isspace():
            k += 1
        if masked[k:k + 1] != ';':
            raise ValueError('T10: labelled block %s is not a let initialiser ending in `;`' % label)
        tl = block_tail(masked, lb)
        if tl is None:
            raise ValueError('T10: labelled block %s has no tail expression' % label)
        body = text[lb + 1:close]
        mbody = masked[lb + 1:close]
        off = lb + 1
        edits = []   # (start, end, replacement) relative to text
        for bm in re.finditer(r"\bbreak\s+" + re.escape(label) + r"\b", mbody):
            s0 = off + bm.start()
            e0 = off + bm.end()
            # expression up to the next `;` at depth 0
            depth, j = 0, e0
            while j < close:
                c = masked[j]
                if c in '([{':
                    depth += 1
                elif c in ')]}':
                    if depth == 0:
                        break
                    depth -= 1
                elif c == ';' and depth == 0:
                    break
                j += 1
            expr = text[e0:j].strip()
            if not expr:
                raise ValueError('T10: `break %s` without a value' % label)
            endpos = j + 1 if masked[j:j + 1] == ';' else j
            edits.append((s0, endpos, '{ %s = %s; break %s; }' % (var, expr, label)))
        a, b = tl
        edits.append((a, b, '%s = %s;\nbreak %s;' % (var, text[a:b], label)))
        edits.sort()
        out, last = [], lb + 1
        for s0, e0, rep in edits:
            out.append(text[last:s0])
            out.append(rep)
            last = e0
        out.append(text[last:close])
        newbody = ''.join(out)
        if not ty and types and var in types:
            ty = types[var]   # T10: the deferred `let v;` needs the type the initialiser used to give it (named in the unit, checked by rustc)
        decl = 'let %s%s%s;' % (mutkw, var, (': ' + ty.strip()) if ty else '')
        repl = '%s\n%s: loop /*vx:T10 was a labelled block*/\n    decreases 0int\n{%s}' % (decl, label, newbody)
        text = text[:m.start()] + repl + text[k + 1:]
        done.append(label + ' -> ' + var)
    return text, done


ENUM_FOR_RX = re.compile(r"\bfor\s*\(\s*(\w+)\s*,\s*")


def rewrite_enumerate_for(text):
    """T15: `for (i, PAT) in EXPR.enumerate() { B }`  ==>
            `{ let mut i__vx: usize = 0; for PAT in EXPR { let i = i__vx; i__vx += 1; B } }`
    (Iterator::enumerate yields the items of EXPR paired with a counter starting at 0; the adaptor itself cannot be given
    a specification in the installed Verus).  Returns (text, count)."""
    c = 0
    pos = 0
    while True:
        masked = mask(text)
        m = ENUM_FOR_RX.search(masked, pos)
        if not m:
            break
        idx = m.group(1)
        # pattern up to the matching ')'
        op = masked.index('(', m.start())
        cl = match_close(masked, op)
        pat = text[m.end():cl].strip()
        mm = re.compile(r"\s*in\b").match(masked, cl + 1)
        if not mm:
            pos = m.end(); continue
        # body '{' at depth 0
        k, depth = mm.end(), 0
        while k < len(masked):
            ch = masked[k]
            if ch in '([':
                depth += 1
            elif ch in ')]':
                depth -= 1
            elif ch == '{' and depth == 0:
                break
            k += 1
        expr = text[mm.end():k].rstrip()
        mexpr = masked[mm.end():k].rstrip()
        em = re.search(r"\s*\.\s*enumerate\s*\(\s*\)$", mexpr)
        if not em:
            pos = m.end(); continue
        expr = expr[:em.start()]
        bclose = match_close(masked, k)
        ctr = idx + '__vx'
        new = ('{ /*vx:T15 enumerate()*/ let mut %s: usize = 0;\nfor %s in %s {\n let %s = %s; %s += 1;' % (ctr, pat, expr.strip(), idx, ctr, ctr)
               + text[k + 1:bclose] + '} }')
        text = text[:m.start()] + new + text[bclose + 1:]
        c += 1
        pos = m.start() + 10
    return text, c


def _receiver_start(masked, dot):
    """start of the postfix expression that ends right before the '.' at `dot` (method-call receiver)"""
    k = dot - 1
    while True:
        while k >= 0 and masked[k].isspace():
            k -= 1
        if k < 0:
            return 0
        ch = masked[k]
        if ch in ')]':
            # jump to the matching opener
            depth, j = 0, k
            pairs = {')': '(', ']': '['}
            while j >= 0:
                if masked[j] in ')]}':
                    depth += 1
                elif masked[j] in '([{':
                    depth -= 1
                    if depth == 0:
                        break
                j -= 1
            k = j - 1
            continue
        if ch == '?':
            k -= 1
            continue
        if ch.isalnum() or ch == '_' or ch == '#':
            while k >= 0 and (masked[k].isalnum() or masked[k] in '_#'):
                k -= 1
            # path / field / method separators keep the expression going
            j = k
            while j >= 0 and masked[j].isspace():
                j -= 1
            if j >= 0 and masked[j] == '.':
                k = j - 1
                continue
            if j >= 1 and masked[j - 1:j + 1] == '::':
                k = j - 2
                continue
            return k + 1
        if ch == '>' :
            # turbofish / generic args `::<T>` : skip to matching '<'
            depth, j = 0, k
            while j >= 0:
                if masked[j] == '>':
                    depth += 1
                elif masked[j] == '<':
                    depth -= 1
                    if depth == 0:
                        break
                j -= 1
            k = j - 1
            continue
        return k + 1


def rewrite_method_chain(text, fn_name, methods):
    """T16: RECV.m1(A1).m2(A2)..  ==>  crate::<fn_name>(RECV, A1, A2, ..)   (empty argument lists contribute nothing).
    <fn_name> is a TRUSTED wrapper in /verif/prelude whose body is literally `recv.m1(a1).m2(a2)..` (same executable
    semantics by construction) and whose `ensures` is the assumed specification of that std iterator pipeline: the
    installed Verus cannot attach a specification to provided Iterator methods directly.  Returns (text, count)."""
    c = 0
    start = 0
    rx = re.compile(r"\.\s*" + re.escape(methods[0]) + r"\s*(?:::\s*<[^>]*>\s*)?\(")
    while True:
        masked = mask(text)
        m = rx.search(masked, start)
        if not m:
            break
        dot = m.start()
        args = []
        k = m.end() - 1
        ok = True
        endpos = None
        for mi, meth in enumerate(methods):
            cl = match_close(masked, k)
            a = text[k + 1:cl].strip()
            if a:
                args.append(a)
            endpos = cl + 1
            if mi + 1 < len(methods):
                mm = re.compile(r"\s*\.\s*" + re.escape(methods[mi + 1]) + r"\s*(?:::\s*<[^>]*>\s*)?\(").match(masked, cl + 1)
                if not mm:
                    ok = False
                    break
                k = mm.end() - 1
        if not ok:
            start = m.end()
            continue
        rs = _receiver_start(masked, dot)
        recv = text[rs:dot].strip()
        if fn_name.startswith('&'):
            new = 'crate::%s(%s)' % (fn_name[1:], ', '.join(['&(' + recv + ')'] + args))   # method takes &self: pass the receiver by reference
        else:
            new = 'crate::%s(%s)' % (fn_name, ', '.join([recv] + args))
        text = text[:rs] + new + text[endpos:]
        c += 1
        start = rs + len(new)
    return text, c


def module_span(text, modpath):
    """(lo, hi) of the body of nested module a::b::c in text"""
    masked = mask(text)
    lo, hi = 0, len(text)
    for part in [p for p in modpath.split('::') if p]:
        m = re.compile(r'(?m)^[ \t]*(?:pub(?:\([^)]*\))?\s+)?mod\s+%s\s*\{' % re.escape(part)).search(masked, lo, hi)
        if not m:
            from splice import LostAnchor
            raise LostAnchor('module %s (in %s) not found' % (part, modpath))
        k = m.end() - 1
        e = match_close(masked, k)
        lo, hi = k + 1, e
    return lo, hi



UNSUPPORTED = re.compile(r"\.chain\(|\.enumerate\(|\.flatten\(|\.flat_map\(|\.filter_map\(|\.find_map\(|"
                         r"\.take_while\(|\.skip_while\(|\.try_fold\(|\.peekable\(|\.partition|\.unique\(|"
                         r"cartesian_product|\.fold\(|\.unzip\(|\.extend\(|\.then\(|write!\(|writeln!\(|"
                         r"\.sort_by|\.sort\(|\.dedup|Box::leak|thread_local|\.with\(\||\.borrow\(\)|\.rev\(\)\.|"
                         r"\.sum\(|\.sum::|\.lines\(|\.split\(|\.last\(\)|\.position\(|\.max\(|\.min\(|"
                         r"\.iter_mut\(|\.drain\(|\.retain\(|\.zip\(|assert_eq!|assert!\(|\.entry\(|dyn\s|impl\s+Iterator|"
                         r"\.into_iter\(\)\s*\.|unsafe\s*\{|\.as_mut\(|todo!|\.windows\(|\.join\(|\.concat\(")
LABELLED_BLOCK = re.compile(r"'[a-z_]\w*:\s*\{")

DROP_DERIVES = ('Error', 'Deserialize', 'Serialize', 'thiserror::Error', 'serde::Deserialize', 'serde::Serialize')


def strip_noise(src, keep_debug=True):
    """T1/T2/T6 for whole inlined files"""
    log = []
    src = '\n'.join(l for l in src.split('\n') if not l.lstrip().startswith('//!'))

    def fix(m):
        items = [x.strip() for x in m.group(2).split(',') if x.strip()]
        extra = ''
        kept = []
        for x in items:
            if x in DROP_DERIVES or (x == 'Debug' and not keep_debug):
                log.append('derive %s dropped' % x)
            else:
                kept.append(x)
        items = kept
        if 'Clone' in items and 'Copy' not in items:
            items.remove('Clone')
            hdr = re.match(r'(?:\s*(?:#\[[^\]]*\]|///[^\n]*)\s*\n)*\s*pub(?:\([a-z]+\))? (?:struct|enum) (\w+)(<[^>{(]*>)?', src[m.end():])
            if hdr:
                name, gen = hdr.group(1), hdr.group(2) or ''
                params = [g.strip() for g in gen.strip('<>').split(',') if g.strip()]
                names = ', '.join(p.split(':')[0].strip() for p in params)
                bounds = ', '.join((p if p.startswith("'") else p.split(':')[0].strip() + ': Clone') for p in params)
                extra = ('%simpl%s Clone for %s%s { #[verifier::external_body] fn clone(&self) -> (r: Self) ensures r == *self { unimplemented!() } }\n'
                         % (m.group(1), ('<' + bounds + '>') if params else '', name, ('<' + names + '>') if params else ''))
                log.append('derive Clone on %s replaced by trusted impl (A-CLONE)' % name)
            else:
                log.append('derive Clone dropped (no header found)')
        return extra + ((m.group(1) + '#[derive(%s)]\n' % ', '.join(items)) if items else '')
    src = re.sub(r'(?m)^([ \t]*)#\[derive\(([^\]]*)\)\]\n', fix, src)
    src, c = strip_attrs(src, ['error', 'serde', 'allow', 'from', 'source', 'must_use', 'inline'])
    if c:
        log.append('%d attributes (#[error]/#[serde]/#[allow]/..) stripped' % c)
    src, c = strip_log_macros(src)
    if c:
        log.append('%d log macro statements removed (T6)' % c)
    src = re.sub(r'(?m)^use (thiserror|log|anyhow|insta|serde)(::[^;]*)?;\n', '', src)
    src = re.sub(r'(?m)^#\[cfg\(test\)\]\n(pub )?mod \w+;\n', '', src)
    src = re.sub(r'(?m)^mod tests;\n', '', src)
    # inline #[cfg(test)] mod tests { ... }
    masked = mask(src)
    out = []
    last = 0
    for m in re.finditer(r'(?m)^[ \t]*#\[cfg\(test\)\]\s*\n[ \t]*(?:pub )?mod \w+\s*\{', masked):
        if m.start() < last:
            continue
        k = m.end() - 1
        e = match_close(masked, k)
        out.append(src[last:m.start()])
        last = e + 1
        log.append('#[cfg(test)] module dropped (T1)')
    out.append(src[last:])
    return ''.join(out), log


FN_HDR = re.compile(r'(?m)^([ \t]*)((?:pub(?:\([a-z]+\))? )?(?:const )?(?:async )?(?:unsafe )?(?:extern "C" )?fn (\w+))')


def fn_spans(src, masked=None):
    masked = masked or mask(src)
    res = []
    for m in FN_HDR.finditer(masked):
        try:
            k, ch = body_open(masked, m.end())
        except ValueError:
            continue
        if ch == ';':
            continue
        try:
            e = match_close(masked, k)
        except ValueError:
            continue
        res.append((m.group(3), m.start(), k, e + 1, m.group(1)))
    return res


def mark_external_auto(src, modname, report, extra_rx=None):
    """add #[verifier::external_body] to fns whose body uses constructs Verus cannot specify (DESIGN section 2)"""
    masked = mask(src)
    ins = []
    for name, s, k, e, ind in fn_spans(src, masked):
        body = masked[k:e]
        why = UNSUPPORTED.search(body) or LABELLED_BLOCK.search(src[k:e]) or (extra_rx.search(body) if extra_rx else None)
        if why:
            ins.append((s, ind + '#[verifier::external_body] /*vx:auto %s*/\n' % why.group(0).strip().replace('*/', '')))
            report.append('%s::%s (%s)' % (modname, name, why.group(0).strip()))
    out = []
    last = 0
    for pos, t in sorted(ins):
        out.append(src[last:pos])
        out.append(t)
        last = pos
    out.append(src[last:])
    return ''.join(out)


def reroot_uses(src, this_crate, all_crates):
    for c in all_crates:
        src = re.sub(r'(?<![\w:])%s::' % c, 'crate::%s::' % c, src)
    src = re.sub(r'(?<![\w:])crate::(?!(%s)::)' % '|'.join(all_crates), 'crate::%s::' % this_crate, src)
    return src


def reduce_module(src, spec, label, report, log):
    """spec: list of fn names, optionally followed by drop_use=<substr>[+<substr>] entries"""
    keep_fns = [x for x in spec if not x.startswith('drop_use=')]
    drops = [d for x in spec if x.startswith('drop_use=') for d in x[9:].split('+')]
    msk = mask(src)
    kept = []
    for m in re.finditer(r'(?ms)^(?:pub )?use [^;]*;', src):
        st = m.group(0)
        if any(d in st for d in drops):
            log.append('%s: use statement mentioning %s dropped' % (label, '/'.join(drops)))
            continue
        kept.append(st)
    for name, s0, k, e, ind in fn_spans(src, msk):
        if name in keep_fns and ind == '':
            kept.append('#[verifier::external_body] /*vx:reduced-module: body dropped (unverified, refers to dropped items)*/\n' + src[s0:k] + '{ unimplemented!() }')
            report.append('%s::%s (module reduced to this signature)' % (label, name))
    log.append('%s: module reduced to fns %s (T8; all other items dropped)' % (label, ','.join(keep_fns)))
    return '\n'.join(kept)


def _read_module(base, name, log, depth=0, reduce=None, report=None, relpath=None):
    """read module `name` under directory base (name.rs or name/mod.rs), inlining nested `mod x;`"""
    p = os.path.join(base, name + '.rs')
    sub = os.path.join(base, name)
    if not os.path.exists(p):
        p = os.path.join(base, name, 'mod.rs')
    if not os.path.exists(p):
        from splice import LostAnchor
        raise LostAnchor('module file for %s not found under %s' % (name, base))
    raw = open(p).read()
    src, lg = strip_noise(raw)
    log += ['%s: %s' % (os.path.relpath(p, base), x) for x in lg]
    recs = [(p, hashlib.sha256(raw.encode()).hexdigest())]

    relpath = relpath or name
    if reduce and relpath in reduce:
        src = reduce_module(src, reduce[relpath], relpath, report if report is not None else [], log)

    def inl(mm):
        subname = mm.group(2)
        if subname in ('tests', 'test'):
            return ''
        try:
            t, r = _read_module(sub, subname, log, depth + 1, reduce, report, relpath + '/' + subname)
        except Exception:
            return ''
        recs.extend(r)
        return 'pub mod %s { /*vx:T3 visibility widened*/\nuse vstd::prelude::*;\n%s\n}\n' % (subname, t)
    src = re.sub(r'(?m)^(pub(?:\([a-z]+\))? )?mod (\w+);\n', inl, src)
    return src, recs


def inline_crate(repo, arg, subs, unit):
    """inline <crate_mod_name> <crate src dir> mods=a,b,r#type:type all=<crate names> [nolib]"""
    a = arg.split()
    cname, rel = a[0], a[1]
    mods, allc, nolib, keep_debug = [], [cname], False, True
    for kv in a[2:]:
        if kv.startswith('mods='):
            mods = kv[5:].split(',')
        elif kv.startswith('all='):
            allc = kv[4:].split(',')
        elif kv == 'nolib':
            nolib = True
    base = os.path.join(repo, rel)
    log, recs, report = [], [], []
    parts = []
    libp = os.path.join(base, 'lib.rs')
    if os.path.exists(libp) and not nolib:
        lib, lg = strip_noise(open(libp).read())
        lib = re.sub(r'(?m)^(pub )?mod [\w#]+;\n', '', lib)
        included = set(m.split(':')[0] for m in mods)

        def keep_use(mm):
            return mm.group(0) if mm.group(2) in included else ''
        lib = re.sub(r'(?ms)^(pub use )([\w#]+)(::.*?;\n)', keep_use, lib)
        # anything else in lib.rs (fns, impls) is dropped unless a `libitems` directive keeps it
        lib = '\n'.join(m.group(0) for m in re.finditer(r'(?ms)^(?:pub )?use [^;]*;', lib))
        parts.append(lib)
    files = []
    reduce = {}
    for s_ in subs:
        w = s_.split()
        if w[0] == 'reduce':
            reduce[w[1]] = w[2].split(',') + w[3:]
    subs = [s_ for s_ in subs if s_.split()[0] != 'reduce']
    for m in mods:
        modname, fname = (m.split(':') + [None])[:2]
        fname = fname or modname
        src, r = _read_module(base, fname, log, 0, reduce, report, fname)
        files += r
        src, c = hoist_closure_patterns(src)
        if c:
            log.append('%s: %d closure parameter patterns hoisted (T5)' % (fname, c))
        src, c = pub_fields(src)
        if c:
            log.append('%s: %d private fields / pub(crate) items made pub (T3)' % (fname, c))
        src = mark_external_auto(src, '%s::%s' % (cname, modname), report)
        parts.append('pub mod %s {\nuse vstd::prelude::*;\n%s\n}\n' % (modname, src))
    body = '\n'.join(parts)
    body = reroot_uses(body, cname, allc)
    text = '// ---- vx:inline crate %s from %s (modules %s) ----\npub mod %s {\nuse vstd::prelude::*;\n%s\n}\n// ---- vx:end-inline %s ----' % (
        cname, rel, ','.join(mods), cname, body, cname)
    rec = dict(unit=unit.id, file=rel, item='crate %s modules %s' % (cname, ','.join(mods)),
               sha256=hashlib.sha256(''.join(h for _, h in files).encode()).hexdigest(),
               files=[dict(file=os.path.relpath(p, repo), sha256=h) for p, h in files],
               transformations=[dict(rule='T1/T2/T5/T6', what=x) for x in log])
    # sub-directives: rewrite / external
    for s_ in subs:
        w = s_.split(None, 1)
        if w[0] == 'rewrite':
            m = re.match(r'(\S+)\s+(\d+|\*)\s+(".*?(?<!\\)")\s*=>\s*(".*")\s*$', w[1], re.S)
            import json as _j
            rule, cnt = m.group(1), m.group(2)
            frm, to = _j.loads(m.group(3)), _j.loads(m.group(4))
            c = text.count(frm)
            if (cnt != '*' and c != int(cnt)) or c == 0:
                from splice import LostAnchor
                raise LostAnchor('inline rewrite %s: %r occurs %d times, expected %s' % (rule, frm, c, cnt))
            text = text.replace(frm, to)
            t = dict(rule=rule, frm=frm, to=to, count=c, item=rec['item'])
            rec['transformations'].append(t)
            unit.transforms.append(t)
        elif w[0] == 'rewrite_re':
            m = re.match(r'(\S+)\s+(\d+|\*)\s+(".*?(?<!\\)")\s*=>\s*(".*")\s*$', w[1], re.S)
            import json as _j
            rule, cnt = m.group(1), m.group(2)
            frm, to = _j.loads(m.group(3)), _j.loads(m.group(4))
            text, c = re.subn(frm, to, text)
            if (cnt != '*' and c != int(cnt)) or c == 0:
                from splice import LostAnchor
                raise LostAnchor('inline rewrite_re %s: %r matched %d times, expected %s' % (rule, frm, c, cnt))
            t = dict(rule=rule, frm_regex=frm, to=to, count=c, item=rec['item'])
            rec['transformations'].append(t)
            unit.transforms.append(t)
        elif w[0] == 'assert_eq_to_panic':
            text, c = rewrite_assert_eq(text)
            if c == 0:
                from splice import LostAnchor
                raise LostAnchor('assert_eq_to_panic: no assert_eq! found')
            t = dict(rule='T14', what='assert_eq!(a, b, msg) -> if !(a == b) { panic!(msg) }', count=c, item=rec['item'])
            rec['transformations'].append(t)
            unit.transforms.append(t)
        elif w[0] == 'labelled_blocks':
            try:
                types = dict(kv.split(':', 1) for kv in (w[1].split() if len(w) > 1 else []) if ':' in kv)
                text, done = rewrite_labelled_blocks(text, types)
            except ValueError as e:
                from splice import LostAnchor
                raise LostAnchor(str(e))
            if not done:
                from splice import LostAnchor
                raise LostAnchor('labelled_blocks: no `let v = \'label: { .. }` found')
            t = dict(rule='T10', what="labelled block with `break 'l value` -> one-iteration labelled loop with deferred initialisation", blocks=done, item=rec['item'])
            rec['transformations'].append(t)
            unit.transforms.append(t)
        elif w[0] == 'wrap_chain':
            a_ = w[1].split()
            fn_name, methods = a_[0], a_[1].split(',')
            text, c = rewrite_method_chain(text, fn_name, methods)
            if c == 0:
                from splice import LostAnchor
                raise LostAnchor('wrap_chain: no .%s found' % '().'.join(methods))
            t = dict(rule='T16', what='RECV.%s(..) -> crate::%s(RECV, ..): trusted wrapper whose body is that same call (assumed std iterator contract)' % ('(..).'.join(methods), fn_name), count=c, item=rec['item'])
            rec['transformations'].append(t)
            unit.transforms.append(t)
        elif w[0] == 'enumerate_for':
            text, c = rewrite_enumerate_for(text)
            if c == 0:
                from splice import LostAnchor
                raise LostAnchor('enumerate_for: no `for (i, x) in e.enumerate()` found')
            t = dict(rule='T15', what='for (i, x) in e.enumerate() { B } -> counter variable incremented at the top of the body', count=c, item=rec['item'])
            rec['transformations'].append(t)
            unit.transforms.append(t)
        elif w[0] == 'format_concat':
            text, c = rewrite_format_concat(text)
            if c == 0:
                from splice import LostAnchor
                raise LostAnchor('format_concat: no format!("{}{}", a, b) found')
            t = dict(rule='T7', what='format!("{}{}", a, b) -> vx_concat2(&a, &b) (trusted: result is the concatenation)', count=c, item=rec['item'])
            rec['transformations'].append(t)
            unit.transforms.append(t)
        elif w[0] == 'external':
            # force external_body on fn <name> (optionally module-qualified: mod::name)
            target = w[1].strip()
            modp, _, fname = target.rpartition('::')
            lo, hi = module_span(text, cname + ('::' + modp if modp else ''))
            masked = mask(text)
            from splice import find_fn
            nth = 0
            mm = re.match(r'(\w+)#(\d+)$', fname)
            if mm:
                fname, nth = mm.group(1), int(mm.group(2))
            fs, _, _, _ = find_fn(text, masked, fname, nth, lo, hi)
            text = text[:fs] + '#[verifier::external_body] /*vx:unit-external*/\n' + text[fs:]
            report.append('%s::%s (unit directive)' % (cname, target))
        else:
            from vx import Undecided
            raise Undecided('template: unknown inline sub-directive %r' % s_)
    return text, [rec], report
