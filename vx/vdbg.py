#!/usr/bin/env python3
"""debug helper: run verus directly (human-readable diagnostics) on a generated file kept by runone.py
usage: vx/vdbg.py /tmp/vxkeep/gen_<unit>.rs [--verify-function f] [extra verus args]"""
import sys, os, subprocess
sys.path.insert(0, os.path.dirname(os.path.abspath(__file__)))
import vx
f = sys.argv[1]
extra = sys.argv[2:]
cmd = ['verus', f, '--multiple-errors', '10', '--rlimit', '60', '--time'] + extra + ['--'] + vx.deps_args()
p = subprocess.run(cmd, capture_output=True, text=True)
print(p.stdout[-3000:])
print(p.stderr[-12000:])
