#!/usr/bin/env python3
"""confirm a sub-agent's seeded change in ITS scratch worktree (never /repo):
   vx/confirm_seed.py <id> <crate-dir>:<test-file>[:example][,<crate-dir>:<test-file>...]
(`:example` = the demo is a cargo example - binary-only crates have no integration tests - run with `cargo run --example`)
pristine -> demo passes; patch applies; with patch demo fails and the whole existing suite passes.
writes /tmp/seed/<id>-out/confirm.json"""
import sys, os, subprocess, json, shutil, re
sid = sys.argv[1]
demos = [(x.split(':') + ['tests'])[:3] for x in sys.argv[2].split(',')]
demos = [(c, f, 'examples' if k.startswith('example') else 'tests') for c, f, k in demos]
wt = '/tmp/seed/' + sid
out = '/tmp/seed/' + sid + '-out'
def sh(cmd, **kw):
    return subprocess.run(cmd, shell=True, cwd=wt, capture_output=True, text=True, **kw)
res = dict(id=sid, what_i_ran=[])
sh('git checkout -- . && git clean -fdq -e target')
res['patch_applies'] = sh('git apply --check %s/patch.diff' % out).returncode == 0
res['what_i_ran'].append('git apply --check patch.diff (scratch worktree of /repo at HEAD %s)' % sh('git rev-parse --short HEAD').stdout.strip())
def place():
    for crate, f, kind in demos:
        os.makedirs(os.path.join(wt, crate, kind), exist_ok=True)
        shutil.copy(os.path.join(out, 'demo', f), os.path.join(wt, crate, kind, f))
def pkg(crate):
    t = open(os.path.join(wt, crate, 'Cargo.toml')).read()
    return re.search(r'name\s*=\s*"([^"]+)"', t).group(1)
def run_demos():
    ok = True; logs = []
    for crate, f, kind in demos:
        cmd = ('cargo test -p %s --test %s --offline' if kind == 'tests' else 'cargo run -p %s --example %s --offline') % (pkg(crate), f[:-3])
        p = sh(cmd + ' 2>&1')
        logs.append(cmd + ' -> rc=%d :: %s' % (p.returncode, ' | '.join(l for l in p.stdout.split('\n') if l.startswith('test result') or 'VIOLATION' in l or l.startswith('C19 demo'))))
        ok = ok and p.returncode == 0
    return ok, logs
place()
ok, logs = run_demos()
res['demo_passes_without_change'] = ok; res['what_i_ran'] += ['(pristine) ' + l for l in logs]
sh('git apply %s/patch.diff' % out)
ok, logs = run_demos()
res['demo_fails_with_change'] = not ok; res['what_i_ran'] += ['(with change) ' + l for l in logs]
for crate, f, kind in demos:
    os.remove(os.path.join(wt, crate, kind, f))
    if kind == 'examples' and not os.listdir(os.path.join(wt, crate, kind)):
        os.rmdir(os.path.join(wt, crate, kind))
p = sh('cargo test --workspace --no-fail-fast --offline 2>&1')
passed = sum(int(x) for x in re.findall(r'test result: \w+\. (\d+) passed', p.stdout))
failed = sum(int(x) for x in re.findall(r'test result: \w+\. \d+ passed; (\d+) failed', p.stdout))
res['existing_suite_with_change'] = dict(passed=passed, failed=failed)
res['what_i_ran'].append('cargo test --workspace --no-fail-fast --offline (with the change, without the demo)')
res['confirmed'] = bool(res['patch_applies'] and res['demo_passes_without_change'] and res['demo_fails_with_change'] and failed == 0 and passed >= 215)
json.dump(res, open(out + '/confirm.json', 'w'), indent=1)
print(json.dumps(res, indent=1))
