#!/usr/bin/env python3
"""Prepare a seeding round: for every property id given, a scratch git worktree of /repo under /tmp/seed/<id>-<n>
(with a copy of /repo/target to speed up the sub-agent's builds) and the prompt for the sub-agent, which
contains ONLY the property's text.  Prints the prompt paths.  Nothing of this is ever committed to /repo."""
import json, os, subprocess, sys, glob
V = os.path.dirname(os.path.dirname(os.path.abspath(__file__)))
props = {json.loads(l)['id']: json.loads(l) for l in open(os.path.join(V, 'properties.jsonl'))}
tmpl = open(os.path.join(V, 'vx', 'seed_prompt.tmpl')).read()
os.makedirs('/tmp/seed', exist_ok=True)
for pid in sys.argv[1:]:
    used = sorted(glob.glob(os.path.join(V, 'seeded', pid + '-*')))
    n = max([int(u.rsplit('-', 1)[1]) for u in used] + [0]) + 1
    while os.path.exists('/tmp/seed/%s-%d' % (pid, n)):
        n += 1
    sid = '%s-%d' % (pid, n)
    wt = '/tmp/seed/' + sid
    subprocess.run(['git', '-C', '/repo', 'worktree', 'add', '--detach', wt, 'HEAD'], check=True, capture_output=True)
    if os.path.isdir('/repo/target'):
        subprocess.run(['cp', '-a', '/repo/target', wt + '/target'], check=True)
    p = props[pid]
    text = '%s: %s\n\n%s\n\nFormally: %s' % (pid, p['title'], p['statement'], p['quantifier']['text'])
    fns = []
    for u in used:
        try:
            fns.append(json.load(open(u + '/meta.json')).get('function', '')[:110])
        except Exception:
            pass
    extra = ''
    if fns:
        extra = '\nPlease choose a site DIFFERENT from these already-used ones, preferably in a different function and file (other sub-agents changed them): ' + '; '.join(fns) + '.\n'
    out = tmpl.replace('@WT@', wt).replace('@OUT@', wt + '-out').replace('@PROPERTY@', text).replace('@PID@', pid).replace('@EXTRA@', extra)
    open('/tmp/seed/%s.prompt' % sid, 'w').write(out)
    print(sid, '/tmp/seed/%s.prompt' % sid)
