#!/usr/bin/env python3
"""debug helper: run one unit and print the result; keeps generated file in /tmp/vxkeep"""
import sys, json, os
sys.path.insert(0, os.path.dirname(os.path.abspath(__file__)))
import vx
r = vx.run_unit(sys.argv[1], tier=(sys.argv[2] if len(sys.argv) > 2 else 'quick'), keep='/tmp/vxkeep')
print('status', r['status'], 'verified', r['verified'], 'errors', r['errors'], 'wall', r['wall_s'])
print('dropped_hints', r.get('dropped_hints'), 'lost_hints', r.get('lost_hints'), 'passes', r.get('passes'))
for n in r['notes']:
    print('NOTE', n[:3000])
for cid, msgs in r['failed'].items():
    print('FAILED', cid)
    for m in msgs[:2]:
        print(m[:1500])
for p in r['panic']:
    print('PANIC', p['id'], p['src'], p['msg'])
    print(p['rendered'][:1200])
for p in r['termination']:
    print('TERM', p)
if r.get('replay'):
    print('REPLAY', r['replay'])
