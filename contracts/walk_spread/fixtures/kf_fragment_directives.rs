// Demonstration for the defect found by /verif units walk_inline / walk_spread (property C03):
// directives applied to fragment spreads and inline fragments are never validated.
use std::borrow::Cow;

use graphql_builtins::generate_builtins;
use graphql_type_system::Schema;
use nitrogql_ast::base::Pos;
use nitrogql_checker::{OperationCheckContext, check_operation_document};
use nitrogql_parser::{parse_operation_document, parse_type_system_document};
use nitrogql_semantics::{ast_to_type_system, resolve_operation_extensions, resolve_schema_extensions};

fn errors_of(operation: &str) -> Vec<String> {
    let mut doc = parse_type_system_document("type Query { a: Int }").unwrap();
    doc.extend(generate_builtins());
    let doc = resolve_schema_extensions(doc).unwrap();
    let schema: Schema<Cow<'_, str>, Pos> = ast_to_type_system(&doc);
    let op = parse_operation_document(operation).unwrap();
    let (op, _) = resolve_operation_extensions(op).unwrap();
    let context = OperationCheckContext::new(&schema);
    check_operation_document(&op, &context).into_iter().map(|e| format!("{:?}", e.message)).collect()
}

#[test]
fn unknown_directive_on_field_is_reported() {
    assert!(!errors_of("query { a @bogus }").is_empty());
}
#[test]
fn unknown_directive_on_inline_fragment_is_reported() {
    let e = errors_of("query { ... on Query @bogus { a } }");
    assert!(!e.is_empty(), "unknown directive on an inline fragment accepted");
}
#[test]
fn unknown_directive_on_fragment_spread_is_reported() {
    let e = errors_of("query { ...F @bogus } fragment F on Query { a }");
    assert!(!e.is_empty(), "unknown directive on a fragment spread accepted");
}
#[test]
fn misplaced_directive_on_fragment_spread_is_reported() {
    // @deprecated is a type-system directive: not allowed at FRAGMENT_SPREAD
    let e = errors_of("query { ...F @deprecated } fragment F on Query { a }");
    assert!(!e.is_empty(), "@deprecated accepted on a fragment spread");
}
#[test]
fn skip_on_fragments_is_still_valid() {
    let e = errors_of("query($c: Boolean!) { ...F @skip(if: $c) ... on Query @include(if: $c) { a } } fragment F on Query { a }");
    assert!(e.is_empty(), "{:?}", e);
}
