//@ unit walk_spread primary=C03 props=C03,C04,C08
// Unit walk_spread: crates/checker/src/operation_checker/mod.rs::check_fragment_spread   (one step of the walk)
// Oracle: spec 5.5.2.1 Fragment Spread Target Defined, 5.5.2.2 Fragment Spreads Must Not Form Cycles (the name is not
// among the fragments already being expanded, and it is recorded for the expansion below it), 5.7 directives valid at
// FRAGMENT_SPREAD, the directives of the fragment's definition at FRAGMENT_DEFINITION, and the fragment's selection set is checked against its type condition incl. applicability (callee).
#![feature(pattern, allocator_api)]
#![allow(unused)]
use vstd::prelude::*;
use vstd::std_specs::cmp::PartialEqSpec;
verus! {
//@ fragment checker_ops_base.rs
//@ include strmodel.rs
//@ fragment typesys_contracts.rs
//@ fragment schema_view.rs
//@ fragment seenlist.rs
//@ fragment checker_spec.rs
//@ fragment spec_walk.rs
//@ fragment contract_walk_core.rs
//@   attr #[verifier::external_body]
//@ end
//@ fragment contract_check_directives.rs
//@   attr #[verifier::external_body]
//@ end

pub open spec fn def_spread<'a, 'src, S>(fm: &FragmentMap<'a, 'src>, seen: Seq<Seq<char>>, vars: Option<&VariablesDefinition<'src>>, root: TyNode<S>, sp: FragmentSpread<'src>, sch: &Schema<S, Pos>) -> bool {
    &&& dirs_valid(sch, vars, sp.directives@, "FRAGMENT_SPREAD"@)
    &&& !seen.contains(sp.fragment_name.name@)
    &&& fm@.contains_key(sp.fragment_name.name)
    // the directives written on the fragment DEFINITION are validated where it is spread (variables in scope are known there)
    &&& dirs_valid(sch, vars, fm@[sp.fragment_name.name].directives@, "FRAGMENT_DEFINITION"@)
    &&& {
        let target = fm@[sp.fragment_name.name];
        schema_types(sch).contains_key(target.type_condition.name@) ==>
            v_core(fm, seen.push(sp.fragment_name.name@), vars, root, schema_types(sch)[target.type_condition.name@], target.selection_set, sch)
    }
}
pub proof fn lemma_slice_contains(seen: Seq<&str>, x: &str, r: bool)
    requires r == (exists|i: int| 0 <= i < seen.len() && #[trigger] (&seen[i]).eq_spec(&x)),
    ensures r == seen_view(seen).contains(x@),
{
    broadcast use crate::axiom_str_eq;
    let nv = seen_view(seen);
    if r {
        let i = choose|i: int| 0 <= i < seen.len() && #[trigger] (&seen[i]).eq_spec(&x);
        assert(nv[i] == x@);
    }
    if nv.contains(x@) {
        let i = choose|i: int| 0 <= i < nv.len() && nv[i] == x@;
        assert((&seen[i]).eq_spec(&x));
    }
}

//@ contract nitrogql_checker::operation_checker ::fn check_fragment_spread
//@   unexternal
//@   requires [C03+C04.walk.spread.pre_schema_wf] crate::schema_wf(context.definitions)
//@   requires [C03+C04.walk.spread.pre_root_wf] crate::type_fields_args_unique(root_type.inner)
//@   ensures [C03+C04.walk.spread.frame] crate::extends_errs(old(result)@, final(result)@)
//@   ensures [C03+C04.walk.spread.one_step] (final(result)@.len() == old(result)@.len()) <==> crate::def_spread(fragment_map, crate::seen_view(seen_fragments@), variables, *root_type, *fragment_spread, context.definitions)
//@   prefix broadcast use crate::str_key_model, crate::axiom_str_eq; let ghost seen0 = seen_fragments@; proof { crate::axiom_str_obeys(); }
//@   hint after 0 "if seen_fragments.contains(&fragment_spread.fragment_name.name) {" :: [C03+C04.walk.spread.h_seen] proof { crate::lemma_slice_contains(seen0, fragment_spread.fragment_name.name, true); }
//@   hint before 0 "let seen_fragments: Vec<&str>" :: [C03+C04.walk.spread.h_notseen] proof { crate::lemma_slice_contains(seen0, fragment_spread.fragment_name.name, false); }
//@   hint before 0 "let seen_fragments = &seen_fragments;" :: [C03+C04.walk.spread.h_push] proof { let rem = seen0.as_ref(); assert(crate::seen_view(seen_fragments@) =~= crate::seen_view(seen0).push(fragment_spread.fragment_name.name@)) by { assert(rem.len() == seen0.len()); assert(seen_fragments@.len() == seen0.len() + 1); assert(seen_fragments@[seen0.len() as int + 0] == fragment_spread.fragment_name.name); assert forall|i: int| 0 <= i < seen0.len() implies seen_fragments@[i] == seen0[i] by { assert(*rem[i] == seen0[i]); } } }
//@ end

//@ canary
} // verus!
fn main() {}
