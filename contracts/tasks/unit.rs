//@ unit tasks primary=C19 props=C19,C08
// Unit tasks: crates/graphql-loader/src/tasks.rs  — the loader's task table.
// Abstract view: Map<usize, Task>.  `Task` itself is replaced by an OPAQUE type (stated drop): the
// table code is parametric in it (it only moves Task values in and out of the HashMap).
#![allow(unused)]
use vstd::prelude::*;
use std::collections::HashMap;
verus! {

global size_of usize == 8;

/// opaque stand-in for crates/graphql-loader/src/tasks.rs::Task (its fields are never touched by `Tasks`)
#[verifier::external_body]
pub struct Task { _opaque: Box<u8> }

//@ extract crates/graphql-loader/src/tasks.rs :: struct Tasks
//@   pubfields
//@   derive_remove Debug
//@ end

impl Tasks {
    /// abstract view of the table
    pub open spec fn view(&self) -> Map<usize, Task> { self.tasks@ }
    /// representation invariant: ids are issued from a strictly increasing counter starting at 1
    pub open spec fn wf(&self) -> bool {
        &&& self.next_task_id >= 1
        &&& forall|k: usize| self.tasks@.contains_key(k) ==> 1 <= k < self.next_task_id
    }
}

//@ extract crates/graphql-loader/src/tasks.rs :: impl Tasks
//@   fn new
//@   ret r
//@   ensures [C19.tasks.new.wf] r.wf()
//@   ensures [C19.tasks.new.empty] r@ == Map::<usize, Task>::empty()
//@   ensures [C19.tasks.new.first_id] r.next_task_id == 1
//@   fn add_task
//@   ret task_id
//@   requires [C19.tasks.add.pre_wf] old(self).wf()
//@   requires [C19.tasks.add.pre_bound] old(self).next_task_id < usize::MAX
//@   ensures [C19.tasks.add.wf] final(self).wf()
//@   ensures [C19.tasks.add.nonzero] task_id != 0
//@   ensures [C19.tasks.add.fresh] !old(self)@.contains_key(task_id)
//@   ensures [C19.tasks.add.never_reissued] task_id == old(self).next_task_id && final(self).next_task_id == task_id + 1
//@   ensures [C19.tasks.add.frame] final(self)@ == old(self)@.insert(task_id, task)
//@   fn get_task
//@   ret r
//@   ensures [C19.tasks.get.iff] r.is_some() == self@.contains_key(task_id)
//@   ensures [C19.tasks.get.value] r.is_some() ==> *r.unwrap() == self@[task_id]
//@   fn get_task_mut
//@   attr #[verifier::external_body]
//@   fn remove_task
//@   ret r
//@   requires [C19.tasks.remove.pre_wf] old(self).wf()
//@   ensures [C19.tasks.remove.wf] final(self).wf()
//@   ensures [C19.tasks.remove.frame] final(self)@ == old(self)@.remove(task_id)
//@   ensures [C19.tasks.remove.iff] r.is_some() == old(self)@.contains_key(task_id)
//@   ensures [C19.tasks.remove.value] r.is_some() ==> r.unwrap() == old(self)@[task_id]
//@   ensures [C19.tasks.remove.counter_kept] final(self).next_task_id == old(self).next_task_id
//@ end

/// History lemma (C19): after freeing an id, no later add_task returns it again, and a live id is never handed out.
/// Follows from the contracts alone: ids returned are >= the counter at the time, the counter never decreases.
//@ lemma [C19.tasks.history_no_alias] lemma_history
pub proof fn lemma_history(t0: Tasks, freed: usize, t1: Tasks, new_id: usize, t2: Tasks)
    requires
        t0.wf(), t0@.contains_key(freed),
        // remove_task(freed) : t0 -> t1   (its postconditions)
        t1.wf(), t1@ == t0@.remove(freed), t1.next_task_id == t0.next_task_id,
        // add_task : t1 -> t2
        new_id == t1.next_task_id, t2@ == t1@.insert(new_id, t2@[new_id]),
    ensures
        new_id != freed,
        forall|k: usize| t1@.contains_key(k) ==> k != new_id,
{
}

// vacuity guards: preconditions are satisfiable and reachable from `new`
fn vx_vacuity_tasks(t: Task, t2: Task) {
    let mut ts = Tasks::new();
    let a = ts.add_task(t);
    let b = ts.add_task(t2);
    assert(a != b);
    let r = ts.remove_task(a);
    assert(r.is_some());
    let g = ts.get_task(a);
    assert(g.is_none());
    let g2 = ts.get_task(b);
    assert(g2.is_some());
}

//@ canary

} // verus!
fn main() {}
