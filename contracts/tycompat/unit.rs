//@ unit tycompat primary=C03 props=C03,C04,C08
// Unit tycompat: crates/checker/src/common.rs::check_type_compatibility  == GraphQL spec AreTypesCompatible (5.8.5)
#![feature(pattern, allocator_api)]
#![allow(unused)]
use vstd::prelude::*;
use vstd::std_specs::cmp::PartialEqSpec;
verus! {
//@ fragment checker_base.rs
//@ fragment typesys_contracts.rs

use crate::graphql_type_system::r#type::Type;
use crate::nitrogql_ast::base::Pos;

//@ fragment spec_tycompat.rs
//@ fragment contract_tycompat.rs
//@ end

//@ canary
} // verus!
fn main() {}
