//@ unit jsstring primary=C16 props=C16,C08
// Unit jsstring: crates/sourcemap-writer/src/js_string_writer.rs  JsStringWriter (template-literal layer of serverGraphqlOutput)
//  C16: what JsStringWriter::write appends for a chunk is js_esc(indented(chunk)) - the chunk with deferred indentation,
//  with every backslash and backtick escaped and the '{' of a "${" escaped - and (lemma) the cooked value of that text as a
//  JavaScript template-literal body is exactly the indented chunk, for any text without carriage returns.
#![feature(pattern, allocator_api)]
#![allow(unused)]
use vstd::prelude::*;
use vstd::std_specs::cmp::PartialEqSpec;
verus! {
//@ deps
//@ include stdlib_checker.rs
//@ include stdlib_repeat.rs
//@ fragment indent_model.rs
//@ fragment js_model.rs
/// A-LIMIT (trusted): a Rust String / str holds at most isize::MAX bytes
#[verifier::external_body]
pub proof fn axiom_text_limit(s: Seq<char>)
    ensures s.len() <= isize::MAX
{}
use crate::HasPos as _;

//@ extract crates/ast/src/base.rs :: struct Pos
//@   derive_remove Debug,Hash,PartialEq,Eq
//@ end
//@ extract crates/ast/src/base.rs :: trait HasPos
//@ end

//@ extract crates/sourcemap-writer/src/js_string_writer.rs :: struct JsStringWriter
//@   pubfields
//@ end
impl JsStringWriter<'_> {
    pub open spec fn wf(&self) -> bool { self.indent_str@ == spaces(self.indent as nat) }
}

//@ lemma [C16.jsstring.write_step] lemma_js_write_step
pub proof fn lemma_js_write_step(a: Seq<char>, nl: bool, pend: bool, ind: nat, line: Seq<char>)
    requires nl || a.len() == 0, !line.contains('\n')
    ensures ({
        let n = if nl { seq!['\n'] } else { Seq::<char>::empty() };
        let x2 = if line.len() == 0 { Seq::<char>::empty() } else if pend { spaces(ind) + line } else { line };
        let e2 = if line.len() == 0 { Seq::<char>::empty() } else if pend { spaces(ind) + js_esc(line, false) } else { js_esc(line, false) };
        js_esc(a + (n + x2), false) == js_esc(a, false) + n + e2
    })
{
    let n = if nl { seq!['\n'] } else { Seq::<char>::empty() };
    let sp = if line.len() > 0 && pend { spaces(ind) } else { Seq::<char>::empty() };
    let l = if line.len() == 0 { Seq::<char>::empty() } else { line };
    let x2 = if line.len() == 0 { Seq::<char>::empty() } else if pend { spaces(ind) + line } else { line };
    let e2 = if line.len() == 0 { Seq::<char>::empty() } else if pend { spaces(ind) + js_esc(line, false) } else { js_esc(line, false) };
    // 1: the line feed
    let f0 = dollar_after(a, false);
    lemma_js_esc_concat(a, n, false);
    lemma_js_esc_plain(n, f0);
    let a1 = a + n;
    assert(!dollar_after(a1, false)) by { if nl { assert(a1.last() == '\n'); } else { assert(a1 =~= a); } }
    // 2: the indentation
    lemma_js_esc_concat(a1, sp, false);
    lemma_js_esc_plain(sp, false);
    let a2 = a1 + sp;
    assert(!dollar_after(a2, false)) by { if sp.len() > 0 { assert(a2.last() == ' '); } else { assert(a2 =~= a1); } }
    // 3: the line itself
    lemma_js_esc_concat(a2, l, false);
    assert(js_esc(l, false) =~= if line.len() == 0 { Seq::<char>::empty() } else { js_esc(line, false) });
    assert(a + (n + x2) =~= a2 + l);
    assert(sp + js_esc(l, false) =~= e2);
    assert(js_esc(a2 + l, false) =~= js_esc(a, false) + n + (sp + js_esc(l, false)));
}

//@ extract crates/sourcemap-writer/src/js_string_writer.rs :: impl JsStringWriter<'_>
//@   fn new
//@   ret r
//@   ensures [C16.jsstring.new] r.wf() && r.buffer@ == old(buffer)@ + seq!['`', '\n'] && !r.has_indent_flag && r.indent == 0
//@   prefix proof { reveal_strlit("`\n"); assert(spaces(0) =~= Seq::<char>::empty()); }
//@ end

//@ extract crates/sourcemap-writer/src/js_string_writer.rs :: impl SourceMapWriter for JsStringWriter<'_>
//@   rewrite T19 1 "impl SourceMapWriter for JsStringWriter<'_>" => "impl JsStringWriter<'_> /* vx:T19 trait impl -> inherent impl (same bodies; `requires` is not allowed on trait impls) */"
//@   wrap_chain vx_split_char split
//@   enumerate_for
//@   fn indent
//@   requires [C16.jsstring.indent.pre_wf] old(self).wf()
//@   ensures [C16.jsstring.indent.wf] final(self).wf() && final(self).indent == old(self).indent + 2
//@   ensures [C16.jsstring.indent.frame] final(self).buffer@ == old(self).buffer@ && final(self).has_indent_flag == old(self).has_indent_flag
//@   prefix proof { crate::axiom_text_limit(self.indent_str@); reveal_strlit(" "); }
//@   suffix [C16.jsstring.indent.wf#spaces] proof { assert(self.indent_str@ =~= spaces(self.indent as nat)); }
//@   fn dedent
//@   requires [C16.jsstring.dedent.pre_wf] old(self).wf()
//@   ensures [C16.jsstring.dedent.wf] final(self).wf() && final(self).indent == (if old(self).indent >= 2 { old(self).indent - 2 } else { 0 })
//@   ensures [C16.jsstring.dedent.frame] final(self).buffer@ == old(self).buffer@ && final(self).has_indent_flag == old(self).has_indent_flag
//@   prefix proof { reveal_strlit(" "); }
//@   suffix [C16.jsstring.dedent.wf#spaces] proof { assert(self.indent_str@ =~= spaces(self.indent as nat)); }
//@   fn write_for
//@   requires [C16.jsstring.write_for.pre_wf] old(self).wf()
//@   ensures [C16.jsstring.write_for.same_as_write] final(self).wf() && final(self).buffer@ == old(self).buffer@ + js_esc(indented(chunk@, old(self).indent as nat, old(self).has_indent_flag), false) && final(self).has_indent_flag == pending_after(chunk@, old(self).has_indent_flag) && final(self).indent == old(self).indent
//@   fn write
//@   requires [C16.jsstring.write.pre_wf] old(self).wf()
//@   ensures [C16.jsstring.write.wf] final(self).wf()
//@   ensures [C16.jsstring.write.text] final(self).buffer@ == old(self).buffer@ + js_esc(indented(chunk@, old(self).indent as nat, old(self).has_indent_flag), false)
//@   ensures [C16.jsstring.write.pending] final(self).has_indent_flag == pending_after(chunk@, old(self).has_indent_flag)
//@   ensures [C16.jsstring.write.frame] final(self).indent == old(self).indent && final(self).indent_str == old(self).indent_str
//@   loops 2
//@   loop 0 for_continue
//@   loop 0 iter_name it
//@   loop 1 iter_name jt
//@   loop 0 invariant [C16.jsstring.write.inv.pieces] crate::join_sep(crate::str_views(it.seq()), '\n') == chunk@ && (forall|i: int| 0 <= i < it.seq().len() ==> !(#[trigger] it.seq()[i])@.contains('\n')) && 0 <= it.index@ <= it.seq().len() && it.seq().len() >= 1 && it.seq().len() <= usize::MAX && idx__vx == it.index@
//@   loop 0 invariant [C16.jsstring.write.inv.text] self.wf() && self.buffer@ == old(self).buffer@ + js_esc(indented(crate::joined_upto(crate::str_views(it.seq()), '\n', it.index@ as int), old(self).indent as nat, old(self).has_indent_flag), false) && self.has_indent_flag == pending_after(crate::joined_upto(crate::str_views(it.seq()), '\n', it.index@ as int), old(self).has_indent_flag)
//@   loop 0 invariant [C16.jsstring.write.inv.frame] self.indent == old(self).indent && self.indent_str == old(self).indent_str
//@   loop 0 body_invariant [C16.jsstring.write.body.pre] crate::join_sep(crate::str_views(it.seq()), '\n') == chunk@ && (forall|i: int| 0 <= i < it.seq().len() ==> !(#[trigger] it.seq()[i])@.contains('\n')) && 0 <= it.index@ < it.seq().len() && it.seq().len() <= usize::MAX && idx__vx == it.index@ && line == it.seq()[it.index@ as int] && self.wf() && self.buffer@ == old(self).buffer@ + js_esc(indented(crate::joined_upto(crate::str_views(it.seq()), '\n', it.index@ as int), old(self).indent as nat, old(self).has_indent_flag), false) && self.has_indent_flag == pending_after(crate::joined_upto(crate::str_views(it.seq()), '\n', it.index@ as int), old(self).has_indent_flag) && self.indent == old(self).indent && self.indent_str == old(self).indent_str
//@   loop 0 body_ensures [C16.jsstring.write.body.step] idx__vx == it.index@ + 1 && self.wf() && self.buffer@ == old(self).buffer@ + js_esc(indented(crate::joined_upto(crate::str_views(it.seq()), '\n', it.index@ as int + 1), old(self).indent as nat, old(self).has_indent_flag), false) && self.has_indent_flag == pending_after(crate::joined_upto(crate::str_views(it.seq()), '\n', it.index@ as int + 1), old(self).has_indent_flag) && self.indent == old(self).indent && self.indent_str == old(self).indent_str
//@   loop 0 body_prefix let ghost k = it.index@ as int; let ghost p = crate::str_views(it.seq()); let ghost b0 = self.buffer@; let ghost pend0 = old(self).has_indent_flag; let ghost ind = old(self).indent as nat; let ghost pend = if k > 0 { true } else { pend0 }; proof { assert(p[k] == line@); crate::lemma_write_step(p, k, ind, pend0); crate::lemma_js_write_step(indented(crate::joined_upto(p, '\n', k), ind, pend0), k > 0, pend, ind, line@); assert(b0.push('\n') =~= b0 + seq!['\n']); if k == 0 { assert(crate::joined_upto(p, '\n', 0) =~= Seq::<char>::empty()); } }
//@   hint before 0 "let mut dollar_flag = false;" :: [C16.jsstring.write.body.step#line_start] let ghost b2 = self.buffer@; proof { assert(b2 =~= b0 + (if k > 0 { seq!['\n'] } else { Seq::<char>::empty() }) + (if pend { spaces(ind) } else { Seq::<char>::empty() })); assert(js_esc(line@.take(0), false) =~= Seq::<char>::empty()); assert(b2 + Seq::<char>::empty() =~= b2); }
//@   loop 1 invariant [C16.jsstring.write.chars.iter] jt.seq() == line@ && 0 <= jt.index@ <= line@.len()
//@   loop 1 invariant [C16.jsstring.write.chars.text] self.buffer@ == b2 + js_esc(line@.take(jt.index@ as int), false) && dollar_flag == crate::dollar_after(line@.take(jt.index@ as int), false)
//@   loop 1 invariant [C16.jsstring.write.chars.frame] self.wf() && !self.has_indent_flag && self.indent == old(self).indent && self.indent_str == old(self).indent_str
//@   loop 1 invariant [C16.jsstring.write.chars.outer] k == it.index@ && 0 <= k < it.seq().len() && it.seq().len() <= usize::MAX && p == crate::str_views(it.seq()) && line == it.seq()[k] && !line@.contains('\n') && idx__vx == k + 1 && pend0 == old(self).has_indent_flag && ind == old(self).indent as nat && pend == (if k > 0 { true } else { pend0 }) && b0 == old(self).buffer@ + js_esc(indented(crate::joined_upto(p, '\n', k), ind, pend0), false) && b2 == b0 + (if k > 0 { seq!['\n'] } else { Seq::<char>::empty() }) + (if pend { spaces(ind) } else { Seq::<char>::empty() }) && line@.len() > 0 && crate::join_sep(crate::str_views(it.seq()), '\n') == chunk@ && (forall|i: int| 0 <= i < it.seq().len() ==> !(#[trigger] it.seq()[i])@.contains('\n'))
//@   loop 1 prefix let ghost bi = self.buffer@; proof { let i = jt.index@ as int; crate::lemma_js_esc_push(line@.take(i), c, false); assert(line@.take(i + 1) =~= line@.take(i).push(c)); reveal_strlit("\\\\"); reveal_strlit("\\`"); reveal_strlit("\\{"); }
//@   loop 1 suffix [C16.jsstring.write.chars.text#step] proof { assert(self.buffer@ =~= bi + crate::esc1(c, crate::dollar_after(line@.take(jt.index@ as int), false))); }
//@   hint after 0 "dollar_flag = c == '$';\n            }" :: [C16.jsstring.write.body.step#line_end] proof { assert(line@.take(line@.len() as int) =~= line@); assert(p[k] == line@); crate::lemma_write_step(p, k, ind, pend0); let aa = indented(crate::joined_upto(p, '\n', k), ind, pend0); if k == 0 { assert(crate::joined_upto(p, '\n', 0) =~= Seq::<char>::empty()); } crate::lemma_js_write_step(aa, k > 0, pend, ind, line@); let n = if k > 0 { seq!['\n'] } else { Seq::<char>::empty() }; let x2 = if pend { spaces(ind) + line@ } else { line@ }; assert(indented(crate::joined_upto(p, '\n', k + 1), ind, pend0) =~= aa + (n + x2)); assert(self.buffer@ =~= old(self).buffer@ + (js_esc(aa, false) + n + (if pend { spaces(ind) + js_esc(line@, false) } else { js_esc(line@, false) }))); assert(self.buffer@ =~= old(self).buffer@ + js_esc(indented(crate::joined_upto(p, '\n', k + 1), ind, pend0), false)); }
//@ end

//@ canary
} // verus!
fn main() {}
