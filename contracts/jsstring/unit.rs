//@ unit jsstring primary=C16 props=C16,C08
// Unit jsstring: crates/sourcemap-writer/src/js_string_writer.rs  JsStringWriter (template-literal layer of serverGraphqlOutput)
#![feature(pattern, allocator_api)]
#![allow(unused)]
use vstd::prelude::*;
use vstd::std_specs::cmp::PartialEqSpec;
verus! {
//@ fragment printer_base.rs
//@ fragment writer_model.rs
//@ include stdlib_repeat.rs

use crate::sourcemap_writer::writer::SourceMapWriter;
use crate::nitrogql_ast::base::HasPos;

//@ extract crates/sourcemap-writer/src/js_string_writer.rs :: struct JsStringWriter
//@   pubfields
//@ end

//@ canary
} // verus!
fn main() {}
