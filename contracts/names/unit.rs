//@ unit names primary=C06 props=C06,C08
// Unit names: crates/sourcemap-writer/src/source_writer/name_mapper.rs  NameMapper (the "names" array of a source map
// and the name index written into each named segment).
//  C06: the index map_name returns for an identifier always denotes THAT identifier in the final `names` array:
//       names[r] == name, entries are never moved or overwritten (the array only grows), for any call history,
//       no matter what the LRU cache evicts.
#![allow(unused)]
use vstd::prelude::*;
use lru::LruCache;
use std::num::NonZeroUsize;
verus! {
//@ deps

//@ fragment lru_model.rs
//@ extract crates/sourcemap-writer/src/source_writer/name_mapper.rs :: impl NameMapper
//@   fn new
//@   attr #[verifier::external_body]
//@   ret r
//@   ensures [assumed.names.new] r.wf() && r.names() == Seq::<Seq<char>>::empty()
//@   fn into_names
//@   ret r
//@   ensures [C06.names.into_names] r@ == self.all_list@
//@ fragment contract_map_name.rs
//@   prefix proof { crate::axiom_kc_str(name); }
//@   hint before 0 "self.name_cache.put(name_key, new_idx);" :: [C06.names.wf#put] proof { crate::axiom_kc_string(&name_key); assert(name_key@ == name@); assert(self.all_list@[new_idx as int]@ == name@); assert(forall|i: int| 0 <= i < old(self).all_list@.len() ==> self.all_list@[i] == old(self).all_list@[i]); }
//@ end

//@ canary
} // verus!
fn main() {}
