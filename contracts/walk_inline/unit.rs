//@ unit walk_inline primary=C03 props=C03,C04,C08
// Unit walk_inline: crates/checker/src/operation_checker/mod.rs::check_inline_fragment   (one step of the walk)
// Oracle: spec 5.5.1.2 Fragment Spread Type Existence (the type condition names a defined type), 5.7 directives of the
// inline fragment are valid at INLINE_FRAGMENT, and the fragment's selection set is checked against the type condition
// (or against the enclosing type when there is none), including 5.5.2.3 applicability (callee).
#![feature(pattern, allocator_api)]
#![allow(unused)]
use vstd::prelude::*;
use vstd::std_specs::cmp::PartialEqSpec;
verus! {
//@ fragment checker_ops_base.rs
//@ include strmodel.rs
//@ fragment typesys_contracts.rs
//@ fragment schema_view.rs
//@ fragment seenlist.rs
//@ fragment checker_spec.rs
//@ fragment spec_walk.rs
//@ fragment contract_walk_ss.rs
//@   attr #[verifier::external_body]
//@ end
//@ fragment contract_walk_core.rs
//@   attr #[verifier::external_body]
//@ end
//@ fragment contract_check_directives.rs
//@   attr #[verifier::external_body]
//@ end

pub open spec fn def_inline<'a, 'src, S>(fm: &FragmentMap<'a, 'src>, seen: Seq<Seq<char>>, vars: Option<&VariablesDefinition<'src>>, root: TyNode<S>, inl: InlineFragment<'src>, sch: &Schema<S, Pos>) -> bool {
    &&& dirs_valid(sch, vars, inl.directives@, "INLINE_FRAGMENT"@)
    &&& match inl.type_condition {
        None => v_ss(fm, seen, vars, root, inl.selection_set, sch),
        Some(tc) => schema_types(sch).contains_key(tc.name@) && v_core(fm, seen, vars, root, schema_types(sch)[tc.name@], inl.selection_set, sch),
    }
}

//@ contract nitrogql_checker::operation_checker ::fn check_inline_fragment
//@   unexternal
//@   requires [C03+C04.walk.inline.pre_schema_wf] crate::schema_wf(context.definitions)
//@   requires [C03+C04.walk.inline.pre_root_wf] crate::type_fields_args_unique(root_type.inner)
//@   ensures [C03+C04.walk.inline.frame] crate::extends_errs(old(result)@, final(result)@)
//@   ensures [C03+C04.walk.inline.one_step] (final(result)@.len() == old(result)@.len()) <==> crate::def_inline(fragment_map, crate::seen_view(seen_fragments@), variables, *root_type, *inline_fragment, context.definitions)
//@ end

//@ canary
} // verus!
fn main() {}
