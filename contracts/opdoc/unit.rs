//@ unit opdoc primary=C03 props=C03,C04,C08
// Unit opdoc: crates/checker/src/operation_checker/mod.rs::check_operation_document  (the operation `check` verdict)
// Oracle: GraphQL spec 5.2.1.1 Operation Name Uniqueness, 5.2.2.1 Lone Anonymous Operation, 5.5.1.1 Fragment Name
// Uniqueness; every operation / fragment definition is checked by the checker of its kind (callees by contract).
//  C03 (sound): empty diagnostic list ==> the document satisfies these rules and every definition is valid;
//  C04 (complete): the converse.
#![feature(pattern, allocator_api)]
#![allow(unused)]
use vstd::prelude::*;
use vstd::std_specs::cmp::PartialEqSpec;
verus! {
//@ fragment checker_ops_base.rs
//@ include strmodel.rs
//@ fragment typesys_contracts.rs
//@ fragment schema_view.rs
//@ fragment seenlist.rs
//@ fragment checker_spec.rs

use crate::nitrogql_ast::operation::{ExecutableDefinition, OperationDefinition, FragmentDefinition, OperationDocument};
use crate::nitrogql_checker::operation_checker::context::OperationCheckContext;
use crate::nitrogql_checker::operation_checker::fragment_map::FragmentMap;

pub open spec fn is_op(d: ExecutableDefinition) -> bool { d is OperationDefinition }
pub open spec fn op_flags(defs: Seq<ExecutableDefinition>) -> Seq<bool> { Seq::new(defs.len(), |i: int| is_op(defs[i])) }
/// number of operation definitions in the document
pub open spec fn op_count(defs: Seq<ExecutableDefinition>) -> nat { count_true(op_flags(defs)) }
pub open spec fn same_named_op(d: ExecutableDefinition, name: Seq<char>) -> bool {
    d is OperationDefinition && d->OperationDefinition_0.name is Some && d->OperationDefinition_0.name->Some_0.name@ == name
}
pub open spec fn same_named_fragment(d: ExecutableDefinition, name: Seq<char>) -> bool {
    d is FragmentDefinition && d->FragmentDefinition_0.name.name@ == name
}
/// what check_operation decides for one operation (root type, directives, variables, selection sets): the walk over
/// selection sets is outside Verus' reach, so this is an ASSUMED callee verdict
pub uninterp spec fn operation_valid<'a, 'src, S>(fm: &FragmentMap<'a, 'src>, op: &OperationDefinition<'src>, ctx: &OperationCheckContext<'a, 'src, S>) -> bool;
pub uninterp spec fn fragmap_of<'a, 'src>(doc: &'a OperationDocument<'src>) -> FragmentMap<'a, 'src>;

pub open spec fn def_ok<'a, 'src, S>(doc: &'a OperationDocument<'src>, ctx: &OperationCheckContext<'a, 'src, S>, i: int) -> bool {
    let defs = doc.definitions@;
    match defs[i] {
        ExecutableDefinition::OperationDefinition(op) => {
            // 5.2.2.1 Lone Anonymous Operation
            &&& (op.name is None ==> op_count(defs) == 1)
            // 5.2.1.1 Operation Name Uniqueness
            &&& (op.name is Some ==> forall|j: int| 0 <= j < i ==> !same_named_op(#[trigger] defs[j], op.name->Some_0.name@))
            &&& operation_valid(&fragmap_of(doc), &op, ctx)
        },
        ExecutableDefinition::FragmentDefinition(f) => {
            // 5.5.1.1 Fragment Name Uniqueness
            &&& (forall|j: int| 0 <= j < i ==> !same_named_fragment(#[trigger] defs[j], f.name.name@))
            // 5.5.1.2 / 5.5.1.3
            &&& valid_fragment_target(ctx.definitions, &f)
        },
    }
}
pub open spec fn doc_ok_upto<'a, 'src, S>(doc: &'a OperationDocument<'src>, ctx: &OperationCheckContext<'a, 'src, S>, n: int) -> bool {
    forall|i: int| 0 <= i < n ==> #[trigger] def_ok(doc, ctx, i)
}
/// 5.5.1.2 the type condition names a defined type; 5.5.1.3 which is an Object, Interface or Union
pub open spec fn valid_fragment_target<S>(sch: &Schema<S, Pos>, f: &FragmentDefinition) -> bool {
    schema_types(sch).contains_key(f.type_condition.name@) && {
        let d = schema_types(sch)[f.type_condition.name@].inner;
        d is Object || d is Interface || d is Union
    }
}

//@ contract nitrogql_checker::operation_checker::fragment_map ::fn generate_fragment_map
//@   attr #[verifier::external_body]
//@   ret r
//@   ensures [assumed.fragmap.functional] r == crate::fragmap_of(document)
//@ end
//@ contract nitrogql_checker::operation_checker ::fn check_operation
//@   attr #[verifier::external_body]
//@   ensures [assumed.check_operation.frame] crate::extends_errs(old(result)@, final(result)@)
//@   ensures [assumed.check_operation.exact] (final(result)@.len() == old(result)@.len()) <==> crate::operation_valid(fragment_map, op, context)
//@ end
//@ contract nitrogql_checker::operation_checker ::fn check_fragment_definition
//@   attr #[verifier::external_body]
//@   ensures [C03+C04.fragdef.frame] crate::extends_errs(old(result)@, final(result)@)
//@   ensures [C03.fragdef.sound] final(result)@.len() == old(result)@.len() ==> crate::valid_fragment_target(context.definitions, op)
//@   ensures [C04.fragdef.complete] crate::valid_fragment_target(context.definitions, op) ==> final(result)@.len() == old(result)@.len()
//@ end

//@ contract nitrogql_checker::operation_checker ::fn check_operation_document
//@   unexternal
//@   ret r
//@   ensures [C03.opdoc.sound] r@.len() == 0 ==> crate::doc_ok_upto(document, context, document.definitions@.len() as int)
//@   ensures [C04.opdoc.complete] crate::doc_ok_upto(document, context, document.definitions@.len() as int) ==> r@.len() == 0
//@   prefix broadcast use crate::axiom_str_eq; proof { crate::axiom_str_obeys(); }
//@   closure 0 |def: &&ExecutableDefinition<'src>| -> (b: bool) ;; ensures [C03+C04.opdoc.cl_isop] b == crate::is_op(**def)
//@   closure 1 |other: &&ExecutableDefinition<'src>| -> (b: bool) ;; ensures [C03+C04.opdoc.cl_dupop] b == crate::same_named_op(**other, name.name@)
//@   closure 2 |n: crate::nitrogql_ast::base::Ident<'src>| -> (b: bool) ;; ensures [C03+C04.opdoc.cl_name] b == (n.name@ == name.name@)
//@   closure 3 |other: &&ExecutableDefinition<'src>| -> (b: bool) ;; ensures [C03+C04.opdoc.cl_dupfrag] b == crate::same_named_fragment(**other, def.name.name@)
//@   hint after 0 "matches!(def, ExecutableDefinition::OperationDefinition(_))" :: [C03+C04.opdoc.h_count] proof { let defs = document.definitions@; let rem = defs.as_ref(); assert(rem.len() == defs.len()); assert(forall|i: int| 0 <= i < rem.len() ==> *(#[trigger] rem[i]) == defs[i]); assert(operation_num == crate::count_true(crate::op_flags(defs))); }
//@   loops 1
//@   loop 0 iter_name it
//@   loop 0 invariant [C03+C04.opdoc.loop.iter] it.seq().len() == document.definitions@.len() && 0 <= it.index@ <= it.seq().len() && (forall|i: int| 0 <= i < it.seq().len() ==> *it.seq()[i] == document.definitions@[i]) && idx__vx == it.index@
//@   loop 0 invariant [C03+C04.opdoc.loop.ctx] fragment_map == crate::fragmap_of(document) && operation_num == crate::op_count(document.definitions@)
//@   loop 0 invariant [C03+C04.opdoc.loop.exact] (result@.len() == 0) <==> crate::doc_ok_upto(document, context, it.index@ as int)
//@   loop 0 prefix let ghost len_a = result@.len(); let ghost defs = document.definitions@; let ghost rem = defs.as_ref(); proof { crate::axiom_vec_len_bound(&document.definitions); assert(rem.len() == defs.len()); assert(forall|i: int| 0 <= i < rem.len() ==> *(#[trigger] rem[i]) == defs[i]); assert(*def == defs[it.index@ as int]); }
//@   hint before 0 "if let Some(other) = dup {" :: [C03+C04.opdoc.h_dupop] proof { let nm = name.name@; assert(dup is Some <==> exists|j: int| 0 <= j < idx && crate::same_named_op(#[trigger] defs[j], nm)) by { if dup is Some { } else { assert forall|j: int| 0 <= j < idx implies !crate::same_named_op(#[trigger] defs[j], nm) by { assert(rem.take(idx as int)[j] == rem[j]); assert(*rem[j] == defs[j]); } } } }
//@   hint before 1 "if let Some(other) = dup {" :: [C03+C04.opdoc.h_dupfrag] proof { let nm = def.name.name@; assert(dup is Some <==> exists|j: int| 0 <= j < idx && crate::same_named_fragment(#[trigger] defs[j], nm)) by { if dup is Some { } else { assert forall|j: int| 0 <= j < idx implies !crate::same_named_fragment(#[trigger] defs[j], nm) by { assert(rem.take(idx as int)[j] == rem[j]); assert(*rem[j] == defs[j]); } } } }
//@   loop 0 suffix [C03+C04.opdoc.loop.exact#step] proof { let n = it.index@ as int; if len_a == 0 { assert((result@.len() == 0) <==> crate::def_ok(document, context, n)); } }
//@ end

//@ canary
} // verus!
fn main() {}
