//@ unit convtype primary=C03 props=C03,C04,C05,C08
// Unit convtype: crates/semantics/src/type_system_utils.rs::{convert_type, ident_to_node} and the constructors they go
// through (Node::from, NamedType::from, ListType::from, NonNullType::from in crates/type-system).
// The checker units (`value`, `vardefs`, ...) ASSUME `type_matches(convert_type(ty), ty)`: the type-system form of a type
// reference written in a document has the same wrappers in the same order around the same name.  This unit PROVES it on
// the real recursive function, for any nesting depth.  What stays trusted is one line of the Text model: converting a
// `&str` into the generic string type `R: From<&str>` keeps the characters (axiom_text_from).
#![feature(pattern, allocator_api)]
#![allow(unused)]
use vstd::prelude::*;
use vstd::std_specs::cmp::PartialEqSpec;
verus! {
//@ fragment checker_base.rs
//@ include strmodel.rs
//@ fragment typesys_contracts.rs
//@ fragment schema_view.rs

use crate::nitrogql_ast::base::Pos;
use crate::nitrogql_ast::r#type::Type as AstType;
use crate::graphql_type_system::r#type::Type;

// A-STR (trusted): `R::from(s)` for the generic string type of a schema (`R: From<&str>`, e.g. Cow<str>, String, &str)
// has the content of `s`.
#[verifier::external_body]
pub broadcast proof fn axiom_text_from<'src, R: From<&'src str>>(s: &'src str, r: R)
    requires #[trigger] call_ensures(<R as From<&'src str>>::from, (s,), r)
    ensures tv(r) == s@
{}

//@ contract graphql_type_system::node ::fn from
//@   ret r
//@   ensures [C03+C04+C05.convtype.node_from] r.original_node == original_node && call_ensures(Into::<T>::into, (inner,), r.inner)
//@ end
//@ contract graphql_type_system::r#type ::fn from#0
//@   ret r
//@   ensures [C03+C04+C05.convtype.named_from] r.name == name
//@ end
//@ contract graphql_type_system::r#type ::fn from#1
//@   ret r
//@   ensures [C03+C04+C05.convtype.list_from] r.inner == inner
//@ end
//@ contract graphql_type_system::r#type ::fn from#2
//@   ret r
//@   ensures [C03+C04+C05.convtype.nonnull_from] r.inner == inner
//@ end
//@ contract nitrogql_semantics::type_system_utils ::fn ident_to_node
//@   ret r
//@   ensures [C03+C04+C05.convtype.ident_to_node] crate::tv(r.inner) == ident.name@ && r.original_node == ident.position
//@   prefix broadcast use crate::axiom_text_from;
//@ end
//@ fragment contract_convert_type.rs
//@   decreases ty
//@ end

//@ canary
} // verus!
fn main() {}
