//@ unit scalarcfg primary=C09 props=C09,C02,C08
// Unit scalarcfg: crates/config-file/src/{scalar_type.rs,type_target.rs}
// Oracle (nitrogql documentation, "scalarTypes"): a single string applies to all four targets; {send, receive}:
// `send` is what the application SENDS (operation inputs = variables, resolver outputs), `receive` is what it
// RECEIVES (operation outputs = results, resolver inputs = arguments); the 4-field form gives each target its own.
#![allow(unused)]
use vstd::prelude::*;
verus! {

//@ extract crates/config-file/src/type_target.rs :: enum TypeTarget
//@ end
//@ extract crates/config-file/src/scalar_type.rs :: enum ScalarTypeConfig
//@   derive_remove Debug,Clone,PartialEq,Eq,Deserialize
//@   strip_attrs serde
//@ end
//@ extract crates/config-file/src/scalar_type.rs :: struct SendReceiveScalarTypeConfig
//@   derive_remove Debug,Clone,PartialEq,Eq,Deserialize
//@   strip_attrs serde
//@ end
//@ extract crates/config-file/src/scalar_type.rs :: struct SeparateScalarTypeConfig
//@   derive_remove Debug,Clone,PartialEq,Eq,Deserialize
//@   strip_attrs serde
//@ end
//@ extract crates/config-file/src/scalar_type.rs :: struct SeparateScalarTypeConfigRef
//@   derive_remove Debug,Clone,PartialEq,Eq
//@ end

/// direction of data flow for a target, from the application's point of view
pub open spec fn app_sends(t: TypeTarget) -> bool { t is OperationInput || t is ResolverOutput }

pub open spec fn configured_type(c: ScalarTypeConfig, t: TypeTarget) -> Seq<char> {
    match c {
        ScalarTypeConfig::Single(s) => s@,
        ScalarTypeConfig::SendReceive(sr) => if app_sends(t) { sr.send@ } else { sr.receive@ },
        ScalarTypeConfig::Separate(sep) => match t {
            TypeTarget::OperationInput => sep.operation_input@,
            TypeTarget::OperationOutput => sep.operation_output@,
            TypeTarget::ResolverInput => sep.resolver_input@,
            TypeTarget::ResolverOutput => sep.resolver_output@,
        },
    }
}

//@ extract crates/config-file/src/type_target.rs :: impl TypeTarget
//@   fn as_str
//@   ret r
//@   ensures [C09+C02.scalarcfg.target.as_str] r@ == (match *self { TypeTarget::OperationInput => "__OperationInput"@, TypeTarget::OperationOutput => "__OperationOutput"@, TypeTarget::ResolverInput => "__ResolverInput"@, TypeTarget::ResolverOutput => "__ResolverOutput"@ })
//@   fn is_output
//@   ret r
//@   ensures [C09+C02.scalarcfg.target.is_output] r == (*self is OperationOutput || *self is ResolverOutput)
//@   fn is_input
//@   ret r
//@   ensures [C09+C02.scalarcfg.target.is_input] r == (*self is OperationInput || *self is ResolverInput)
//@ end

//@ extract crates/config-file/src/scalar_type.rs :: impl ScalarTypeConfig
//@   fn get_type
//@   ret r
//@   ensures [C09+C02.scalarcfg.get_type] r@ == configured_type(*self, target)
//@   fn type_names
//@   attr #[verifier::external_body]
//@   fn separate_ref
//@   ret r
//@   ensures [C09+C02.scalarcfg.separate_ref] r.operation_input@ == configured_type(*self, TypeTarget::OperationInput) && r.operation_output@ == configured_type(*self, TypeTarget::OperationOutput) && r.resolver_input@ == configured_type(*self, TypeTarget::ResolverInput) && r.resolver_output@ == configured_type(*self, TypeTarget::ResolverOutput)
//@ end

/// the distinct target names are pairwise different (namespaces cannot collide)
//@ lemma [C09+C02.scalarcfg.target.names_distinct] lemma_names_distinct
pub proof fn lemma_names_distinct()
    ensures
        "__OperationInput"@ != "__OperationOutput"@, "__OperationInput"@ != "__ResolverInput"@,
        "__OperationInput"@ != "__ResolverOutput"@, "__OperationOutput"@ != "__ResolverInput"@,
        "__OperationOutput"@ != "__ResolverOutput"@, "__ResolverInput"@ != "__ResolverOutput"@,
{
    reveal_strlit("__OperationInput"); reveal_strlit("__OperationOutput");
    reveal_strlit("__ResolverInput"); reveal_strlit("__ResolverOutput");
    assert("__OperationInput"@[11] == 'I'); assert("__OperationOutput"@[11] == 'O');
    assert("__ResolverInput"@[2] == 'R'); assert("__ResolverOutput"@[2] == 'R');
    assert("__OperationInput"@[2] == 'O'); assert("__OperationOutput"@[2] == 'O');
    assert("__ResolverInput"@[10] == 'I'); assert("__ResolverOutput"@[10] == 'O');
}

//@ canary
} // verus!
fn main() {}
