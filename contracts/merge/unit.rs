//@ unit merge primary=C11 props=C11,C08
// Unit merge: crates/semantics/src/schema_extension_resolver/mod.rs  merge_*_definition (field-by-field concatenation)
//  C11: the merged definition's directives / implemented interfaces / fields / members / values are exactly the original's
//       followed by those of each extension in order - nothing lost, nothing invented, nothing moved to another attribute -
//       and every other attribute (name, position, description, keyword) is the original's.
#![feature(pattern, allocator_api)]
#![allow(unused)]
use vstd::prelude::*;
use vstd::std_specs::cmp::PartialEqSpec;
verus! {
//@ fragment ast_base.rs

use crate::nitrogql_ast::type_system::*;

/// concatenation of a sequence of vectors, in order
pub open spec fn flat<T>(vs: Seq<Vec<T>>) -> Seq<T>
    decreases vs.len()
{
    if vs.len() == 0 { Seq::<T>::empty() } else { flat(vs.drop_last()) + vs.last()@ }
}
// A-ITER (trusted, T16): `a.into_iter().chain(b.into_iter().flatten()).collect()` yields a's items then, vector by
// vector, b's items.  The body is literally that pipeline.
#[verifier::external_body]
pub fn vx_chain_flatten_collect<T>(a: Vec<T>, b: Vec<Vec<T>>) -> (r: Vec<T>)
    ensures r@ == a@ + flat(b@)
{
    a.into_iter().chain(b.into_iter().flatten()).collect()
}

/// items an `impl IntoIterator` argument yields (uninterpreted; for a Vec it is its content)
pub uninterp spec fn into_items<I: IntoIterator>(i: I) -> Seq<I::Item>;
#[verifier::external_body]
pub broadcast proof fn axiom_into_items_vec<T>(v: Vec<T>) ensures #[trigger] into_items::<Vec<T>>(v) == v@ {}

// unzip2 / unzip3 loop over a generic `impl IntoIterator` (no specification possible for the for-loop's iterator in the
// installed Verus): ASSUMED contracts - position i of each output is the corresponding component of f(item i)
//@ extract crates/semantics/src/schema_extension_resolver/mod.rs :: fn unzip2
//@   attr #[verifier::external_body]
//@   ret r
//@   ensures [assumed.unzip2] r.0@.len() == crate::into_items(iter).len() && r.1@.len() == crate::into_items(iter).len() && forall|i: int| 0 <= i < crate::into_items(iter).len() ==> f.ensures((#[trigger] crate::into_items(iter)[i],), (r.0@[i], r.1@[i]))
//@ end
//@ extract crates/semantics/src/schema_extension_resolver/mod.rs :: fn unzip3
//@   attr #[verifier::external_body]
//@   ret r
//@   ensures [assumed.unzip3] r.0@.len() == crate::into_items(iter).len() && r.1@.len() == crate::into_items(iter).len() && r.2@.len() == crate::into_items(iter).len() && forall|i: int| 0 <= i < crate::into_items(iter).len() ==> f.ensures((#[trigger] crate::into_items(iter)[i],), (r.0@[i], r.1@[i], r.2@[i]))
//@ end

pub open spec fn union_ext_members(e: Seq<UnionTypeExtension>) -> Seq<Vec<crate::nitrogql_ast::base::Ident>> { Seq::new(e.len(), |i: int| e[i].members) }
pub open spec fn union_ext_directives(e: Seq<UnionTypeExtension>) -> Seq<Vec<crate::nitrogql_ast::directive::Directive>> { Seq::new(e.len(), |i: int| e[i].directives) }

//@ extract crates/semantics/src/schema_extension_resolver/mod.rs :: fn merge_union_definition
//@   rewrite_re T16 * "(\\w+)\\s*\\.into_iter\\(\\)\\s*\\.chain\\((\\w+)\\.into_iter\\(\\)\\.flatten\\(\\)\\)\\s*\\.collect\\(\\)" => "crate::vx_chain_flatten_collect(\\1, \\2)"
//@   ret r
//@   ensures [C11.merge.union.members] r.members@ == input.0.members@ + crate::flat(crate::union_ext_members(input.1@))
//@   ensures [C11.merge.union.directives] r.directives@ == input.0.directives@ + crate::flat(crate::union_ext_directives(input.1@))
//@   ensures [C11.merge.union.identity] r.name == input.0.name && r.position == input.0.position && r.description == input.0.description && r.union_keyword == input.0.union_keyword
//@   prefix broadcast use crate::axiom_into_items_vec;
//@   closure 0 |ext: UnionTypeExtension<'a>| -> (p: (Vec<crate::nitrogql_ast::base::Ident<'a>>, Vec<crate::nitrogql_ast::directive::Directive<'a>>)) ;; ensures [C11.merge.union.cl] p.0 == ext.members && p.1 == ext.directives
//@   hint before 1 "UnionTypeDefinition {" :: [C11.merge.union.members#ext] proof { assert(ext_members@ =~= crate::union_ext_members(input.1@)); assert(ext_directives@ =~= crate::union_ext_directives(input.1@)); }
//@ end

pub open spec fn object_ext_implements(e: Seq<ObjectTypeExtension>) -> Seq<Vec<crate::nitrogql_ast::base::Ident>> { Seq::new(e.len(), |i: int| e[i].implements) }
pub open spec fn object_ext_fields(e: Seq<ObjectTypeExtension>) -> Seq<Vec<crate::nitrogql_ast::type_system::FieldDefinition>> { Seq::new(e.len(), |i: int| e[i].fields) }
pub open spec fn object_ext_directives(e: Seq<ObjectTypeExtension>) -> Seq<Vec<crate::nitrogql_ast::directive::Directive>> { Seq::new(e.len(), |i: int| e[i].directives) }

//@ extract crates/semantics/src/schema_extension_resolver/mod.rs :: fn merge_object_type_definition
//@   rewrite_re T16 * "(\\w+)\\s*\\.into_iter\\(\\)\\s*\\.chain\\((\\w+)\\.into_iter\\(\\)\\.flatten\\(\\)\\)\\s*\\.collect\\(\\)" => "crate::vx_chain_flatten_collect(\\1, \\2)"
//@   ret r
//@   ensures [C11.merge.object.implements] r.implements@ == input.0.implements@ + crate::flat(crate::object_ext_implements(input.1@))
//@   ensures [C11.merge.object.fields] r.fields@ == input.0.fields@ + crate::flat(crate::object_ext_fields(input.1@))
//@   ensures [C11.merge.object.directives] r.directives@ == input.0.directives@ + crate::flat(crate::object_ext_directives(input.1@))
//@   ensures [C11.merge.object.identity] r.name == input.0.name && r.position == input.0.position && r.description == input.0.description && r.type_keyword == input.0.type_keyword
//@   prefix broadcast use crate::axiom_into_items_vec;
//@   closure 0 |ext: ObjectTypeExtension<'a>| -> (p: (Vec<crate::nitrogql_ast::base::Ident<'a>>, Vec<crate::nitrogql_ast::type_system::FieldDefinition<'a>>, Vec<crate::nitrogql_ast::directive::Directive<'a>>)) ;; ensures [C11.merge.object.cl] p.0 == ext.implements && p.1 == ext.fields && p.2 == ext.directives
//@   hint before 1 "ObjectTypeDefinition {" :: [C11.merge.object.implements#ext] proof { assert(ext_implements@ =~= crate::object_ext_implements(input.1@)); assert(ext_fields@ =~= crate::object_ext_fields(input.1@)); assert(ext_directives@ =~= crate::object_ext_directives(input.1@)); }
//@ end
pub open spec fn interface_ext_implements(e: Seq<InterfaceTypeExtension>) -> Seq<Vec<crate::nitrogql_ast::base::Ident>> { Seq::new(e.len(), |i: int| e[i].implements) }
pub open spec fn interface_ext_fields(e: Seq<InterfaceTypeExtension>) -> Seq<Vec<crate::nitrogql_ast::type_system::FieldDefinition>> { Seq::new(e.len(), |i: int| e[i].fields) }
pub open spec fn interface_ext_directives(e: Seq<InterfaceTypeExtension>) -> Seq<Vec<crate::nitrogql_ast::directive::Directive>> { Seq::new(e.len(), |i: int| e[i].directives) }

//@ extract crates/semantics/src/schema_extension_resolver/mod.rs :: fn merge_interface_definition
//@   rewrite_re T16 * "(\\w+)\\s*\\.into_iter\\(\\)\\s*\\.chain\\((\\w+)\\.into_iter\\(\\)\\.flatten\\(\\)\\)\\s*\\.collect\\(\\)" => "crate::vx_chain_flatten_collect(\\1, \\2)"
//@   ret r
//@   ensures [C11.merge.interface.implements] r.implements@ == input.0.implements@ + crate::flat(crate::interface_ext_implements(input.1@))
//@   ensures [C11.merge.interface.fields] r.fields@ == input.0.fields@ + crate::flat(crate::interface_ext_fields(input.1@))
//@   ensures [C11.merge.interface.directives] r.directives@ == input.0.directives@ + crate::flat(crate::interface_ext_directives(input.1@))
//@   ensures [C11.merge.interface.identity] r.name == input.0.name && r.position == input.0.position && r.description == input.0.description && r.interface_keyword == input.0.interface_keyword
//@   prefix broadcast use crate::axiom_into_items_vec;
//@   closure 0 |ext: InterfaceTypeExtension<'a>| -> (p: (Vec<crate::nitrogql_ast::base::Ident<'a>>, Vec<crate::nitrogql_ast::type_system::FieldDefinition<'a>>, Vec<crate::nitrogql_ast::directive::Directive<'a>>)) ;; ensures [C11.merge.interface.cl] p.0 == ext.implements && p.1 == ext.fields && p.2 == ext.directives
//@   hint before 1 "InterfaceTypeDefinition {" :: [C11.merge.interface.implements#ext] proof { assert(ext_implements@ =~= crate::interface_ext_implements(input.1@)); assert(ext_fields@ =~= crate::interface_ext_fields(input.1@)); assert(ext_directives@ =~= crate::interface_ext_directives(input.1@)); }
//@ end
pub open spec fn enum_ext_values(e: Seq<EnumTypeExtension>) -> Seq<Vec<crate::nitrogql_ast::type_system::EnumValueDefinition>> { Seq::new(e.len(), |i: int| e[i].values) }
pub open spec fn enum_ext_directives(e: Seq<EnumTypeExtension>) -> Seq<Vec<crate::nitrogql_ast::directive::Directive>> { Seq::new(e.len(), |i: int| e[i].directives) }

//@ extract crates/semantics/src/schema_extension_resolver/mod.rs :: fn merge_enum_definition
//@   rewrite_re T16 * "(\\w+)\\s*\\.into_iter\\(\\)\\s*\\.chain\\((\\w+)\\.into_iter\\(\\)\\.flatten\\(\\)\\)\\s*\\.collect\\(\\)" => "crate::vx_chain_flatten_collect(\\1, \\2)"
//@   ret r
//@   ensures [C11.merge.enum.values] r.values@ == input.0.values@ + crate::flat(crate::enum_ext_values(input.1@))
//@   ensures [C11.merge.enum.directives] r.directives@ == input.0.directives@ + crate::flat(crate::enum_ext_directives(input.1@))
//@   ensures [C11.merge.enum.identity] r.name == input.0.name && r.position == input.0.position && r.description == input.0.description && r.enum_keyword == input.0.enum_keyword
//@   prefix broadcast use crate::axiom_into_items_vec;
//@   closure 0 |ext: EnumTypeExtension<'a>| -> (p: (Vec<crate::nitrogql_ast::type_system::EnumValueDefinition<'a>>, Vec<crate::nitrogql_ast::directive::Directive<'a>>)) ;; ensures [C11.merge.enum.cl] p.0 == ext.values && p.1 == ext.directives
//@   hint before 1 "EnumTypeDefinition {" :: [C11.merge.enum.values#ext] proof { assert(ext_values@ =~= crate::enum_ext_values(input.1@)); assert(ext_directives@ =~= crate::enum_ext_directives(input.1@)); }
//@ end
pub open spec fn input_ext_fields(e: Seq<InputObjectTypeExtension>) -> Seq<Vec<crate::nitrogql_ast::type_system::InputValueDefinition>> { Seq::new(e.len(), |i: int| e[i].fields) }
pub open spec fn input_ext_directives(e: Seq<InputObjectTypeExtension>) -> Seq<Vec<crate::nitrogql_ast::directive::Directive>> { Seq::new(e.len(), |i: int| e[i].directives) }

//@ extract crates/semantics/src/schema_extension_resolver/mod.rs :: fn merge_input_object_definition
//@   rewrite_re T16 * "(\\w+)\\s*\\.into_iter\\(\\)\\s*\\.chain\\((\\w+)\\.into_iter\\(\\)\\.flatten\\(\\)\\)\\s*\\.collect\\(\\)" => "crate::vx_chain_flatten_collect(\\1, \\2)"
//@   ret r
//@   ensures [C11.merge.input.fields] r.fields@ == input.0.fields@ + crate::flat(crate::input_ext_fields(input.1@))
//@   ensures [C11.merge.input.directives] r.directives@ == input.0.directives@ + crate::flat(crate::input_ext_directives(input.1@))
//@   ensures [C11.merge.input.identity] r.name == input.0.name && r.position == input.0.position && r.description == input.0.description && r.input_keyword == input.0.input_keyword
//@   prefix broadcast use crate::axiom_into_items_vec;
//@   closure 0 |ext: InputObjectTypeExtension<'a>| -> (p: (Vec<crate::nitrogql_ast::type_system::InputValueDefinition<'a>>, Vec<crate::nitrogql_ast::directive::Directive<'a>>)) ;; ensures [C11.merge.input.cl] p.0 == ext.fields && p.1 == ext.directives
//@   hint before 1 "InputObjectTypeDefinition {" :: [C11.merge.input.fields#ext] proof { assert(ext_fields@ =~= crate::input_ext_fields(input.1@)); assert(ext_directives@ =~= crate::input_ext_directives(input.1@)); }
//@ end
pub open spec fn schema_ext_directives(e: Seq<SchemaExtension>) -> Seq<Vec<crate::nitrogql_ast::directive::Directive>> { Seq::new(e.len(), |i: int| e[i].directives) }
pub open spec fn schema_ext_definitions(e: Seq<SchemaExtension>) -> Seq<Vec<(crate::nitrogql_ast::operation::OperationType, crate::nitrogql_ast::base::Ident)>> { Seq::new(e.len(), |i: int| e[i].definitions) }

//@ extract crates/semantics/src/schema_extension_resolver/mod.rs :: fn merge_schema_definition
//@   rewrite_re T16 * "(\\w+)\\s*\\.into_iter\\(\\)\\s*\\.chain\\((\\w+)\\.into_iter\\(\\)\\.flatten\\(\\)\\)\\s*\\.collect\\(\\)" => "crate::vx_chain_flatten_collect(\\1, \\2)"
//@   ret r
//@   ensures [C11.merge.schema.directives] r.directives@ == input.0.directives@ + crate::flat(crate::schema_ext_directives(input.1@))
//@   ensures [C11.merge.schema.definitions] r.definitions@ == input.0.definitions@ + crate::flat(crate::schema_ext_definitions(input.1@))
//@   ensures [C11.merge.schema.identity] r.position == input.0.position && r.description == input.0.description
//@   prefix broadcast use crate::axiom_into_items_vec;
//@   closure 0 |ext: SchemaExtension<'a>| -> (p: (Vec<crate::nitrogql_ast::directive::Directive<'a>>, Vec<(crate::nitrogql_ast::operation::OperationType, crate::nitrogql_ast::base::Ident<'a>)>)) ;; ensures [C11.merge.schema.cl] p.0 == ext.directives && p.1 == ext.definitions
//@   hint before 1 "SchemaDefinition {" :: [C11.merge.schema.directives#ext] proof { assert(ext_directives@ =~= crate::schema_ext_directives(input.1@)); assert(ext_definitions@ =~= crate::schema_ext_definitions(input.1@)); }
//@ end

// A-ITER (trusted, T16): `a.into_iter().chain(b.into_iter().flat_map(f)).collect()`; stated for ANY sequence of vectors
// that f's postcondition forces (the caller never has to name the closure)
#[verifier::external_body]
pub fn vx_chain_flat_map_collect<T, E, F: FnMut(E) -> Vec<T>>(a: Vec<T>, b: Vec<E>, f: F) -> (r: Vec<T>)
    ensures
        forall|outs: Seq<Vec<T>>| outs.len() == b@.len()
            && (forall|i: int, o: Vec<T>| 0 <= i < outs.len() && f.ensures((b@[i],), o) ==> o == outs[i])
            ==> r@ == a@ + #[trigger] flat(outs),
{
    a.into_iter().chain(b.into_iter().flat_map(f)).collect()
}
pub open spec fn scalar_ext_directives(e: Seq<ScalarTypeExtension>) -> Seq<Vec<crate::nitrogql_ast::directive::Directive>> { Seq::new(e.len(), |i: int| e[i].directives) }

//@ extract crates/semantics/src/schema_extension_resolver/mod.rs :: fn merge_scalar_definition
//@   rewrite_re T16 1 "(\\w+)\\s*\\.into_iter\\(\\)\\s*\\.chain\\((\\w+)\\.into_iter\\(\\)\\.flat_map\\((\\|ext\\| ext\\.directives)\\)\\)\\s*\\.collect\\(\\)" => "crate::vx_chain_flat_map_collect(\\1, \\2, \\3)"
//@   ret r
//@   ensures [C11.merge.scalar.directives] r.directives@ == input.0.directives@ + crate::flat(crate::scalar_ext_directives(input.1@))
//@   ensures [C11.merge.scalar.identity] r.name == input.0.name && r.position == input.0.position && r.description == input.0.description && r.scalar_keyword == input.0.scalar_keyword
//@   closure 0 |ext: ScalarTypeExtension<'a>| -> (p: Vec<crate::nitrogql_ast::directive::Directive<'a>>) ;; ensures [C11.merge.scalar.cl] p == ext.directives
//@   hint before 1 "ScalarTypeDefinition {" :: [C11.merge.scalar.directives#ext] let ghost dirs0 = directives@; let ghost exts0 = extensions@;
//@ end

//@ canary
} // verus!
fn main() {}
