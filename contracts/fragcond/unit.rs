//@ unit fragcond primary=C01 props=C01,C02,C08
// Unit fragcond: crates/printer/src/operation_type_printer/type_printer.rs::check_fragment_condition
// == GraphQL spec DoesFragmentTypeApply(objectType, fragmentType) (6.3.2 CollectFields): decides whether the fields of a
// fragment / inline fragment are part of the result type for a concrete object type.
//  C01: an applicable fragment is never dropped (its fields are in the type);  C02: an inapplicable one never contributes.
#![feature(pattern, allocator_api)]
#![allow(unused)]
use vstd::prelude::*;
use vstd::std_specs::cmp::PartialEqSpec;
verus! {
//@ fragment printer_ops_base.rs
//@ include strmodel.rs
//@ fragment typesys_contracts.rs
//@ fragment schema_view.rs

use crate::graphql_type_system::schema::Schema;
use crate::graphql_type_system::definitions::{TypeDefinition, ObjectDefinition};
use crate::graphql_type_system::node::Node;
use crate::nitrogql_ast::base::Pos;

pub open spec fn has_name<S>(v: Seq<Node<S, Pos>>, n: Seq<char>) -> bool {
    exists|i: int| 0 <= i < v.len() && tv(#[trigger] v[i].inner) == n
}
/// DoesFragmentTypeApply(objectType, fragmentType):
///  - fragmentType is an Object type: true iff it is the same type;
///  - an Interface type: true iff objectType is an implementation of it (declares it; transitive interfaces must be
///    declared explicitly in a valid schema);
///  - a Union type: true iff objectType is a possible type of it.
pub open spec fn does_fragment_type_apply<S>(sch: &Schema<S, Pos>, object: ObjectDefinition<S, Pos>, fragment_type: Seq<char>) -> bool {
    match schema_types(sch)[fragment_type].inner {
        TypeDefinition::Object(o) => tv(object.name.inner) == tv(o.name.inner),
        TypeDefinition::Interface(i) => has_name(object.interfaces@, tv(i.name.inner)),
        TypeDefinition::Union(u) => has_name(u.possible_types@, tv(object.name.inner)),
        _ => false,
    }
}

//@ contract nitrogql_printer::operation_type_printer::type_printer ::fn check_fragment_condition
//@   ret r
//@   requires [C01+C02.fragcond.pre_condition_type_known] crate::schema_types(context.schema).contains_key(cond@)
//@   ensures [C01.fragcond.applicable_kept] crate::does_fragment_type_apply(context.schema, *object_def, cond@) ==> r
//@   ensures [C02.fragcond.inapplicable_dropped] r ==> crate::does_fragment_type_apply(context.schema, *object_def, cond@)
//@   prefix broadcast use crate::text_model; proof { crate::axiom_text_obeys::<S>(); }
//@   closure 0 |imp: &Node<S, Pos>| -> (b: bool) ;; ensures [C01+C02.fragcond.cl_iface] b == (crate::tv(imp.inner) == crate::tv(interface.name.inner))
//@   closure 1 |mem: &Node<S, Pos>| -> (b: bool) ;; ensures [C01+C02.fragcond.cl_union] b == (crate::tv(mem.inner) == crate::tv(object_def.name.inner))
//@   wrap_arm 0 1 :: [C01.fragcond.applicable_kept#iface] proof { let rem = object_def.interfaces@.as_ref(); if !r__ { assert forall|k: int| 0 <= k < object_def.interfaces@.len() implies crate::tv(#[trigger] object_def.interfaces@[k].inner) != crate::tv(interface.name.inner) by { assert(*rem[k] == object_def.interfaces@[k]); } } }
//@   wrap_arm 0 2 :: [C01.fragcond.applicable_kept#union] proof { let rem = union.possible_types@.as_ref(); if !r__ { assert forall|k: int| 0 <= k < union.possible_types@.len() implies crate::tv(#[trigger] union.possible_types@[k].inner) != crate::tv(object_def.name.inner) by { assert(*rem[k] == union.possible_types@[k]); } } }
//@ end

//@ canary
} // verus!
fn main() {}
