//@ unit vardefs_ts primary=C09 props=C09,C08
// Unit vardefs_ts: crates/printer/src/operation_type_printer/type_printer.rs::get_type_for_variable_definitions
// C09: the Variables type has one readonly key per declared variable, named as the variable; the key is optional (and
// admits undefined) iff the variable's type is nullable AND allowUndefinedAsOptionalInput is on; its type is the exact
// wrapper rendering (unit tstype) of the declared type over Schema.__OperationInput.<Named>.
// The per-variable member is proved as the contract of the closure passed to `.map()` (obligation C09.vardefs_ts.member);
// that the collected vector consists of exactly those members is NOT provable here: inside a generic function Verus
// does not relate `iter().map(f).collect()` to `f` (measured; the same expression verifies in a non-generic function).
#![feature(pattern, allocator_api)]
#![allow(unused)]
use vstd::prelude::*;
use vstd::std_specs::cmp::PartialEqSpec;
verus! {
//@ fragment printer_ops_base.rs

use crate::nitrogql_ast::r#type::{Type, NamedType};
use crate::nitrogql_ast::variable::VariableDefinition;
use crate::nitrogql_printer::ts_types::{TSType, ObjectField};

// ---- shared with unit tstype (same definitions)
pub open spec fn leaf_of(t: Type) -> NamedType
    decreases t
{
    match t {
        Type::Named(n) => n,
        Type::List(li) => leaf_of(li.r#type),
        Type::NonNull(n) => leaf_of(n.r#type),
    }
}
pub open spec fn renders_outer(res: TSType, t: Type, leaf: TSType) -> bool
    decreases t, 1nat
{
    if t is NonNull { renders_inner(res, t, leaf) }
    else { res matches TSType::Union(v) && v@.len() == 2 && v@[1] is Null && renders_inner(v@[0], t, leaf) }
}
pub open spec fn renders_inner(res: TSType, t: Type, leaf: TSType) -> bool
    decreases t, 0nat
{
    match t {
        Type::Named(_) => res == leaf,
        Type::List(li) => res matches TSType::Array(b) && renders_outer(*b, li.r#type, leaf),
        Type::NonNull(n) => renders_inner(res, n.r#type, leaf),
    }
}
// callee by contract (PROVED in unit tstype, assumed here)
//@ contract nitrogql_printer::ts_types::type_to_ts_type ::fn get_ts_type_of_type
//@   attr #[verifier::external_body]
//@   ret res
//@   requires [C09.vardefs_ts.assumed_tstype.pre] forall|n: &NamedType| map_name.requires((n,))
//@   ensures [C09.vardefs_ts.assumed_tstype] exists|o: TSType| map_name.ensures((&crate::leaf_of(*ty),), o) && crate::renders_outer(res, *ty, o)
//@ end

// ---- assumed contracts of ts_union / ts_intersection (bodies use chain / fold / dedup_by)
pub uninterp spec fn items_of<I>(i: I) -> Seq<TSType>;
#[verifier::external_body]
pub broadcast proof fn axiom_items_of_vec(v: Vec<TSType>)
    ensures #[trigger] items_of(v) == v@
{}
/// `r` is the intersection type of the given member types (abstract: the members' conjunction)
pub uninterp spec fn is_intersection_of(members: Seq<TSType>, r: TSType) -> bool;
//@ contract nitrogql_printer::ts_types::ts_types_util ::fn ts_union
//@   attr #[verifier::external_body]
//@   ret r
//@   ensures [C09.vardefs_ts.assumed_ts_union] ({ let s = crate::items_of(types); &&& (s.len() == 0 ==> r is Never) &&& (s.len() == 1 ==> r == s[0]) &&& (s.len() >= 2 ==> (r matches TSType::Union(v) && v@ == s)) })
//@ end
//@ contract nitrogql_printer::ts_types::ts_types_util ::fn ts_intersection
//@   attr #[verifier::external_body]
//@   ret r
//@   ensures [C09.vardefs_ts.assumed_ts_intersection] crate::is_intersection_of(crate::items_of(types), r)
//@ end
// A-FMT (trusted): TypeTarget's Display writes as_str()
#[verifier::external_body]
pub broadcast proof fn axiom_type_target_to_string(t: &crate::nitrogql_config_file::type_target::TypeTarget, r: String)
    requires #[trigger] call_ensures(<crate::nitrogql_config_file::type_target::TypeTarget as std::string::ToString>::to_string, (t,), r)
    ensures r@ == (match *t {
        crate::nitrogql_config_file::type_target::TypeTarget::OperationInput => "__OperationInput"@,
        crate::nitrogql_config_file::type_target::TypeTarget::OperationOutput => "__OperationOutput"@,
        crate::nitrogql_config_file::type_target::TypeTarget::ResolverInput => "__ResolverInput"@,
        crate::nitrogql_config_file::type_target::TypeTarget::ResolverOutput => "__ResolverOutput"@ })
{}

//@ contract nitrogql_ast::r#type ::fn is_nonnull
//@   ret r
//@   ensures [C09.vardefs_ts.is_nonnull] r == (*self is NonNull)
//@ end
//@ contract nitrogql_printer::ts_types ::fn empty_object
//@   ret r
//@   ensures [C09.vardefs_ts.empty_object] r matches TSType::Object(v) && v@.len() == 0
//@ end
// vstd attaches `obeys_from_spec() ==> r == from_spec(v)` to every From impl; no functional spec is claimed here
impl<'a> vstd::std_specs::convert::FromSpecImpl<&'a str> for crate::nitrogql_printer::ts_types::ObjectKey {
    open spec fn obeys_from_spec() -> bool { false }
    open spec fn from_spec(v: &'a str) -> Self { arbitrary() }
}
//@ contract nitrogql_printer::ts_types ::fn from#4
//@   ret r
//@   ensures [C09.vardefs_ts.object_key_from_str] r.name@ == value@
//@ end

// ---------------------------------------------------------------- oracle
/// the leaf of a variable's type refers to the schema declaration's INPUT namespace: <ns>.__OperationInput.<Named>
pub open spec fn input_leaf(ns: Seq<char>, named: NamedType, leaf: TSType) -> bool {
    leaf matches TSType::NamespaceMember3(a, b, c) && a@ == ns && b@ == "__OperationInput"@ && c@ == named.name.name@
}
/// the object-type member generated for one variable definition
pub open spec fn variable_member(allow_undefined: bool, ns: Seq<char>, def: VariableDefinition, t: TSType) -> bool {
    t matches TSType::Object(fields) && fields@.len() == 1 && ({
        let f = fields@[0];
        let optional = !(def.r#type is NonNull) && allow_undefined;
        &&& f.key.name@ == def.name.name@
        &&& f.readonly
        &&& f.optional == optional
        &&& exists|leaf: TSType| input_leaf(ns, leaf_of(def.r#type), leaf) && (
                if optional { f.r#type matches TSType::Union(v) && v@.len() == 2 && v@[1] is Undefined && renders_outer(v@[0], def.r#type, leaf) }
                else { renders_outer(f.r#type, def.r#type, leaf) })
    })
}

//@ contract nitrogql_printer::operation_type_printer::type_printer ::fn get_type_for_variable_definitions
//@   ret r
//@   ensures [C09.vardefs_ts.empty_or_intersection] (r matches TSType::Object(v) && v@.len() == 0) || exists|members: Seq<TSType>| crate::is_intersection_of(members, r)
//@   prefix broadcast use crate::axiom_items_of_vec; broadcast use crate::axiom_type_target_to_string; broadcast use crate::axiom_str_to_string; broadcast use crate::axiom_ident_to_string; broadcast use crate::axiom_string_from_str;
//@   closure 0 |def: &crate::nitrogql_ast::variable::VariableDefinition| -> (t: TSType) ;; ensures [C09.vardefs_ts.member] crate::variable_member(context.options.allow_undefined_as_optional_input, context.options.schema_root_namespace@, *def, t)
//@   closure 1 |name: &crate::nitrogql_ast::r#type::NamedType| -> (leaf: TSType) ;; ensures [C09.vardefs_ts.leaf] crate::input_leaf(context.options.schema_root_namespace@, *name, leaf)
//@   hint before 0 "if types_for_each_field.is_empty() {" :: [C09.vardefs_ts.empty_or_intersection#witness] proof { let members = types_for_each_field@; assert(crate::items_of(types_for_each_field) == members); }
//@ end

//@ canary
} // verus!
fn main() {}
