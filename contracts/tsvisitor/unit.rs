//@ unit tsvisitor primary=C14 props=C14,C08
// Unit tsvisitor: crates/printer/src/operation_type_printer/visitor.rs  (the .d.graphql.ts declaration side) and
// crates/printer/src/operation_base_printer/mod.rs::operation_variable_name.
// C14: the declaration file declares `[export|declare] const <name>` with exactly the name the shared print context
// carries (which is what the JavaScript module exports, unit jsvisitor), `export` iff the context says exported, and
// the default export names the same operation variable.
#![feature(pattern, allocator_api)]
#![allow(unused)]
use vstd::prelude::*;
use vstd::std_specs::cmp::PartialEqSpec;
verus! {
//@ fragment printer_ops_base.rs
//@ fragment writer_model.rs

use crate::nitrogql_ast::operation::{FragmentDefinition, OperationDefinition, OperationType};
use crate::nitrogql_printer::ts_types::TSType;
use crate::nitrogql_printer::operation_base_printer::options::OperationBasePrinterOptions;
use std::collections::HashMap;

pub uninterp spec fn operation_runtime_text(op: OperationDefinition, fragments: HashMap<&str, &FragmentDefinition>) -> Seq<char>;
pub uninterp spec fn fragment_runtime_text(f: FragmentDefinition, fragments: HashMap<&str, &FragmentDefinition>) -> Seq<char>;
/// printed text of a TSType (TSType::print_type is outside Verus' reach: enumerate)
pub uninterp spec fn ts_text(t: TSType) -> Seq<char>;
/// capitalize() is outside Verus' reach (chain): abstract but functional
pub uninterp spec fn capitalized(s: Seq<char>) -> Seq<char>;

//@ contract nitrogql_printer::operation_js_printer::printers ::fn print_operation_runtime
//@   ensures [C14.tsvisitor.assumed_operation_runtime] final(writer).out() == old(writer).out() + crate::operation_runtime_text(*operation, *fragments)
//@ end
//@ contract nitrogql_printer::operation_js_printer::printers ::fn print_fragment_runtime
//@   ensures [C14.tsvisitor.assumed_fragment_runtime] final(writer).out() == old(writer).out() + crate::fragment_runtime_text(*fragment, *fragments)
//@ end
//@ contract nitrogql_printer::ts_types ::fn print_type
//@   attr #[verifier::external_body]
//@   ensures [C14.tsvisitor.assumed_print_type] final(writer).out() == old(writer).out() + crate::ts_text(*self)
//@ end
//@ contract nitrogql_utils::capitalize ::fn capitalize
//@   attr #[verifier::external_body]
//@   ret r
//@   ensures [C14.tsvisitor.assumed_capitalize] r@ == crate::capitalized(s@)
//@ end

pub open spec fn export_kw(exported: bool) -> Seq<char> { if exported { "export "@ } else { Seq::<char>::empty() } }
pub open spec fn default_export_out(o: Seq<char>, var_name: Seq<char>) -> Seq<char> {
    o + "export { "@ + var_name + " as default };\n\n"@
}
/// All "text" specs below are written as appends to the text already written (left-nested `+`), which is the
/// shape the writer calls produce; `o` is the writer's text before the call.
pub open spec fn app_if(o: Seq<char>, c: bool, s: Seq<char>) -> Seq<char> { if c { o + s } else { o } }
/// `[export |declare ]` in front of the runtime constant
pub open spec fn app_const_kw(o: Seq<char>, exported: bool, print_values: bool) -> Seq<char> {
    if exported { o + "export "@ } else if !print_values { o + "declare "@ } else { o }
}
pub open spec fn ts_fragment_out(o: Seq<char>, exported: bool, print_values: bool, type_name: Seq<char>, var_name: Seq<char>, ty: Seq<char>, runtime: Seq<char>) -> Seq<char> {
    let a = app_if(o, exported, "export "@) + "type "@ + type_name + " = "@ + ty + ";\n\n"@;
    let b = app_const_kw(a, exported, print_values) + "const "@ + var_name + ": "@ + "TypedDocumentNode<"@ + type_name + ", never>"@;
    if !print_values { b + ";\n\n"@ } else { b + " = "@ + runtime + " as unknown as TypedDocumentNode<"@ + type_name + ", never>;\n\n"@ }
}
pub open spec fn ts_operation_out(o: Seq<char>, export_result: bool, export_input: bool, exported: bool, print_values: bool,
        result_name: Seq<char>, input_name: Seq<char>, var_name: Seq<char>, result_ty: Seq<char>, input_ty: Seq<char>, runtime: Seq<char>) -> Seq<char> {
    let a = app_if(o, export_result, "export "@) + "type "@ + result_name + " = "@ + result_ty + ";\n\n"@;
    let b = app_if(a, export_input, "export "@) + "type "@ + input_name + " = "@ + input_ty + ";\n\n"@;
    let c = app_const_kw(b, exported, print_values) + "const "@ + var_name + ": "@ + "TypedDocumentNode<"@ + result_name + ", "@ + input_name;
    if !print_values { c + ">;\n\n"@ } else { c + "> = "@ + runtime + " as unknown as TypedDocumentNode<"@ + result_name + ", "@ + input_name + ">;\n\n"@ }
}

pub open spec fn variable_suffix(o: OperationBasePrinterOptions, t: OperationType) -> Seq<char> {
    match t {
        OperationType::Query => o.query_variable_suffix@,
        OperationType::Mutation => o.mutation_variable_suffix@,
        OperationType::Subscription => o.subscription_variable_suffix@,
    }
}

//@ contract nitrogql_printer::operation_type_printer::visitor ::fn print_default_exported_operation_definition
//@   ensures [C14.tsvisitor.default_export] final(writer).out() == crate::default_export_out(old(writer).out(), context.operation_names.operation_variable_name@)
//@ end

//@ contract nitrogql_printer::operation_type_printer::visitor ::fn print_fragment_definition
//@   ensures [C14.tsvisitor.fragment] (context.var_name@ == context.fragment.name.name@ + self.options.base_options.fragment_variable_suffix@) ==> exists|ty: Seq<char>| final(writer).out() == crate::ts_fragment_out(old(writer).out(), context.exported, self.options.print_values, context.fragment.name.name@ + self.options.fragment_type_suffix@, context.var_name@, ty, crate::fragment_runtime_text(*context.fragment, *context.fragments))
//@   prefix broadcast use crate::str_of_axioms;
//@   hint before 0 "return;" :: [C14.tsvisitor.fragment#declare_exit] proof { if context.var_name@ == context.fragment.name.name@ + self.options.base_options.fragment_variable_suffix@ { assert(writer.out() == crate::ts_fragment_out(old(writer).out(), context.exported, self.options.print_values, context.fragment.name.name@ + self.options.fragment_type_suffix@, context.var_name@, crate::ts_text(fragment_type), crate::fragment_runtime_text(*context.fragment, *context.fragments))); } }
//@   hint after 0 "writer.write(\", never>;\\n\\n\");" :: [C14.tsvisitor.fragment#value_exit] proof { if context.var_name@ == context.fragment.name.name@ + self.options.base_options.fragment_variable_suffix@ { assert(writer.out() == crate::ts_fragment_out(old(writer).out(), context.exported, self.options.print_values, context.fragment.name.name@ + self.options.fragment_type_suffix@, context.var_name@, crate::ts_text(fragment_type), crate::fragment_runtime_text(*context.fragment, *context.fragments))); } }
//@ end

//@ contract nitrogql_printer::operation_type_printer::visitor ::fn print_operation_definition
//@   ensures [C14.tsvisitor.operation] exists|rt: Seq<char>, it: Seq<char>| final(writer).out() == crate::ts_operation_out(old(writer).out(), context.export_result_type, context.export_input_type, context.exported, self.options.print_values, context.operation_names.operation_name@ + self.options.operation_result_type_suffix@, context.operation_names.operation_name@ + self.options.variables_type_suffix@, context.operation_names.operation_variable_name@, rt, it, crate::operation_runtime_text(*context.operation, *context.fragments))
//@   prefix broadcast use crate::str_of_axioms;
//@   hint before 0 "return;" :: [C14.tsvisitor.operation#declare_exit] proof { assert(writer.out() == crate::ts_operation_out(old(writer).out(), context.export_result_type, context.export_input_type, context.exported, self.options.print_values, context.operation_names.operation_name@ + self.options.operation_result_type_suffix@, context.operation_names.operation_name@ + self.options.variables_type_suffix@, context.operation_names.operation_variable_name@, crate::ts_text(operation_type), crate::ts_text(input_variable_type), crate::operation_runtime_text(*context.operation, *context.fragments))); }
//@   hint after 1 "writer.write(\">;\\n\\n\");" :: [C14.tsvisitor.operation#value_exit] proof { assert(writer.out() == crate::ts_operation_out(old(writer).out(), context.export_result_type, context.export_input_type, context.exported, self.options.print_values, context.operation_names.operation_name@ + self.options.operation_result_type_suffix@, context.operation_names.operation_name@ + self.options.variables_type_suffix@, context.operation_names.operation_variable_name@, crate::ts_text(operation_type), crate::ts_text(input_variable_type), crate::operation_runtime_text(*context.operation, *context.fragments))); }
//@ end

/// operation constant name = (capitalised?) operation name ++ the suffix configured for the operation kind
//@ contract nitrogql_printer::operation_base_printer ::fn operation_variable_name
//@   ret r
//@   ensures [C14.tsvisitor.opnames.operation_name] r.operation_name@ == (match operation.name { Some(n) => if options.capitalize_operation_names { crate::capitalized(n.name@) } else { n.name@ }, None => Seq::<char>::empty() })
//@   closure 0 |name: crate::nitrogql_ast::base::Ident| -> (s: String) ;; ensures [C14.tsvisitor.opnames.cl_cap] s@ == crate::capitalized(name.name@)
//@   closure 1 |name: crate::nitrogql_ast::base::Ident| -> (s: String) ;; ensures [C14.tsvisitor.opnames.cl_plain] s@ == name.name@
//@   ensures [C14.tsvisitor.opnames.variable_name] r.operation_variable_name@ == r.operation_name@ + crate::variable_suffix(*options, operation.operation_type)
//@   prefix broadcast use crate::str_of_axioms;
//@ end

//@ canary
} // verus!
fn main() {}
