//@ unit filestore primary=C06 props=C06,C08
// Unit filestore: crates/cli/src/file_store.rs  FileStore (the table behind the `sources` indices of emitted source maps
// and behind diagnostics' file numbers).
//  C06: an index handed out by add_file denotes that file for the rest of the run: get_file(i) returns exactly the
//       (path, content, kind) that was added, indices already issued never change, schema files come first.
#![feature(allocator_api)]
#![allow(unused)]
use vstd::prelude::*;
use std::path::{Path, PathBuf};
verus! {
#[verifier::external_type_specification]
#[verifier::external_body]
pub struct ExPathBuf(std::path::PathBuf);
// A-STD (trusted): leaking a boxed str keeps its content
pub assume_specification [std::string::String::into_boxed_str] (s: std::string::String) -> (r: std::boxed::Box<str>)
    ensures r@ == s@;
pub uninterp spec fn same_content<T: ?Sized>(a: &T, b: &T) -> bool;
#[verifier::external_body]
pub broadcast proof fn axiom_same_content_str(a: &str, b: &str) ensures #[trigger] same_content::<str>(a, b) == (a@ == b@) {}
pub assume_specification<'a, T: ?Sized, A: std::alloc::Allocator> [std::boxed::Box::<T, A>::leak] (b: Box<T, A>) -> (r: &'a mut T)
    where A: 'a
    ensures same_content::<T>(&*b, &*r);

//@ extract crates/cli/src/file_store.rs :: enum FileKind
//@   attr item #[derive(Structural)]
//@ end
//@ extract crates/cli/src/file_store.rs :: struct FileStore
//@   pubfields
//@   derive_remove Debug
//@ end

pub type FileEntry = (PathBuf, &'static str, FileKind);
impl FileStore {
    /// all files in index order: schema files first, then operation files
    pub open spec fn files(&self) -> Seq<FileEntry> { self.schema_files@ + self.operation_files@ }
}

//@ extract crates/cli/src/file_store.rs :: impl FileStore
//@   fn new
//@   ret r
//@   ensures [C06.filestore.new] r.files() == Seq::<FileEntry>::empty()
//@   fn add_file
//@   ret r
//@   requires [C06.filestore.add.pre_schema_before_operations] !(old(self).operation_files@.len() > 0 && kind is Schema)
//@   requires [C06.filestore.add.pre_bound] old(self).files().len() < usize::MAX
//@   ensures [C06.filestore.add.index_denotes_file] r == old(self).files().len() && final(self).files().len() == r + 1 && final(self).files()[r as int].0 == path && final(self).files()[r as int].1@ == content@ && final(self).files()[r as int].2 == kind
//@   ensures [C06.filestore.add.issued_indices_stable] forall|i: int| 0 <= i < old(self).files().len() ==> #[trigger] final(self).files()[i] == old(self).files()[i]
//@   ensures [C06.filestore.add.schema_first] kind is Schema ==> final(self).schema_files@.len() == old(self).schema_files@.len() + 1
//@   prefix broadcast use crate::axiom_same_content_str;
//@   fn get_file
//@   ret r
//@   ensures [C06.filestore.get] r == (if index < self.files().len() { Some(&self.files()[index as int]) } else { None })
//@   rewrite_re T-DROP 1 "(?s)    /// Iterate over all files\\..*?\\n    \\}\\n\\n" => "    /* vx: fn iter dropped (returns `impl Iterator`: Verus internal error on opaque types; chain/enumerate) */\n\n"
//@   fn schema_len
//@   ret r
//@   ensures [C06.filestore.schema_len] r == self.schema_files@.len()
//@ end

//@ canary
} // verus!
fn main() {}
