//@ unit jsvisitor primary=C14 props=C14,C08
// Unit jsvisitor: crates/printer/src/operation_js_printer/visitor.rs  (the JavaScript module the bundler loader emits)
// and the value-export names of the declaration side that share its context.
// C14: the identifier written after `const` / in `export { .. as default }` is exactly the name carried by the
// shared print context, and `export` is written iff the context says the definition is exported.
#![feature(pattern, allocator_api)]
#![allow(unused)]
use vstd::prelude::*;
use vstd::std_specs::cmp::PartialEqSpec;
verus! {
//@ fragment printer_ops_base.rs
//@ fragment writer_model.rs

use crate::nitrogql_ast::operation::{FragmentDefinition, OperationDefinition};
use std::collections::HashMap;

/// text of the runtime DocumentNode JSON (produced by functions outside Verus' reach: chain / json_writer)
pub uninterp spec fn operation_runtime_text(op: OperationDefinition, fragments: HashMap<&str, &FragmentDefinition>) -> Seq<char>;
pub uninterp spec fn fragment_runtime_text(f: FragmentDefinition, fragments: HashMap<&str, &FragmentDefinition>) -> Seq<char>;

//@ contract nitrogql_printer::operation_js_printer::printers ::fn print_operation_runtime
//@   ensures [C14.jsvisitor.assumed_operation_runtime] final(writer).out() == old(writer).out() + crate::operation_runtime_text(*operation, *fragments)
//@ end
//@ contract nitrogql_printer::operation_js_printer::printers ::fn print_fragment_runtime
//@   ensures [C14.jsvisitor.assumed_fragment_runtime] final(writer).out() == old(writer).out() + crate::fragment_runtime_text(*fragment, *fragments)
//@ end

pub open spec fn export_kw(exported: bool) -> Seq<char> { if exported { "export "@ } else { Seq::<char>::empty() } }

/// JS module text for one operation: `[export ]const <variable name> = <runtime>;`
pub open spec fn js_operation_text(exported: bool, var_name: Seq<char>, runtime: Seq<char>) -> Seq<char> {
    export_kw(exported) + "const "@ + var_name + " = "@ + runtime + ";\n\n"@
}
pub open spec fn default_export_text(var_name: Seq<char>) -> Seq<char> {
    "export { "@ + var_name + " as default };\n\n"@
}

//@ contract nitrogql_printer::operation_js_printer::visitor ::fn print_operation_definition
//@   ensures [C14.jsvisitor.operation] final(writer).out() == old(writer).out() + crate::js_operation_text(context.exported, context.operation_names.operation_variable_name@, crate::operation_runtime_text(*context.operation, *context.fragments))
//@ end
//@ contract nitrogql_printer::operation_js_printer::visitor ::fn print_fragment_definition
//@   ensures [C14.jsvisitor.fragment] final(writer).out() == old(writer).out() + crate::js_operation_text(context.exported, context.var_name@, crate::fragment_runtime_text(*context.fragment, *context.fragments))
//@ end
//@ contract nitrogql_printer::operation_js_printer::visitor ::fn print_default_exported_operation_definition
//@   ensures [C14.jsvisitor.default_export] final(writer).out() == old(writer).out() + crate::default_export_text(context.operation_names.operation_variable_name@)
//@ end

//@ canary
} // verus!
fn main() {}
