//@ unit gqlstring primary=C16 props=C16,C08
// Unit gqlstring: crates/printer/src/graphql_printer/utils.rs::print_string  (GraphQL string literal layer of the
// server schema string: descriptions and default values).
// Oracle: the GraphQL specification's StringValue lexical grammar (2.9.4) - what ANY GraphQL parser (and nitrogql's own
// grammar.pest, which transcribes it) reads back from the emitted literal.
//  C16: lexing the literal that print_string writes yields exactly the string it was given.
#![feature(pattern, allocator_api)]
#![allow(unused)]
use vstd::prelude::*;
use vstd::std_specs::cmp::PartialEqSpec;
verus! {
//@ fragment printer_base.rs
//@ fragment writer_model.rs
//@ include stdlib_gqlstring.rs
//@ include stdlib_repeat.rs

use crate::sourcemap_writer::writer::SourceMapWriter;

// ------------------------------------------------------------------ StringValue (non-block) lexer, spec 2.9.4
/// EscapedCharacter :: one of  " \ / b f n r t
pub open spec fn esc_char(c: char) -> Option<char> {
    if c == '"' { Some('"') } else if c == '\\' { Some('\\') } else if c == '/' { Some('/') }
    else if c == 'b' { Some('\u{8}') } else if c == 'f' { Some('\u{c}') } else if c == 'n' { Some('\n') }
    else if c == 'r' { Some('\r') } else if c == 't' { Some('\t') } else { None }
}
pub open spec fn cons_opt(c: char, r: Option<Seq<char>>) -> Option<Seq<char>> {
    match r { Some(s) => Some(seq![c] + s), None => None }
}
/// value of the characters between the quotes of a `"..."` literal; None = not a well formed StringValue body
/// (an unescaped quote would end the literal early; a raw line terminator is not a StringCharacter;
/// \uXXXX escapes are not modelled: print_string emits them only for control characters, excluded below)
pub open spec fn lex_body(t: Seq<char>) -> Option<Seq<char>>
    decreases t.len()
{
    if t.len() == 0 { Some(Seq::<char>::empty()) }
    else if t[0] == '"' || t[0] == '\n' || t[0] == '\r' { None }
    else if t[0] == '\\' {
        if t.len() < 2 { None } else {
            match esc_char(t[1]) { Some(c) => cons_opt(c, lex_body(t.skip(2))), None => None }
        }
    } else { cons_opt(t[0], lex_body(t.skip(1))) }
}
pub open spec fn lex_string(lit: Seq<char>) -> Option<Seq<char>> {
    if lit.len() >= 2 && lit[0] == '"' && lit.last() == '"' { lex_body(lit.subrange(1, lit.len() - 1)) } else { None }
}

// ------------------------------------------------------------------ BlockString scanner, spec 2.9.4 (raw value, before
// BlockStringValue()'s indentation handling):
//     BlockStringCharacter :: SourceCharacter but not `"""` or `\"""`  |  `\"""`        (`\"""` denotes `"""`)
// written as the left-to-right scanner every implementation uses: `pend` = characters read but not yet committed
// because they may still become part of a `"""` terminator or a `\"""` escape.
pub enum Pend { P0, Q1, Q2, B0, B1, B2 }
pub enum Scan { Open(Seq<char>, Pend), Closed(Seq<char>), Error }
pub open spec fn pend_text(p: Pend) -> Seq<char> {
    match p {
        Pend::P0 => Seq::<char>::empty(), Pend::Q1 => seq!['"'], Pend::Q2 => seq!['"', '"'],
        Pend::B0 => seq!['\\'], Pend::B1 => seq!['\\', '"'], Pend::B2 => seq!['\\', '"', '"'],
    }
}
pub open spec fn scan_step(st: Scan, c: char) -> Scan {
    match st {
        Scan::Open(v, p) =>
            if c == '"' {
                match p {
                    Pend::P0 => Scan::Open(v, Pend::Q1),
                    Pend::Q1 => Scan::Open(v, Pend::Q2),
                    Pend::Q2 => Scan::Closed(v),                                   // `"""`: end of the literal
                    Pend::B0 => Scan::Open(v, Pend::B1),
                    Pend::B1 => Scan::Open(v, Pend::B2),
                    Pend::B2 => Scan::Open(v + seq!['"', '"', '"'], Pend::P0),     // `\"""` denotes `"""`
                }
            } else if c == '\\' { Scan::Open(v + pend_text(p), Pend::B0) }
            else { Scan::Open(v + pend_text(p) + seq![c], Pend::P0) },
        Scan::Closed(_) => Scan::Error,                                           // text after the terminator
        Scan::Error => Scan::Error,
    }
}
/// scanner state after reading t (t = the text that follows the opening `"""`)
pub open spec fn scan(t: Seq<char>) -> Scan
    decreases t.len()
{
    if t.len() == 0 { Scan::Open(Seq::<char>::empty(), Pend::P0) } else { scan_step(scan(t.drop_last()), t.last()) }
}
pub open spec fn starts3(t: Seq<char>) -> bool { t.len() >= 3 && t[0] == '"' && t[1] == '"' && t[2] == '"' }
/// raw value of a block string literal, if `lit` is exactly one well formed block string token
pub open spec fn lex_block(lit: Seq<char>) -> Option<Seq<char>> {
    if starts3(lit) { match scan(lit.skip(3)) { Scan::Closed(v) => Some(v), _ => None } } else { None }
}
/// what a GraphQL lexer reads back from the literal
pub open spec fn lex_literal(lit: Seq<char>) -> Option<Seq<char>> {
    if starts3(lit) { lex_block(lit) } else { lex_string(lit) }
}

pub open spec fn is_control(c: char) -> bool { (c as u32) <= 0x1f || (0x7f <= (c as u32) && (c as u32) <= 0x9f) }
/// domain of the contract: the `\u{..}` rendering of other control characters goes through format!, whose result
/// is uninterpreted in Verus
pub open spec fn no_control(s: Seq<char>) -> bool {
    forall|i: int| 0 <= i < s.len() ==> (!is_control(#[trigger] s[i]) || s[i] == '\n' || s[i] == '\r')
}

// ------------------------------------------------------------------ KNOWN FINDINGS (see /verif/known_findings.json): region
// of inputs for which print_string is known NOT to round-trip on the pinned tree.  The contract below is an obligation
// everywhere outside this region; each part of the region has a witness input that is re-run on every check.
pub open spec fn has_qb(s: Seq<char>) -> bool { s.contains('"') || s.contains('\\') }
pub open spec fn known_defect_region(s: Seq<char>) -> bool {
    // KF-C16-1: printed in the escaped "..." form (no line feed) and contains a quote or a backslash: neither is escaped
    (!s.contains('\n') && has_qb(s))
    // KF-C16-2: printed as a block string (contains a line feed) and ends with a quote or a backslash: the closing
    // delimiter is mis-read
    || (s.contains('\n') && s.len() > 0 && (s.last() == '"' || s.last() == '\\'))
}
pub proof fn lemma_has_qb_push(s: Seq<char>, c: char)
    ensures has_qb(s.push(c)) == (has_qb(s) || c == '"' || c == '\\'),
{
    let t = s.push(c);
    if has_qb(s) {
        let j = choose|j: int| 0 <= j < s.len() && (s[j] == '"' || s[j] == '\\');
        assert(t[j] == s[j]);
    }
    if c == '"' || c == '\\' { assert(t[s.len() as int] == c); }
    if has_qb(t) {
        let j = choose|j: int| 0 <= j < t.len() && (t[j] == '"' || t[j] == '\\');
        if j < s.len() { assert(s[j] == t[j]); }
    }
}

// ------------------------------------------------------------------ proof plumbing
pub proof fn lemma_lex_concat(a: Seq<char>, b: Seq<char>)
    requires lex_body(a) is Some,
    ensures lex_body(a + b) == (match lex_body(b) { Some(vb) => Some(lex_body(a)->Some_0 + vb), None => None }),
    decreases a.len()
{
    if a.len() == 0 {
        assert(a + b =~= b);
        if lex_body(b) is Some { assert(Seq::<char>::empty() + lex_body(b)->Some_0 =~= lex_body(b)->Some_0); }
    } else if a[0] == '\\' {
        assert((a + b).skip(2) =~= a.skip(2) + b);
        lemma_lex_concat(a.skip(2), b);
        let c = esc_char(a[1])->Some_0;
        if lex_body(b) is Some {
            assert(seq![c] + (lex_body(a.skip(2))->Some_0 + lex_body(b)->Some_0) =~= (seq![c] + lex_body(a.skip(2))->Some_0) + lex_body(b)->Some_0);
        }
    } else {
        assert((a + b).skip(1) =~= a.skip(1) + b);
        lemma_lex_concat(a.skip(1), b);
        if lex_body(b) is Some {
            assert(seq![a[0]] + (lex_body(a.skip(1))->Some_0 + lex_body(b)->Some_0) =~= (seq![a[0]] + lex_body(a.skip(1))->Some_0) + lex_body(b)->Some_0);
        }
    }
}
pub proof fn lemma_lex_one(e: Seq<char>, c: char)
    requires
        (e =~= seq![c] && c != '"' && c != '\\' && c != '\n' && c != '\r')
        || (e.len() == 2 && e[0] == '\\' && esc_char(e[1]) == Some(c)),
    ensures lex_body(e) == Some(seq![c]),
{
    reveal_with_fuel(lex_body, 3);
    if e.len() == 2 {
        assert(e.skip(2) =~= Seq::<char>::empty());
        assert(seq![c] + Seq::<char>::empty() =~= seq![c]);
    } else {
        assert(e.skip(1) =~= Seq::<char>::empty());
        assert(seq![c] + Seq::<char>::empty() =~= seq![c]);
    }
}
/// one loop step of the single-line branch: the text lexed so far, extended by the rendering of character c
pub proof fn lemma_single_step(r0: Seq<char>, r1: Seq<char>, v: Seq<char>, c: char)
    requires
        r0.len() >= 1,
        lex_body(r0.skip(1)) == Some(v),
        r0.len() <= r1.len(),
        r1.take(r0.len() as int) == r0,
        lex_body(r1.skip(r0.len() as int)) == Some(seq![c]),
    ensures lex_body(r1.skip(1)) == Some(v.push(c)),
{
    let e = r1.skip(r0.len() as int);
    assert(r1.skip(1) =~= r0.skip(1) + e);
    lemma_lex_concat(r0.skip(1), e);
    assert(v + seq![c] =~= v.push(c));
}
pub proof fn lemma_scan_push(t: Seq<char>, c: char)
    ensures scan(t.push(c)) == scan_step(scan(t), c),
{
    assert(t.push(c).drop_last() =~= t);
}
pub open spec fn quotes(n: int) -> Seq<char> { Seq::new(n as nat, |i: int| '"') }
/// block branch, `quotes(dq) + [c]` appended (c not a quote, dq <= 2) from a state whose pending part is empty or `\`
pub proof fn lemma_scan_flush_char(t: Seq<char>, v: Seq<char>, p: Pend, dq: int, c: char)
    requires scan(t) == Scan::Open(v, p), p is P0 || p is B0, 0 <= dq <= 2, c != '"',
    ensures
        scan(t + quotes(dq) + seq![c]) == (if c == '\\' { Scan::Open(v + pend_text(p) + quotes(dq), Pend::B0) }
                                            else { Scan::Open(v + pend_text(p) + quotes(dq) + seq![c], Pend::P0) }),
{
    let q = quotes(dq);
    if dq == 0 {
        assert(t + q + seq![c] =~= t.push(c));
        lemma_scan_push(t, c);
        assert(v + pend_text(p) + q =~= v + pend_text(p));
    } else if dq == 1 {
        assert(t + q + seq![c] =~= t.push('"').push(c));
        lemma_scan_push(t, '"');
        lemma_scan_push(t.push('"'), c);
        assert(pend_text(p) + q =~= (if p is P0 { pend_text(Pend::Q1) } else { pend_text(Pend::B1) }));
        assert(v + pend_text(p) + q =~= v + (pend_text(p) + q));
    } else {
        assert(t + q + seq![c] =~= t.push('"').push('"').push(c));
        lemma_scan_push(t, '"');
        lemma_scan_push(t.push('"'), '"');
        lemma_scan_push(t.push('"').push('"'), c);
        assert(pend_text(p) + q =~= (if p is P0 { pend_text(Pend::Q2) } else { pend_text(Pend::B2) }));
        assert(v + pend_text(p) + q =~= v + (pend_text(p) + q));
    }
}
/// block branch, `\"""` appended
pub proof fn lemma_scan_esc3(t: Seq<char>, v: Seq<char>, p: Pend)
    requires scan(t) == Scan::Open(v, p), p is P0 || p is B0,
    ensures scan(t + seq!['\\', '"', '"', '"']) == Scan::Open(v + pend_text(p) + seq!['"', '"', '"'], Pend::P0),
{
    assert(t + seq!['\\', '"', '"', '"'] =~= t.push('\\').push('"').push('"').push('"'));
    lemma_scan_push(t, '\\');
    lemma_scan_push(t.push('\\'), '"');
    lemma_scan_push(t.push('\\').push('"'), '"');
    lemma_scan_push(t.push('\\').push('"').push('"'), '"');
}
/// block branch, closing `"""` appended to a state with nothing pending
pub proof fn lemma_scan_close(t: Seq<char>, v: Seq<char>)
    requires scan(t) == Scan::Open(v, Pend::P0),
    ensures scan(t + seq!['"', '"', '"']) == Scan::Closed(v),
{
    assert(t + seq!['"', '"', '"'] =~= t.push('"').push('"').push('"'));
    lemma_scan_push(t, '"');
    lemma_scan_push(t.push('"'), '"');
    lemma_scan_push(t.push('"').push('"'), '"');
}
/// block-branch invariant: the text written after the opening `"""` scans (without terminator) to the consumed
/// prefix of s minus the quotes still buffered in dq_count; nothing but a trailing backslash is pending.
pub open spec fn block_inv(r: Seq<char>, consumed: Seq<char>, dq: int) -> bool {
    r.len() >= 3 && r[0] == '"' && r[1] == '"' && r[2] == '"' && 0 <= dq <= 2
    && match scan(r.skip(3)) {
        Scan::Open(v, p) => (p is P0 || p is B0) && v + pend_text(p) + quotes(dq) == consumed,
        _ => false,
    }
}
pub proof fn lemma_block_init(r: Seq<char>)
    requires r =~= seq!['"', '"', '"'],
    ensures block_inv(r, Seq::<char>::empty(), 0),
{
    assert(r.skip(3) =~= Seq::<char>::empty());
    assert(Seq::<char>::empty() + pend_text(Pend::P0) + quotes(0) =~= Seq::<char>::empty());
}
/// path "c is not a quote": the buffered quotes and c are written
pub proof fn lemma_block_char(r0: Seq<char>, r1: Seq<char>, consumed: Seq<char>, dq: int, c: char)
    requires block_inv(r0, consumed, dq), c != '"', r1 =~= r0 + quotes(dq) + seq![c],
    ensures block_inv(r1, consumed.push(c), 0),
{
    let t = r0.skip(3);
    match scan(t) {
        Scan::Open(v, p) => {
            lemma_scan_flush_char(t, v, p, dq, c);
            assert(r1.skip(3) =~= t + quotes(dq) + seq![c]);
            if c == '\\' {
                assert(v + pend_text(p) + quotes(dq) + pend_text(Pend::B0) + quotes(0) =~= consumed.push(c));
            } else {
                assert(v + pend_text(p) + quotes(dq) + seq![c] + pend_text(Pend::P0) + quotes(0) =~= consumed.push(c));
            }
        },
        _ => {},
    }
}
/// path "c is a quote", fewer than three buffered afterwards: nothing is written
pub proof fn lemma_block_quote(r0: Seq<char>, consumed: Seq<char>, dq: int)
    requires block_inv(r0, consumed, dq), dq + 1 < 3,
    ensures block_inv(r0, consumed.push('"'), dq + 1),
{
    match scan(r0.skip(3)) {
        Scan::Open(v, p) => {
            assert(quotes(dq + 1) =~= quotes(dq).push('"'));
            assert(v + pend_text(p) + quotes(dq + 1) =~= consumed.push('"'));
        },
        _ => {},
    }
}
/// path "third quote": `\"""` is written
pub proof fn lemma_block_triple(r0: Seq<char>, r1: Seq<char>, consumed: Seq<char>)
    requires block_inv(r0, consumed, 2), r1 =~= r0 + seq!['\\', '"', '"', '"'],
    ensures block_inv(r1, consumed.push('"'), 0),
{
    let t = r0.skip(3);
    match scan(t) {
        Scan::Open(v, p) => {
            lemma_scan_esc3(t, v, p);
            assert(r1.skip(3) =~= t + seq!['\\', '"', '"', '"']);
            assert(quotes(2) =~= seq!['"', '"']);
            assert(v + pend_text(p) + seq!['"', '"', '"'] + pend_text(Pend::P0) + quotes(0) =~= consumed.push('"'));
        },
        _ => {},
    }
}
/// after the loop: no quote is buffered and no backslash pending => the closing delimiter terminates the literal
pub proof fn lemma_block_close(r0: Seq<char>, r1: Seq<char>, s: Seq<char>)
    requires block_inv(r0, s, 0), s.len() == 0 || s.last() != '\\', r1 =~= r0 + seq!['"', '"', '"'],
    ensures lex_literal(r1) == Some(s),
{
    let t = r0.skip(3);
    match scan(t) {
        Scan::Open(v, p) => {
            assert(v + pend_text(p) + quotes(0) =~= v + pend_text(p));
            if p is B0 { assert((v + pend_text(p)).last() == '\\'); }
            assert(v + pend_text(Pend::P0) =~= v);
            lemma_scan_close(t, v);
            assert(r1.skip(3) =~= t + seq!['"', '"', '"']);
        },
        _ => {},
    }
}

//@ extract crates/printer/src/graphql_printer/utils.rs :: fn print_string
//@   requires [C16.gqlstring.pre_no_control] crate::no_control(s@)
//@   ensures [C16.gqlstring.literal_roundtrip] !crate::known_defect_region(s@) ==> exists|lit: Seq<char>| final(writer).out() == old(writer).out() + lit && crate::lex_literal(lit) == Some(s@)
//@   prefix proof { crate::axiom_pat_char('\n'); crate::axiom_pat_char('"'); crate::axiom_pat_char('\\'); }
//@   loops 2
//@   loop 0 for_continue
//@   loop 0 iter_name it
//@   loop 0 invariant [C16.gqlstring.block.inv] it.seq() == s@ && 0 <= it.index@ <= s@.len() && crate::block_inv(result@, s@.take(it.index@ as int), dq_count as int)
//@   loop 0 body_invariant [C16.gqlstring.block.body_pre] it.seq() == s@ && 0 <= it.index@ < s@.len() && c == s@[it.index@ as int] && crate::block_inv(result@, s@.take(it.index@ as int), dq_count as int)
//@   loop 0 body_ensures [C16.gqlstring.block.body_step] crate::block_inv(result@, s@.take(it.index@ as int + 1), dq_count as int)
//@   loop 0 body_prefix let ghost r0 = result@; let ghost dq0 = dq_count as int; let ghost i = it.index@ as int; proof { assert(s@.take(i + 1) =~= s@.take(i).push(c)); reveal_strlit("\\\"\"\""); reveal_strlit("\""); }
//@   hint before 0 "let mut dq_count: usize = 0;" :: [C16.gqlstring.block.inv#init] proof { reveal_strlit("\"\"\""); crate::lemma_block_init(result@); assert(s@.take(0) =~= Seq::<char>::empty()); }
//@   hint before 0 "continue;" :: [C16.gqlstring.block.body_step#char] proof { assert(result@ =~= r0 + crate::quotes(dq0) + seq![c]); crate::lemma_block_char(r0, result@, s@.take(i), dq0, c); }
//@   hint before 0 "if dq_count == 3 {" :: [C16.gqlstring.block.body_step#quote] proof { if dq0 + 1 < 3 { crate::lemma_block_quote(r0, s@.take(i), dq0); } }
//@   hint after 1 "dq_count = 0;" :: [C16.gqlstring.block.body_step#triple] proof { crate::lemma_block_triple(r0, result@, s@.take(i)); }
//@   loop 1 iter_name it
//@   loop 1 invariant [C16.gqlstring.single.inv] it.seq() == s@ && 0 <= it.index@ <= s@.len() && crate::no_control(s@) && (!crate::has_qb(s@.take(it.index@ as int)) ==> result@.len() >= 1 && result@[0] == '"' && crate::lex_body(result@.skip(1)) == Some(s@.take(it.index@ as int)))
//@   loop 1 prefix let ghost r0 = result@; proof { reveal_strlit("\\r"); reveal_strlit("\\n"); reveal_strlit("\\\""); reveal_strlit("\\\\"); }
//@   loop 1 suffix [C16.gqlstring.single.inv#step] proof { let i = it.index@ as int; assert(c == s@[i]); assert(s@.take(i + 1) =~= s@.take(i).push(c)); crate::lemma_has_qb_push(s@.take(i), c); if !crate::has_qb(s@.take(i + 1)) { assert(result@.take(r0.len() as int) =~= r0); crate::lemma_lex_one(result@.skip(r0.len() as int), c); crate::lemma_single_step(r0, result@, s@.take(i), c); } }
//@   hint before 1 "if dq_count > 0 {" :: [C16.gqlstring.literal_roundtrip#noquote] proof { assert(s@.take(s@.len() as int) =~= s@); match crate::scan(result@.skip(3)) { crate::Scan::Open(v, p) => { if dq_count > 0 { assert((v + crate::pend_text(p) + crate::quotes(dq_count as int)).last() == '"'); } }, _ => {} } }
//@   hint before 1 "result.push_str(\"\\\"\\\"\\\"\");" :: [C16.gqlstring.literal_roundtrip#snap] let ghost rb = result@;
//@   hint after 1 "result.push_str(\"\\\"\\\"\\\"\");" :: [C16.gqlstring.literal_roundtrip#close] proof { reveal_strlit("\"\"\""); if !crate::known_defect_region(s@) { crate::lemma_block_close(rb, result@, s@); } }
//@   hint before 1 "result.push('\"');" :: [C16.gqlstring.literal_roundtrip#snap1] let ghost rl = result@;
//@   hint after 1 "result.push('\"');" :: [C16.gqlstring.literal_roundtrip#single] proof { let lit = result@; assert(s@.take(s@.len() as int) =~= s@); if !crate::has_qb(s@) { assert(lit.subrange(1, lit.len() - 1) =~= rl.skip(1)); assert(!crate::starts3(lit)); assert(crate::lex_literal(lit) == Some(s@)); } }
//@   suffix [C16.gqlstring.literal_roundtrip#exit] proof { assert(final(writer).out() == old(writer).out() + result@); }
//@ end

// ------------------------------------------------------------------ verified witness writer (also a non-vacuity check of
// the writer model) and exec oracle for replay, PROVED equal to the spec lexer above
pub struct BufWriter { pub s: String }
impl SourceMapWriter for BufWriter {
    open spec fn out(&self) -> Seq<char> { self.s@ }
    fn write(&mut self, chunk: &str) { self.s.push_str(chunk); }
    fn write_for(&mut self, chunk: &str, node: &impl crate::nitrogql_ast::base::HasPos) { self.s.push_str(chunk); }
    fn indent(&mut self) {}
    fn dedent(&mut self) {}
}

pub fn esc_char_exec(c: char) -> (r: Option<char>)
    ensures r == esc_char(c)
{
    if c == '"' { Some('"') } else if c == '\\' { Some('\\') } else if c == '/' { Some('/') }
    else if c == 'b' { Some('\u{8}') } else if c == 'f' { Some('\u{c}') } else if c == 'n' { Some('\n') }
    else if c == 'r' { Some('\r') } else if c == 't' { Some('\t') } else { None }
}
proof fn lemma_lex_none_suffix(a: Seq<char>, b: Seq<char>)
    requires lex_body(a) is Some, lex_body(b) is None,
    ensures lex_body(a + b) is None,
{
    lemma_lex_concat(a, b);
}
pub fn lex_body_exec(t: &Vec<char>, lo: usize, hi: usize) -> (r: Option<Vec<char>>)
    requires lo <= hi <= t.len(),
    ensures
        r is Some <==> lex_body(t@.subrange(lo as int, hi as int)) is Some,
        r is Some ==> r->Some_0@ == lex_body(t@.subrange(lo as int, hi as int))->Some_0,
{
    let ghost body = t@.subrange(lo as int, hi as int);
    let mut v: Vec<char> = Vec::new();
    let mut i = lo;
    proof { assert(body.take(0) =~= Seq::<char>::empty()); }
    while i < hi
        invariant
            lo <= i <= hi <= t.len(), body == t@.subrange(lo as int, hi as int),
            lex_body(body.take(i - lo)) == Some(v@),
        decreases hi - i
    {
        let c = t[i];
        let ghost pre = body.take(i - lo);
        let ghost rest = body.skip(i - lo);
        proof { assert(pre + rest =~= body); assert(rest[0] == c); }
        if c == '"' || c == '\n' || c == '\r' {
            proof { lemma_lex_none_suffix(pre, rest); }
            return None;
        }
        if c == '\\' {
            if i + 1 >= hi {
                proof { assert(rest.len() < 2); lemma_lex_none_suffix(pre, rest); }
                return None;
            }
            let e = esc_char_exec(t[i + 1]);
            proof { assert(rest[1] == t@[i + 1]); }
            match e {
                Some(x) => {
                    proof {
                        let tok = body.subrange(i - lo, i - lo + 2);
                        lemma_lex_one(tok, x);
                        lemma_lex_concat(pre, tok);
                        assert(body.take(i - lo + 2) =~= pre + tok);
                        assert(v@ + seq![x] =~= v@.push(x));
                    }
                    v.push(x);
                    i += 2;
                },
                None => {
                    proof { lemma_lex_none_suffix(pre, rest); }
                    return None;
                },
            }
        } else {
            proof {
                let tok = body.subrange(i - lo, i - lo + 1);
                assert(tok =~= seq![c]);
                lemma_lex_one(tok, c);
                lemma_lex_concat(pre, tok);
                assert(body.take(i - lo + 1) =~= pre + tok);
                assert(v@ + seq![c] =~= v@.push(c));
            }
            v.push(c);
            i += 1;
        }
    }
    proof { assert(body.take(hi - lo) =~= body); }
    Some(v)
}
pub enum PendX { P0, Q1, Q2, B0, B1, B2 }
pub open spec fn pendx(p: PendX) -> Pend {
    match p { PendX::P0 => Pend::P0, PendX::Q1 => Pend::Q1, PendX::Q2 => Pend::Q2, PendX::B0 => Pend::B0, PendX::B1 => Pend::B1, PendX::B2 => Pend::B2 }
}
fn push_pend(v: &mut Vec<char>, p: &PendX)
    ensures final(v)@ == old(v)@ + pend_text(pendx(*p)),
{
    let ghost v0 = v@;
    match p {
        PendX::P0 => { assert(v0 + pend_text(Pend::P0) =~= v0); },
        PendX::Q1 => { v.push('"'); assert(v@ =~= v0 + pend_text(Pend::Q1)); },
        PendX::Q2 => { v.push('"'); v.push('"'); assert(v@ =~= v0 + pend_text(Pend::Q2)); },
        PendX::B0 => { v.push('\\'); assert(v@ =~= v0 + pend_text(Pend::B0)); },
        PendX::B1 => { v.push('\\'); v.push('"'); assert(v@ =~= v0 + pend_text(Pend::B1)); },
        PendX::B2 => { v.push('\\'); v.push('"'); v.push('"'); assert(v@ =~= v0 + pend_text(Pend::B2)); },
    }
}
/// exec block-string scanner over t[3..]
pub fn lex_block_exec(t: &Vec<char>) -> (r: Option<Vec<char>>)
    requires starts3(t@),
    ensures
        r is Some <==> lex_block(t@) is Some,
        r is Some ==> r->Some_0@ == lex_block(t@)->Some_0,
{
    let ghost body = t@.skip(3);
    let mut v: Vec<char> = Vec::new();
    let mut p = PendX::P0;
    let mut closed = false;
    let mut i: usize = 3;
    proof { assert(body.take(0) =~= Seq::<char>::empty()); }
    while i < t.len()
        invariant
            3 <= i <= t.len(), body == t@.skip(3),
            scan(body.take(i - 3)) == (if closed { Scan::Closed(v@) } else { Scan::Open(v@, pendx(p)) }),
        decreases t.len() - i
    {
        let c = t[i];
        proof {
            assert(body.take(i - 3 + 1) =~= body.take(i - 3).push(c));
            lemma_scan_push(body.take(i - 3), c);
        }
        if closed {
            // text after the terminator: Error, and Error is absorbing
            proof { lemma_scan_error_absorbing(body, i - 3 + 1); assert(body.take(body.len() as int) =~= body); }
            return None;
        }
        let ghost v0 = v@;
        if c == '"' {
            match p {
                PendX::P0 => { p = PendX::Q1; },
                PendX::Q1 => { p = PendX::Q2; },
                PendX::Q2 => { closed = true; p = PendX::P0; },
                PendX::B0 => { p = PendX::B1; },
                PendX::B1 => { p = PendX::B2; },
                PendX::B2 => { v.push('"'); v.push('"'); v.push('"'); p = PendX::P0; assert(v@ =~= v0 + seq!['"', '"', '"']); },
            }
        } else if c == '\\' {
            push_pend(&mut v, &p);
            p = PendX::B0;
        } else {
            push_pend(&mut v, &p);
            v.push(c);
            assert(v@ =~= v0 + pend_text(pendx(p)) + seq![c]);
            p = PendX::P0;
        }
        i += 1;
    }
    proof { assert(body.take(t.len() - 3) =~= body); }
    if closed { Some(v) } else { None }
}
proof fn lemma_scan_error_absorbing(t: Seq<char>, k: int)
    requires 0 <= k <= t.len(), scan(t.take(k)) is Error,
    ensures scan(t) is Error,
    decreases t.len() - k
{
    if k == t.len() { assert(t.take(k) =~= t); } else {
        assert(t.take(k + 1) =~= t.take(k).push(t[k]));
        lemma_scan_push(t.take(k), t[k]);
        lemma_scan_error_absorbing(t, k + 1);
    }
}
pub fn lex_literal_exec(t: &Vec<char>) -> (r: Option<Vec<char>>)
    ensures
        r is Some <==> lex_literal(t@) is Some,
        r is Some ==> r->Some_0@ == lex_literal(t@)->Some_0,
{
    if t.len() >= 3 && t[0] == '"' && t[1] == '"' && t[2] == '"' {
        lex_block_exec(t)
    } else if t.len() >= 2 && t[0] == '"' && t[t.len() - 1] == '"' {
        lex_body_exec(t, 1, t.len() - 1)
    } else { None }
}

//@ canary
} // verus!

//@ replay
// Replay driver (plain Rust, compiled only with `verus --compile`): runs the REAL extracted print_string into the
// witness writer and lexes its output with the verified oracle.  argv: <clause-id> <seed> [<input as JSON string>]
fn vx_json(s: &str) -> String {
    let mut o = String::from("\"");
    for c in s.chars() {
        match c { '"' => o.push_str("\\\""), '\\' => o.push_str("\\\\"), '\n' => o.push_str("\\n"), '\r' => o.push_str("\\r"), '\t' => o.push_str("\\t"),
                  c if (c as u32) < 0x20 => o.push_str(&format!("\\u{:04x}", c as u32)), c => o.push(c) }
    }
    o.push('"'); o
}
fn vx_unjson(s: &str) -> String {
    let cs: Vec<char> = s.chars().collect();
    let mut o = String::new();
    let mut i = if !cs.is_empty() && cs[0] == '"' { 1 } else { 0 };
    let end = if cs.len() >= 2 && cs[cs.len() - 1] == '"' && i == 1 { cs.len() - 1 } else { cs.len() };
    while i < end {
        if cs[i] == '\\' && i + 1 < end {
            match cs[i + 1] { 'n' => o.push('\n'), 'r' => o.push('\r'), 't' => o.push('\t'),
                'u' if i + 5 < end + 0 || i + 5 <= end => { let h: String = cs[i + 2..i + 6].iter().collect(); o.push(char::from_u32(u32::from_str_radix(&h, 16).unwrap_or(63)).unwrap_or('?')); i += 4; }
                c => o.push(c) }
            i += 2;
        } else { o.push(cs[i]); i += 1; }
    }
    o
}
fn main() {
    let args: Vec<String> = std::env::args().collect();
    if args.len() < 3 { return; }
    let seed: u64 = args[2].parse().unwrap_or(0);
    let in_domain = |s: &str| s.chars().all(|c| !c.is_control() || c == '\n' || c == '\r');
    // searching a counterexample for a contract clause: skip the known-defect region (the clause excludes it);
    // clause id `witness`: no exclusion, the full round trip is evaluated on the given input
    let witness_mode = args[1] == "witness";
    let known_region = |s: &str| { let ml = s.contains('\n'); (!ml && (s.contains('"') || s.contains('\\'))) || (ml && (s.ends_with('"') || s.ends_with('\\'))) };
    let check = |s: &str| -> Option<String> {
        if !in_domain(s) || (!witness_mode && known_region(s)) { return None; }
        let got = std::panic::catch_unwind(|| { let mut w = BufWriter { s: String::new() }; print_string(s, &mut w); w.s });
        match got {
            Ok(lit) => {
                let back = lex_literal_exec(&lit.chars().collect());
                let exp: Vec<char> = s.chars().collect();
                if back.as_ref() == Some(&exp) { None } else {
                    let obs = match back { Some(v) => format!("literal {} lexes to {}", vx_json(&lit), vx_json(&v.into_iter().collect::<String>())),
                                           None => format!("literal {} is not one well formed GraphQL string token", vx_json(&lit)) };
                    Some(format!("{{\"found\":true,\"input\":{},\"observed\":{},\"expected\":{}}}", vx_json(&vx_json(s)), vx_json(&obs), vx_json(&format!("a literal that lexes to {}", vx_json(s)))))
                }
            }
            Err(_) => Some(format!("{{\"found\":true,\"input\":{},\"observed\":\"panic\",\"expected\":\"no panic\"}}", vx_json(&vx_json(s)))),
        }
    };
    std::panic::set_hook(Box::new(|_| {}));
    if args.len() > 3 {
        let s = vx_unjson(&args[3]);
        match check(&s) { Some(l) => println!("{}", l), None => println!("{{\"found\":false,\"input\":{}}}", vx_json(&args[3])) }
        return;
    }
    // exhaustive over a small alphabet up to length 6, then seeded random longer strings
    let alpha: Vec<char> = vec!['a', '"', '\\', '\n', ' ', '\r', 'n', 'u', '/', 'é'];
    let mut cur: Vec<String> = vec![String::new()];
    for _len in 0..=5 {
        let mut next = Vec::new();
        for s in &cur {
            if let Some(l) = check(s) { println!("{}", l); return; }
            for c in &alpha { let mut t = s.clone(); t.push(*c); next.push(t); }
        }
        cur = next;
    }
    let mut x = seed.wrapping_mul(6364136223846793005).wrapping_add(1442695040888963407);
    for _ in 0..100000 {
        let mut s = String::new();
        x ^= x << 13; x ^= x >> 7; x ^= x << 17;
        let n = 6 + (x % 24) as usize;
        for _ in 0..n { x ^= x << 13; x ^= x >> 7; x ^= x << 17; s.push(alpha[(x % alpha.len() as u64) as usize]); }
        if let Some(l) = check(&s) { println!("{}", l); return; }
    }
    println!("{{\"found\":false,\"searched\":\"all strings over [a \\\" \\\\ LF space CR n u / e-acute] up to length 5, 100000 random of length 6..30\"}}");
}
