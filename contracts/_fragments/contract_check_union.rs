//@ contract nitrogql_checker::type_system_checker ::fn check_union
//@   requires [C05.ts_union.pre_schema_wf] crate::schema_wf(&definitions.type_system)
//@   ensures [C05.ts_union.frame] crate::extends_errs(old(result)@, final(result)@)
//@   ensures [C05.ts_union.sound] final(result)@.len() == old(result)@.len() ==> crate::valid_union(union, definitions)
//@   ensures [C05.ts_union.complete] crate::valid_union(union, definitions) ==> final(result)@.len() == old(result)@.len()
