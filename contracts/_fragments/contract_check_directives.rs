//@ contract nitrogql_checker::common ::fn check_directives
//@   requires [C03+C04+C05.dirs.pre_schema_wf] crate::schema_wf(definitions)
//@   ensures [C03+C04+C05.dirs.frame] crate::extends_errs(old(result)@, final(result)@)
//@   ensures [C03+C05.dirs.sound] final(result)@.len() == old(result)@.len() ==> crate::dirs_valid(definitions, variables, directives@, current_position@)
//@   ensures [C04+C05.dirs.complete] crate::dirs_valid(definitions, variables, directives@, current_position@) ==> final(result)@.len() == old(result)@.len()
