// ==== fragment writer_model: ghost view `out` of sourcemap_writer::SourceMapWriter (the logical text written so far,
// ==== indentation inserted by concrete writers abstracted away) and the trait-level contracts of write / write_for.
// ==== The `spec fn out` line is inserted into the real trait by the inline rewrite in printer_ops_base (ghost only).
//@ contract sourcemap_writer::writer ::fn write
//@   ensures [assumed.wm.write] final(self).out() == old(self).out() + chunk@
//@ end
//@ contract sourcemap_writer::writer ::fn write_for
//@   ensures [assumed.wm.write_for] final(self).out() == old(self).out() + chunk@
//@ end
//@ contract sourcemap_writer::writer ::fn indent
//@   ensures [assumed.wm.indent] final(self).out() == old(self).out()
//@ end
//@ contract sourcemap_writer::writer ::fn dedent
//@   ensures [assumed.wm.dedent] final(self).out() == old(self).out()
//@ end
