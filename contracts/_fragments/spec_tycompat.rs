// ---- oracle: GraphQL specification, "AreTypesCompatible(variableType, locationType)", written as the spec's
// ---- step list (not as the code's match):
//  1. If locationType is a non-null type: if variableType is NOT non-null return false; recurse on both unwrapped.
//  2. Otherwise, if variableType is a non-null type: recurse on (nullableVariableType, locationType).
//  3. Otherwise, if locationType is a list type: if variableType is NOT a list return false; recurse on the item types.
//  4. Otherwise, if variableType is a list type, return false.
//  5. Return true iff variableType and locationType are identical (named) types.
pub open spec fn are_types_compatible<S: PartialEq>(variable: Type<S, Pos>, location: Type<S, Pos>) -> bool
    decreases variable, location
{
    if let Type::NonNull(loc_inner) = location {
        if let Type::NonNull(var_inner) = variable {
            are_types_compatible(var_inner.inner, loc_inner.inner)
        } else {
            false
        }
    } else if let Type::NonNull(var_inner) = variable {
        are_types_compatible(var_inner.inner, location)
    } else if let Type::List(loc_item) = location {
        if let Type::List(var_item) = variable {
            are_types_compatible(var_item.inner, loc_item.inner)
        } else {
            false
        }
    } else if let Type::List(_) = variable {
        false
    } else {
        location->Named_0.name.inner.eq_spec(&variable->Named_0.name.inner)
    }
}

