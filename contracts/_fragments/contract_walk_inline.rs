//@ contract nitrogql_checker::operation_checker ::fn check_inline_fragment
//@   requires [C03+C04.walk.inline.pre_schema_wf] crate::schema_wf(context.definitions)
//@   requires [C03+C04.walk.inline.pre_root_wf] crate::type_fields_args_unique(root_type.inner)
//@   ensures [C03+C04.walk.inline.frame] crate::extends_errs(old(result)@, final(result)@)
//@   ensures [C03+C04.walk.inline.verdict] (final(result)@.len() == old(result)@.len()) <==> crate::v_inline(fragment_map, crate::seen_view(seen_fragments@), variables, *root_type, *inline_fragment, context.definitions)
