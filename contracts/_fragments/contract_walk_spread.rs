//@ contract nitrogql_checker::operation_checker ::fn check_fragment_spread
//@   requires [C03+C04.walk.spread.pre_schema_wf] crate::schema_wf(context.definitions)
//@   requires [C03+C04.walk.spread.pre_root_wf] crate::type_fields_args_unique(root_type.inner)
//@   ensures [C03+C04.walk.spread.frame] crate::extends_errs(old(result)@, final(result)@)
//@   ensures [C03+C04.walk.spread.verdict] (final(result)@.len() == old(result)@.len()) <==> crate::v_spread(fragment_map, crate::seen_view(seen_fragments@), variables, *root_type, *fragment_spread, context.definitions)
