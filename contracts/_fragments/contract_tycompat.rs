//@ contract nitrogql_checker::common ::fn check_type_compatibility
//@   ret r
//@   requires [C03.tycompat.pre_eq_lawful] <S as vstd::std_specs::cmp::PartialEqSpec<S>>::obeys_eq_spec()
//@   ensures [C03.tycompat.sound] r ==> crate::are_types_compatible(*value_type, *expected_type)
//@   ensures [C04.tycompat.complete] crate::are_types_compatible(*value_type, *expected_type) ==> r
//@   decreases [C03.tycompat.terminates] *value_type, *expected_type
