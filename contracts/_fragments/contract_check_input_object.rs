//@ contract nitrogql_checker::type_system_checker ::fn check_input_object
//@   requires [C05.ts_input.pre_schema_wf] crate::schema_wf(&definitions.type_system)
//@   ensures [C05.ts_input.frame] crate::extends_errs(old(result)@, final(result)@)
//@   ensures [C05.ts_input.sound] final(result)@.len() == old(result)@.len() ==> crate::valid_input_object(input, definitions)
//@   ensures [C05.ts_input.complete] crate::valid_input_object(input, definitions) ==> final(result)@.len() == old(result)@.len()
