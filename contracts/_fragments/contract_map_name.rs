//@   fn map_name
//@   ret r
//@   requires [C06.names.pre_wf] old(self).wf()
//@   ensures [C06.names.wf] final(self).wf()
//@   ensures [C06.names.index_denotes_name] r < final(self).names().len() && final(self).names()[r as int] == name@
//@   ensures [C06.names.array_only_grows] crate::is_prefix(old(self).names(), final(self).names())
