//@ contract nitrogql_checker::type_system_checker ::fn check_schema
//@   requires [C05.ts_schema.pre_schema_wf] crate::schema_wf(&definitions.type_system)
//@   ensures [C05.ts_schema.frame] crate::extends_errs(old(result)@, final(result)@)
//@   ensures [C05.ts_schema.sound] final(result)@.len() == old(result)@.len() ==> crate::valid_schema_def(d, definitions)
//@   ensures [C05.ts_schema.complete] crate::valid_schema_def(d, definitions) ==> final(result)@.len() == old(result)@.len()
