//@ contract nitrogql_checker::type_system_checker ::fn name_starts_with_unscounsco
//@   ret r
//@   ensures [C05.reserved.exact] r == crate::reserved(name.name@)
