/// structural correspondence between an AST type reference and its type-system form (semantics::convert_type):
/// same wrappers in the same order around the same name.  Proved on the real convert_type in unit `convtype`; every other
/// unit includes this fragment followed by `attr #[verifier::external_body]` (what callers assume is what was proved).
pub open spec fn type_matches<S>(t: Type<S, Pos>, a: AstType) -> bool
    decreases a
{
    match a {
        AstType::Named(n) => t is Named && tv(t->Named_0.name.inner) == n.name.name@,
        AstType::List(l) => t is List && type_matches(t->List_0.inner, l.r#type),
        AstType::NonNull(l) => t is NonNull && type_matches(t->NonNull_0.inner, l.r#type),
    }
}
//@ contract nitrogql_semantics::type_system_utils ::fn convert_type
//@   ret r
//@   ensures [C03+C04+C05.convtype.matches] crate::type_matches(r, *ty)
