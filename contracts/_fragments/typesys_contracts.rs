// ==== fragment typesys_contracts: accessor contracts of graphql_type_system::{node, type} (verified in each including unit)
impl<Other, T: PartialEq<Other>, OriginalNode> vstd::std_specs::cmp::PartialEqSpecImpl<Other> for crate::graphql_type_system::node::Node<T, OriginalNode> {
    open spec fn obeys_eq_spec() -> bool { <T as vstd::std_specs::cmp::PartialEqSpec<Other>>::obeys_eq_spec() }
    open spec fn eq_spec(&self, other: &Other) -> bool { self.inner.eq_spec(other) }
}
//@ contract graphql_type_system::node ::fn inner_ref
//@   ret r
//@   ensures [ts.node.inner_ref] r == &self.inner
//@ end
//@ contract graphql_type_system::node ::fn deref
//@   ret r
//@   ensures [ts.node.deref] r == &self.inner
//@ end
//@ contract graphql_type_system::node ::fn eq
//@   ret r
//@ end
//@ contract graphql_type_system::r#type ::fn deref#0
//@   ret r
//@   ensures [ts.named.deref] r == &self.name
//@ end
//@ contract graphql_type_system::r#type ::fn as_inner#0
//@   ret r
//@   ensures [ts.list.as_inner] r == &self.inner
//@ end
//@ contract graphql_type_system::r#type ::fn deref#1
//@   ret r
//@   ensures [ts.list.deref] r == &self.inner
//@ end
//@ contract graphql_type_system::r#type ::fn as_inner#1
//@   ret r
//@   ensures [ts.nonnull.as_inner] r == &self.inner
//@ end
//@ contract graphql_type_system::r#type ::fn deref#2
//@   ret r
//@   ensures [ts.nonnull.deref] r == &self.inner
//@ end
