// ==== GraphQL spec section 3 "Type Validation" rules that the type-system checker implements, as predicates over the
// ==== real AST nodes.  `*_ok_upto(.., n)` = the rules for the head of a definition and its first n members, so that the
// ==== same predicate is the loop invariant (n = iterations done) and the postcondition (n = all).
use crate::nitrogql_ast::type_system::{ArgumentsDefinition, InputValueDefinition, FieldDefinition, ScalarTypeDefinition, SchemaDefinition,
    UnionTypeDefinition, InputObjectTypeDefinition, DirectiveDefinition as AstDirectiveDefinition, TypeDefinition as AstTypeDefinition};
use crate::nitrogql_semantics::definition_map::DefinitionMap;

pub open spec fn no_vars<'a, 'src>() -> Option<&'a VariablesDefinition<'src>> { None }

pub open spec fn valid_scalar(s: &ScalarTypeDefinition, d: &DefinitionMap) -> bool {
    !reserved(s.name.name@) && dirs_valid(&d.type_system, no_vars(), s.directives@, "SCALAR"@)
}
pub open spec fn valid_schema_def(s: &SchemaDefinition, d: &DefinitionMap) -> bool {
    dirs_valid(&d.type_system, no_vars(), s.directives@, "SCHEMA"@)
}

// ---- 3.6.1 / 3.13 argument definitions: unique names, no reserved name, input type, directives at ARGUMENT_DEFINITION
pub open spec fn inputvalue_names(v: Seq<InputValueDefinition>) -> Seq<Seq<char>> { Seq::new(v.len(), |k: int| v[k].name.name@) }
pub open spec fn type_is_known_input(d: &DefinitionMap, t: crate::nitrogql_ast::r#type::Type) -> bool {
    schema_types(&d.type_system).contains_key(unwrapped_name(t)) && is_input_def(schema_types(&d.type_system)[unwrapped_name(t)].inner)
}
pub open spec fn type_is_known_output(d: &DefinitionMap, t: crate::nitrogql_ast::r#type::Type) -> bool {
    schema_types(&d.type_system).contains_key(unwrapped_name(t)) && is_output_def(schema_types(&d.type_system)[unwrapped_name(t)].inner)
}
pub open spec fn argdef_ok(v: InputValueDefinition, d: &DefinitionMap) -> bool {
    &&& !reserved(v.name.name@)
    &&& type_is_known_input(d, v.r#type)
    &&& dirs_valid(&d.type_system, no_vars(), v.directives@, "ARGUMENT_DEFINITION"@)
}
pub open spec fn argsdef_ok_upto(a: &ArgumentsDefinition, d: &DefinitionMap, n: int) -> bool {
    &&& nodup(inputvalue_names(a.input_values@).take(n))
    &&& forall|i: int| 0 <= i < n ==> argdef_ok(#[trigger] a.input_values@[i], d)
}
#[verifier::opaque]
pub open spec fn valid_argsdef(a: &ArgumentsDefinition, d: &DefinitionMap) -> bool { argsdef_ok_upto(a, d, a.input_values@.len() as int) }

// ---- 3.8 Unions: reserved name, directives at UNION, unique members, members are defined Object types
pub open spec fn ident_names(v: Seq<crate::nitrogql_ast::base::Ident>) -> Seq<Seq<char>> { Seq::new(v.len(), |k: int| v[k].name@) }
pub open spec fn union_member_ok(m: crate::nitrogql_ast::base::Ident, d: &DefinitionMap) -> bool {
    d.types@.contains_key(m.name) && d.types@[m.name] is Object
}
pub open spec fn union_ok_upto(u: &UnionTypeDefinition, d: &DefinitionMap, n: int) -> bool {
    &&& !reserved(u.name.name@)
    &&& dirs_valid(&d.type_system, no_vars(), u.directives@, "UNION"@)
    &&& nodup(ident_names(u.members@).take(n))
    &&& forall|i: int| 0 <= i < n ==> union_member_ok(#[trigger] u.members@[i], d)
}
pub open spec fn valid_union(u: &UnionTypeDefinition, d: &DefinitionMap) -> bool { union_ok_upto(u, d, u.members@.len() as int) }

// ---- 3.10 Input Objects: reserved names, directives, unique fields, field types are input types
pub open spec fn inputfield_ok(f: InputValueDefinition, d: &DefinitionMap) -> bool {
    &&& !reserved(f.name.name@)
    &&& dirs_valid(&d.type_system, no_vars(), f.directives@, "INPUT_FIELD_DEFINITION"@)
    &&& type_is_known_input(d, f.r#type)
}
pub open spec fn input_ok_upto(o: &InputObjectTypeDefinition, d: &DefinitionMap, n: int) -> bool {
    &&& !reserved(o.name.name@)
    &&& dirs_valid(&d.type_system, no_vars(), o.directives@, "INPUT_OBJECT"@)
    &&& nodup(inputvalue_names(o.fields@).take(n))
    &&& forall|i: int| 0 <= i < n ==> inputfield_ok(#[trigger] o.fields@[i], d)
}
pub open spec fn valid_input_object(o: &InputObjectTypeDefinition, d: &DefinitionMap) -> bool { input_ok_upto(o, d, o.fields@.len() as int) }

// ---- 3.13 Directive definitions: reserved name, valid argument definitions, no reference cycle (assumed callee)
pub uninterp spec fn directive_not_recursive(d: &DefinitionMap, def: &AstDirectiveDefinition) -> bool;
pub open spec fn valid_directive_def(def: &AstDirectiveDefinition, d: &DefinitionMap) -> bool {
    &&& directive_not_recursive(d, def)
    &&& !reserved(def.name.name@)
    &&& (def.arguments is Some ==> valid_argsdef(&def.arguments->Some_0, d))
}

// ---- 3.6 Objects / 3.7 Interfaces: fields and implemented interfaces
use crate::nitrogql_ast::type_system::{ObjectTypeDefinition, InterfaceTypeDefinition};
pub open spec fn field_names(v: Seq<FieldDefinition>) -> Seq<Seq<char>> { Seq::new(v.len(), |k: int| v[k].name.name@) }
/// one field definition: reserved name, directives at FIELD_DEFINITION, output type, valid argument definitions
pub open spec fn fielddef_ok(f: FieldDefinition, d: &DefinitionMap) -> bool {
    &&& !reserved(f.name.name@)
    &&& dirs_valid(&d.type_system, no_vars(), f.directives@, "FIELD_DEFINITION"@)
    &&& type_is_known_output(d, f.r#type)
    &&& (f.arguments is Some ==> valid_argsdef(&f.arguments->Some_0, d))
}
pub open spec fn fields_ok_upto(fields: Seq<FieldDefinition>, d: &DefinitionMap, n: int) -> bool {
    &&& nodup(field_names(fields).take(n))
    &&& forall|i: int| 0 <= i < n ==> fielddef_ok(#[trigger] fields[i], d)
}
/// IsValidImplementation(type, implementedType) (spec 3.6.1 step 4.2): decided by check_valid_implementation, which is
/// outside Verus' reach (flat_map); its verdict is an ASSUMED contract here
pub uninterp spec fn valid_implementation(d: &DefinitionMap, name: crate::nitrogql_ast::base::Ident, fields: Seq<FieldDefinition>,
    implements: Seq<crate::nitrogql_ast::base::Ident>, iface: &InterfaceTypeDefinition) -> bool;
/// one `implements` entry: names a defined Interface type (3.6.1 step 4 / 3.7.1) that is validly implemented
pub open spec fn implements_ok(d: &DefinitionMap, name: crate::nitrogql_ast::base::Ident, fields: Seq<FieldDefinition>,
    implements: Seq<crate::nitrogql_ast::base::Ident>, i: int) -> bool {
    &&& d.types@.contains_key(implements[i].name)
    &&& d.types@[implements[i].name] is Interface
    &&& valid_implementation(d, name, fields, implements, &d.types@[implements[i].name]->Interface_0)
}
pub open spec fn object_head_ok(o: &ObjectTypeDefinition, d: &DefinitionMap) -> bool {
    !reserved(o.name.name@) && dirs_valid(&d.type_system, no_vars(), o.directives@, "OBJECT"@)
}
pub open spec fn valid_object(o: &ObjectTypeDefinition, d: &DefinitionMap) -> bool {
    &&& object_head_ok(o, d)
    &&& fields_ok_upto(o.fields@, d, o.fields@.len() as int)
    &&& forall|i: int| 0 <= i < o.implements@.len() ==> #[trigger] implements_ok(d, o.name, o.fields@, o.implements@, i)
}
pub open spec fn interface_head_ok(o: &InterfaceTypeDefinition, d: &DefinitionMap) -> bool {
    !reserved(o.name.name@) && dirs_valid(&d.type_system, no_vars(), o.directives@, "INTERFACE"@)
}
/// 3.7.1: an interface may not implement itself
pub open spec fn iface_implements_ok(o: &InterfaceTypeDefinition, d: &DefinitionMap, i: int) -> bool {
    o.implements@[i].name@ != o.name.name@ && implements_ok(d, o.name, o.fields@, o.implements@, i)
}
pub open spec fn valid_interface(o: &InterfaceTypeDefinition, d: &DefinitionMap) -> bool {
    &&& interface_head_ok(o, d)
    &&& fields_ok_upto(o.fields@, d, o.fields@.len() as int)
    &&& forall|i: int| 0 <= i < o.implements@.len() ==> #[trigger] iface_implements_ok(o, d, i)
}

// ---- 3.9 Enums: reserved name, directives at ENUM / ENUM_VALUE, unique value names
use crate::nitrogql_ast::type_system::EnumTypeDefinition;

pub open spec fn enum_names(e: &EnumTypeDefinition) -> Seq<Seq<char>> {
    Seq::new(e.values@.len(), |k: int| e.values@[k].name.name@)
}
/// the rules for the head of the definition and for its first n values
pub open spec fn enum_ok_upto(e: &EnumTypeDefinition, d: &DefinitionMap, n: int) -> bool {
    &&& !reserved(e.name.name@)                                                              // reserved name
    &&& dirs_valid(&d.type_system, no_vars(), e.directives@, "ENUM"@)                             // directives at ENUM
    &&& nodup(enum_names(e).take(n))                                                         // 3.9: unique value names
    &&& forall|i: int| 0 <= i < n ==> dirs_valid(&d.type_system, no_vars(), (#[trigger] e.values@[i]).directives@, "ENUM_VALUE"@)
}
pub open spec fn valid_enum(e: &EnumTypeDefinition, d: &DefinitionMap) -> bool { enum_ok_upto(e, d, e.values@.len() as int) }


// ---- a whole type-system document: every definition satisfies the rules of its kind
use crate::nitrogql_ast::type_system::{TypeSystemDefinition, TypeSystemDocument};
pub open spec fn tsdef_valid(def: TypeSystemDefinition, d: &DefinitionMap) -> bool {
    match def {
        TypeSystemDefinition::SchemaDefinition(x) => valid_schema_def(&x, d),
        TypeSystemDefinition::TypeDefinition(t) => match t {
            AstTypeDefinition::Scalar(x) => valid_scalar(&x, d),
            AstTypeDefinition::Object(x) => valid_object(&x, d),
            AstTypeDefinition::Interface(x) => valid_interface(&x, d),
            AstTypeDefinition::Union(x) => valid_union(&x, d),
            AstTypeDefinition::Enum(x) => valid_enum(&x, d),
            AstTypeDefinition::InputObject(x) => valid_input_object(&x, d),
        },
        TypeSystemDefinition::DirectiveDefinition(x) => valid_directive_def(&x, d),
    }
}
pub open spec fn tsdoc_ok_upto(doc: &TypeSystemDocument, d: &DefinitionMap, n: int) -> bool {
    forall|i: int| 0 <= i < n ==> tsdef_valid(#[trigger] doc.definitions@[i], d)
}
