// ==== fragment seenlist: the "seen list" idiom of the checker loops
// ====     if seen.contains(&x.name) { <error> } else { seen.push(x.name) }
// ==== `names` = the names of ALL items of the loop in order; after n iterations the list holds exactly the distinct
// ==== names among the first n, so the `contains` test is true iff the n-th name duplicates an earlier one.
pub open spec fn names_view(v: Vec<&str>) -> Seq<Seq<char>> { Seq::new(v@.len(), |i: int| v@[i]@) }
pub open spec fn nodup(names: Seq<Seq<char>>) -> bool {
    forall|i: int, j: int| 0 <= i < j < names.len() ==> names[i] != names[j]
}
pub open spec fn seen_ok(seen: Seq<Seq<char>>, names: Seq<Seq<char>>, n: int) -> bool {
    &&& 0 <= n <= names.len()
    &&& forall|k: int| 0 <= k < n ==> seen.contains(#[trigger] names[k])
    &&& forall|m: int| 0 <= m < seen.len() ==> names.take(n).contains(#[trigger] seen[m])
}
pub proof fn lemma_seen_init(names: Seq<Seq<char>>)
    ensures seen_ok(Seq::<Seq<char>>::empty(), names, 0), nodup(names.take(0)),
{}
pub proof fn lemma_nodup_step(names: Seq<Seq<char>>, n: int)
    requires 0 <= n < names.len(),
    ensures nodup(names.take(n + 1)) <==> (nodup(names.take(n)) && !names.take(n).contains(names[n])),
{
    let a = names.take(n + 1);
    let b = names.take(n);
    assert(forall|i: int| 0 <= i < n ==> a[i] == b[i]);
    assert(a[n] == names[n]);
    if nodup(a) {
        assert forall|i: int, j: int| 0 <= i < j < b.len() implies b[i] != b[j] by { assert(a[i] != a[j]); }
        if b.contains(names[n]) {
            let k = choose|k: int| 0 <= k < b.len() && b[k] == names[n];
            assert(a[k] != a[n]);
        }
    }
    if nodup(b) && !b.contains(names[n]) {
        assert forall|i: int, j: int| 0 <= i < j < a.len() implies a[i] != a[j] by {
            if j < n { assert(b[i] != b[j]); } else { assert(b[i] == a[i]); assert(b.contains(b[i])); }
        }
    }
}
pub proof fn lemma_seen_hit(seen: Seq<Seq<char>>, names: Seq<Seq<char>>, n: int)
    requires seen_ok(seen, names, n), n < names.len(), seen.contains(names[n]),
    ensures names.take(n).contains(names[n]), seen_ok(seen, names, n + 1),
{
    let m = choose|m: int| 0 <= m < seen.len() && seen[m] == names[n];
    assert(names.take(n).contains(seen[m]));
    assert forall|m2: int| 0 <= m2 < seen.len() implies names.take(n + 1).contains(#[trigger] seen[m2]) by {
        assert(names.take(n).contains(seen[m2]));
        let k = choose|k: int| 0 <= k < names.take(n).len() && names.take(n)[k] == seen[m2];
        assert(names.take(n + 1)[k] == seen[m2]);
    }
}
pub proof fn lemma_seen_miss(seen: Seq<Seq<char>>, names: Seq<Seq<char>>, n: int)
    requires seen_ok(seen, names, n), n < names.len(), !seen.contains(names[n]),
    ensures !names.take(n).contains(names[n]), seen_ok(seen.push(names[n]), names, n + 1),
{
    if names.take(n).contains(names[n]) {
        let k = choose|k: int| 0 <= k < names.take(n).len() && names.take(n)[k] == names[n];
        assert(seen.contains(names[k]));
    }
    let s2 = seen.push(names[n]);
    assert forall|k: int| 0 <= k < n + 1 implies s2.contains(#[trigger] names[k]) by {
        if k < n {
            assert(seen.contains(names[k]));
            let m = choose|m: int| 0 <= m < seen.len() && seen[m] == names[k];
            assert(s2[m] == names[k]);
        } else { assert(s2[seen.len() as int] == names[n]); }
    }
    assert forall|m: int| 0 <= m < s2.len() implies names.take(n + 1).contains(#[trigger] s2[m]) by {
        if m < seen.len() {
            assert(names.take(n).contains(seen[m]));
            let k = choose|k: int| 0 <= k < names.take(n).len() && names.take(n)[k] == seen[m];
            assert(names.take(n + 1)[k] == s2[m]);
        } else { assert(names.take(n + 1)[n] == s2[m]); }
    }
}
/// result of `seen.contains(&x)` (A-STD contract of [T]::contains + A-STR equality of &str) in terms of the views
pub proof fn lemma_vec_contains(seen: Vec<&str>, x: &str, r: bool)
    requires r == (exists|i: int| 0 <= i < seen@.len() && #[trigger] (&seen@[i]).eq_spec(&x)),
    ensures r == names_view(seen).contains(x@),
{
    broadcast use crate::axiom_str_eq;
    let nv = names_view(seen);
    if r {
        let i = choose|i: int| 0 <= i < seen@.len() && #[trigger] (&seen@[i]).eq_spec(&x);
        assert(nv[i] == x@);
    }
    if nv.contains(x@) {
        let i = choose|i: int| 0 <= i < nv.len() && nv[i] == x@;
        assert((&seen@[i]).eq_spec(&x));
    }
}
pub proof fn lemma_names_push(seen0: Seq<&str>, seen1: Vec<&str>, x: &str)
    requires seen1@ == seen0.push(x),
    ensures names_view(seen1) == Seq::new(seen0.len(), |i: int| seen0[i]@).push(x@),
{
    assert(names_view(seen1) =~= Seq::new(seen0.len(), |i: int| seen0[i]@).push(x@));
}
/// error list only grows, and what was there stays (frame of every checker function)
pub open spec fn extends_errs<T>(old_: Seq<T>, new_: Seq<T>) -> bool {
    old_.len() <= new_.len() && forall|i: int| 0 <= i < old_.len() ==> #[trigger] new_[i] == old_[i]
}
