//@ contract nitrogql_checker::operation_checker ::fn check_variables_definition
//@   ensures [C03+C04.vardefs.frame] crate::extends_errs(old(result)@, final(result)@)
//@   ensures [C03.vardefs.sound] final(result)@.len() == old(result)@.len() ==> crate::valid_vardefs(context.definitions, variables)
//@   ensures [C04.vardefs.complete] crate::valid_vardefs(context.definitions, variables) ==> final(result)@.len() == old(result)@.len()
