// ==== fragment printer_rt_base (printer_ops_base + json_printer, runtime printers not reduced) (printer_base + config-file::config/scalar_type, printer::{operation_base_printer, operation_js_printer}): real crates ast, type-system, sourcemap-writer::writer, utils (no relative_path/cwd),
// ==== config-file::{scalar_type,type_target}, printer::{ts_types/**, jsdoc, utils} inlined verbatim as nested modules.
//@ deps
//@ include stdlib_checker.rs
//@ include stdlib_printer.rs
//@ include concat.rs
//@ inline nitrogql_ast crates/ast/src mods=base,current_file,directive,operation,operation_ext,selection_set,r#type:type,type_system,value,variable all=nitrogql_ast,graphql_type_system,nitrogql_semantics,sourcemap_writer,nitrogql_utils,nitrogql_config_file,nitrogql_printer
//@   rewrite_re T-TLS 1 "(?s)thread_local!\\s*\\{.*?\\n\\}\\n" => "/* thread_local CURRENT_FILE_OF_POS dropped: Verus rejects thread_local! inside verus!{} (internal error); accessors are external_body */\n"
//@   rewrite T-TLS 1 "CURRENT_FILE_OF_POS.with(|v| v.get())" => "unimplemented!() /* vx: thread_local dropped; fn is external_body (unverified) */"
//@   rewrite T-TLS 1 "CURRENT_FILE_OF_POS.with(|cell| cell.set(file));" => "unimplemented!() /* vx: thread_local dropped; fn is external_body (unverified) */"
//@ end
//@ inline graphql_type_system crates/type-system/src mods=builder,cloning_utils,definitions,node,root_types,schema,text,r#type:type all=nitrogql_ast,graphql_type_system,nitrogql_semantics,sourcemap_writer,nitrogql_utils,nitrogql_config_file,nitrogql_printer
//@ end
//@ inline nitrogql_semantics crates/semantics/src mods=direct_fields_of_output_type,type_system_utils,ast_to_type_system all=nitrogql_ast,graphql_type_system,nitrogql_semantics,sourcemap_writer,nitrogql_utils,nitrogql_config_file,nitrogql_printer
//@ end
//@ inline sourcemap_writer crates/sourcemap-writer/src mods=writer all=nitrogql_ast,graphql_type_system,nitrogql_semantics,sourcemap_writer,nitrogql_utils,nitrogql_config_file,nitrogql_printer
//@   rewrite T4-ghost 1 "pub trait SourceMapWriter {" => "pub trait SourceMapWriter {\n    /* vx: ghost view inserted (T4); erased at compile time */ spec fn out(&self) -> Seq<char>;"
//@ end
//@ inline nitrogql_utils crates/utils/src mods=capitalize,chars,clone_into all=nitrogql_ast,graphql_type_system,nitrogql_semantics,sourcemap_writer,nitrogql_utils,nitrogql_config_file,nitrogql_printer
//@ end
//@ inline nitrogql_config_file crates/config-file/src mods=scalar_type,type_target all=nitrogql_ast,graphql_type_system,nitrogql_semantics,sourcemap_writer,nitrogql_utils,nitrogql_config_file,nitrogql_printer
//@ end
//@ inline nitrogql_printer crates/printer/src mods=jsdoc,ts_types,utils,json_printer,operation_base_printer,operation_js_printer,operation_type_printer all=nitrogql_ast,graphql_type_system,nitrogql_semantics,sourcemap_writer,nitrogql_utils,nitrogql_config_file,nitrogql_printer
//@   reduce jsdoc print_description
//@   rewrite_re T-DROP 1 "(?s)impl OperationBasePrinterOptions \\{.*?\\n\\}\\n" => "/* vx: impl OperationBasePrinterOptions::from_config dropped (needs config-file::Config with PathBuf fields) */\n"
//@   rewrite T-DROP 1 "use crate::nitrogql_config_file::Config;\nuse crate::nitrogql_utils::clone_into;" => "/* vx: imports of dropped from_config removed */"
//@   rewrite_re T-DROP 1 "(?s)impl OperationJSPrinterOptions \\{.*?\\n\\}\\n" => "/* vx: impl OperationJSPrinterOptions::from_config dropped */\n"
//@   rewrite T-DROP 1 "use crate::nitrogql_config_file::Config;\n\nuse crate::nitrogql_printer::operation_base_printer::options::OperationBasePrinterOptions;" => "use crate::nitrogql_printer::operation_base_printer::options::OperationBasePrinterOptions;"
//@   rewrite_re T-DROP 1 "(?s)impl OperationTypePrinterOptions \\{.*?\\n\\}\\n" => "/* vx: impl OperationTypePrinterOptions::from_config dropped */\n"
//@   rewrite T-DROP 1 "use crate::nitrogql_config_file::{Config, GenerateMode};\nuse crate::nitrogql_utils::clone_into;\n" => "/* vx: imports of dropped from_config removed */\n"
//@   format_concat
//@   assert_eq_to_panic

//@ end
