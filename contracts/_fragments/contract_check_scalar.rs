//@ contract nitrogql_checker::type_system_checker ::fn check_scalar
//@   requires [C05.ts_scalar.pre_schema_wf] crate::schema_wf(&definition_map.type_system)
//@   ensures [C05.ts_scalar.frame] crate::extends_errs(old(result)@, final(result)@)
//@   ensures [C05.ts_scalar.sound] final(result)@.len() == old(result)@.len() ==> crate::valid_scalar(scalar, definition_map)
//@   ensures [C05.ts_scalar.complete] crate::valid_scalar(scalar, definition_map) ==> final(result)@.len() == old(result)@.len()
