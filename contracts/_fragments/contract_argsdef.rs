//@ contract nitrogql_checker::type_system_checker ::fn check_arguments_definition
//@   requires [C05.argsdef.pre_schema_wf] crate::schema_wf(&definitions.type_system)
//@   ensures [C05.argsdef.frame] crate::extends_errs(old(result)@, final(result)@)
//@   ensures [C05.argsdef.sound] final(result)@.len() == old(result)@.len() ==> crate::valid_argsdef(def, definitions)
//@   ensures [C05.argsdef.complete] crate::valid_argsdef(def, definitions) ==> final(result)@.len() == old(result)@.len()
