//@ contract nitrogql_ast::r#type ::fn unwrapped_type
//@   ret r
//@   ensures [C05.unwrapped.name] r.name.name@ == crate::unwrapped_name(*self)
