// ==== fragment checker_spec: specification-level validity predicates of the GraphQL spec's validation rules that the
// ==== checker's leaf functions implement (shared by the units that prove them and the units that call them).
use crate::graphql_type_system::schema::Schema;
use crate::graphql_type_system::definitions::{InputValue};
use crate::nitrogql_ast::base::Pos;
use crate::nitrogql_ast::directive::Directive;
use crate::nitrogql_ast::value::Arguments;
use crate::nitrogql_ast::variable::VariablesDefinition;

/// spec 3.5 / "Reserved Names": names beginning with two underscores are reserved for introspection
pub open spec fn reserved(s: Seq<char>) -> bool { s.len() >= 2 && s[0] == '_' && s[1] == '_' }

pub open spec fn opt_ref<'a, T>(o: Option<T>) -> Option<&'a T> { match o { Some(x) => Some(&x), None => None } }
//@ fragment spec_args.rs

/// HYPOTHESIS shared by the checker contracts ("the schema the document is checked against is well formed in the sense
/// the same run checks on the AST"): names of argument definitions / input fields are unique within their owner.
/// Only the counting shortcuts `seen_args < arguments.len()` / `seen_fields < value.fields.len()` depend on it.
pub open spec fn fields_args_unique<S>(fs: Seq<crate::graphql_type_system::definitions::Field<S, Pos>>) -> bool {
    forall|k: int| 0 <= k < fs.len() ==> nodup(argdef_names((#[trigger] fs[k]).arguments@))
}
pub open spec fn schema_wf<S>(sch: &Schema<S, Pos>) -> bool {
    &&& forall|n: Seq<char>| schema_directives(sch).contains_key(n) ==> nodup(argdef_names((#[trigger] schema_directives(sch)[n]).inner.arguments@))
    &&& forall|n: Seq<char>| schema_types(sch).contains_key(n) ==> match (#[trigger] schema_types(sch)[n]).inner {
            crate::graphql_type_system::definitions::TypeDefinition::InputObject(o) => nodup(argdef_names(o.fields@)),
            crate::graphql_type_system::definitions::TypeDefinition::Object(o) => fields_args_unique(o.fields@),
            crate::graphql_type_system::definitions::TypeDefinition::Interface(o) => fields_args_unique(o.fields@),
            _ => true,
        }
}

/// spec 5.7 Directives, for the i-th directive of a list applied at location `loc`:
///  5.7.1 Directives Are Defined; 5.7.2 Directives Are In Valid Locations; 5.7.3 Directives Are Unique Per Location
///  (unless the definition is `repeatable`); 5.4 its arguments are valid for the definition.
pub open spec fn dir_valid_at<'src, S>(sch: &Schema<S, Pos>, vars: Option<&VariablesDefinition<'src>>, ds: Seq<Directive<'src>>, loc: Seq<char>, i: int) -> bool {
    let d = ds[i];
    &&& schema_directives(sch).contains_key(d.name.name@)
    &&& {
        let def = schema_directives(sch)[d.name.name@].inner;
        &&& exists|k: int| 0 <= k < def.locations@.len() && tv(#[trigger] def.locations@[k].inner) == loc
        &&& (def.repeatable is None ==> forall|j: int| 0 <= j < i ==> (#[trigger] ds[j]).name.name@ != d.name.name@)
        &&& args_valid(sch, vars, opt_ref(d.arguments), def.arguments@)
    }
}
pub open spec fn dirs_valid_upto<'src, S>(sch: &Schema<S, Pos>, vars: Option<&VariablesDefinition<'src>>, ds: Seq<Directive<'src>>, loc: Seq<char>, n: int) -> bool {
    forall|i: int| 0 <= i < n ==> #[trigger] dir_valid_at(sch, vars, ds, loc, i)
}
#[verifier::opaque]
pub open spec fn dirs_valid<'src, S>(sch: &Schema<S, Pos>, vars: Option<&VariablesDefinition<'src>>, ds: Seq<Directive<'src>>, loc: Seq<char>) -> bool {
    dirs_valid_upto(sch, vars, ds, loc, ds.len() as int)
}
