// ==== fragment indent_model: text geometry of generated files (lines, UTF-16 columns) and the deferred-indentation
// ==== semantics shared by SourceWriter / JustWriter / JsStringWriter `write`; every lemma below is PROVED in the unit.
//@ include splitwrap.rs
/// text of the first k pieces, joined
pub open spec fn joined_upto(p: Seq<Seq<char>>, sep: char, k: int) -> Seq<char> { if k <= 0 { Seq::<char>::empty() } else if k >= p.len() { join_sep(p, sep) } else { join_sep(p.take(k), sep) } }

//@ lemma [textgeom.joined_step] lemma_joined_step
pub proof fn lemma_joined_step(p: Seq<Seq<char>>, sep: char, k: int)
    requires 0 <= k < p.len()
    ensures joined_upto(p, sep, k + 1) == if k == 0 { p[0] } else { joined_upto(p, sep, k) + seq![sep] + p[k] },
            joined_upto(p, sep, p.len() as int) == join_sep(p, sep),
{
    assert(p.take(k + 1).drop_last() =~= p.take(k));
    assert(p.take(k + 1).last() == p[k]);
    assert(p.take(p.len() as int) =~= p);
    if k == 0 { assert(p.take(1)[0] == p[0]); }
}

pub open spec fn u16len(c: char) -> nat { if (c as u32) > 0xFFFF { 2 } else { 1 } }
pub open spec fn utf16(s: Seq<char>) -> nat
    decreases s.len()
{
    if s.len() == 0 { 0 } else { utf16(s.drop_last()) + u16len(s.last()) }
}
pub open spec fn newlines(s: Seq<char>) -> nat
    decreases s.len()
{
    if s.len() == 0 { 0 } else { newlines(s.drop_last()) + if s.last() == '\n' { 1nat } else { 0nat } }
}
pub open spec fn last_col(s: Seq<char>) -> nat
    decreases s.len()
{
    if s.len() == 0 { 0 } else if s.last() == '\n' { 0 } else { last_col(s.drop_last()) + u16len(s.last()) }
}
pub open spec fn spaces(n: nat) -> Seq<char> { Seq::new(n, |i: int| ' ') }
pub open spec fn pending_after(a: Seq<char>, pending: bool) -> bool { if a.len() == 0 { pending } else { a.last() == '\n' } }
pub open spec fn indented(chunk: Seq<char>, indent: nat, pending: bool) -> Seq<char>
    decreases chunk.len()
{
    if chunk.len() == 0 { Seq::<char>::empty() }
    else if chunk[0] == '\n' { seq!['\n'] + indented(chunk.skip(1), indent, true) }
    else if pending { spaces(indent) + seq![chunk[0]] + indented(chunk.skip(1), indent, false) }
    else { seq![chunk[0]] + indented(chunk.skip(1), indent, false) }
}
//@ lemma [textgeom.indented_concat] lemma_indented_concat
pub proof fn lemma_indented_concat(a: Seq<char>, b: Seq<char>, indent: nat, pending: bool)
    ensures indented(a + b, indent, pending) == indented(a, indent, pending) + indented(b, indent, pending_after(a, pending))
    decreases a.len()
{
    if a.len() == 0 {
        assert(a + b =~= b);
    } else {
        let p2 = a[0] == '\n';
        assert((a + b)[0] == a[0]);
        assert((a + b).skip(1) =~= a.skip(1) + b);
        lemma_indented_concat(a.skip(1), b, indent, p2);
        if a.len() == 1 { assert(a.skip(1).len() == 0); } else { assert(a.skip(1).last() == a.last()); }
        assert(pending_after(a.skip(1), p2) == pending_after(a, pending));
        if a[0] == '\n' {
            assert(indented(a + b, indent, pending) =~= seq!['\n'] + indented(a.skip(1) + b, indent, true));
        } else if pending {
        } else {
        }
        assert(indented(a + b, indent, pending) =~= indented(a, indent, pending) + indented(b, indent, pending_after(a, pending)));
    }
}
//@ lemma [textgeom.indented_line] lemma_indented_line
pub proof fn lemma_indented_line(line: Seq<char>, indent: nat, pending: bool)
    requires !line.contains('\n')
    ensures indented(line, indent, pending) == if line.len() == 0 { Seq::<char>::empty() } else if pending { spaces(indent) + line } else { line }
    decreases line.len()
{
    if line.len() > 0 {
        assert(line[0] != '\n') by { assert(line.contains(line[0])); }
        assert(!line.skip(1).contains('\n')) by { if line.skip(1).contains('\n') { let i = choose|i: int| 0 <= i < line.skip(1).len() && line.skip(1)[i] == '\n'; assert(line[i + 1] == '\n'); assert(line.contains('\n')); } }
        lemma_indented_line(line.skip(1), indent, false);
        assert(seq![line[0]] + line.skip(1) =~= line);
        if line.skip(1).len() == 0 { assert(seq![line[0]] + Seq::<char>::empty() =~= seq![line[0]]); }
        if pending { assert(spaces(indent) + seq![line[0]] + line.skip(1) =~= spaces(indent) + line); }
    }
}
//@ lemma [textgeom.indented_nl] lemma_indented_nl
pub proof fn lemma_indented_nl(indent: nat, pending: bool)
    ensures indented(seq!['\n'], indent, pending) == seq!['\n']
{
    let s = seq!['\n'];
    assert(s.len() == 1 && s[0] == '\n');
    assert(s.skip(1) =~= Seq::<char>::empty());
    assert(indented(s.skip(1), indent, true) =~= Seq::<char>::empty());
    assert(indented(s, indent, pending) =~= s + indented(s.skip(1), indent, true));
    assert(s + Seq::<char>::empty() =~= s);
}
//@ lemma [textgeom.geom_push] lemma_geom_push
pub proof fn lemma_geom_push(a: Seq<char>, c: char)
    ensures newlines(a.push(c)) == newlines(a) + if c == '\n' { 1nat } else { 0nat },
            last_col(a.push(c)) == if c == '\n' { 0 } else { last_col(a) + u16len(c) },
            utf16(a.push(c)) == utf16(a) + u16len(c),
{
    assert(a.push(c).drop_last() =~= a);
}
//@ lemma [textgeom.geom_line] lemma_geom_line
pub proof fn lemma_geom_line(a: Seq<char>, line: Seq<char>)
    requires !line.contains('\n')
    ensures newlines(a + line) == newlines(a), last_col(a + line) == last_col(a) + utf16(line), utf16(a + line) == utf16(a) + utf16(line)
    decreases line.len()
{
    if line.len() == 0 { assert(a + line =~= a); }
    else {
        let l0 = line.drop_last();
        assert(!l0.contains('\n')) by { if l0.contains('\n') { let i = choose|i: int| 0 <= i < l0.len() && l0[i] == '\n'; assert(line[i] == '\n'); assert(line.contains('\n')); } }
        assert(line.last() != '\n') by { assert(line.contains(line.last())); }
        lemma_geom_line(a, l0);
        assert(a + line =~= (a + l0).push(line.last()));
        lemma_geom_push(a + l0, line.last());
    }
}
//@ lemma [textgeom.spaces] lemma_spaces
pub proof fn lemma_spaces(n: nat)
    ensures !spaces(n).contains('\n'), utf16(spaces(n)) == n
    decreases n
{
    if n > 0 {
        lemma_spaces((n - 1) as nat);
        assert(spaces(n).drop_last() =~= spaces((n - 1) as nat));
    }
}
//@ lemma [textgeom.geom_bounds] lemma_geom_bounds
pub proof fn lemma_geom_bounds(s: Seq<char>)
    ensures newlines(s) <= s.len(), last_col(s) <= utf16(s)
    decreases s.len()
{
    if s.len() > 0 { lemma_geom_bounds(s.drop_last()); }
}
/// one iteration of the `write` loop, as text: piece k of the chunk is appended after a line feed (k > 0), behind the
/// pending indentation when the piece is not empty
//@ lemma [textgeom.write_step] lemma_write_step
pub proof fn lemma_write_step(p: Seq<Seq<char>>, k: int, ind: nat, pend0: bool)
    requires 0 <= k < p.len(), !p[k].contains('\n')
    ensures ({
        let j0 = joined_upto(p, '\n', k);
        let j1 = joined_upto(p, '\n', k + 1);
        let pend = if k > 0 { true } else { pend0 };
        &&& indented(j1, ind, pend0) == indented(j0, ind, pend0) + (if k > 0 { seq!['\n'] } else { Seq::<char>::empty() })
                + (if p[k].len() == 0 { Seq::<char>::empty() } else if pend { spaces(ind) + p[k] } else { p[k] })
        &&& pending_after(j1, pend0) == (if p[k].len() == 0 { pend } else { false })
        &&& (k > 0 ==> pending_after(j0 + seq!['\n'], pend0))
    })
{
    let j0 = joined_upto(p, '\n', k);
    let j1 = joined_upto(p, '\n', k + 1);
    let line = p[k];
    lemma_joined_step(p, '\n', k);
    if line.len() > 0 { assert(line.last() != '\n') by { assert(line.contains(line.last())); } }
    if k == 0 {
        assert(j0 =~= Seq::<char>::empty());
        lemma_indented_line(line, ind, pend0);
        assert(indented(j0, ind, pend0) + Seq::<char>::empty() + indented(line, ind, pend0) =~= indented(line, ind, pend0));
    } else {
        let nl = seq!['\n'];
        assert(j1 == (j0 + nl) + line);
        lemma_indented_concat(j0 + nl, line, ind, pend0);
        lemma_indented_concat(j0, nl, ind, pend0);
        lemma_indented_nl(ind, pending_after(j0, pend0));
        assert((j0 + nl).last() == '\n');
        lemma_indented_line(line, ind, true);
        if line.len() == 0 { assert(j1 =~= j0 + nl); } else { assert(j1.last() == line.last()); }
    }
}

