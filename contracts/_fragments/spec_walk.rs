// ==== fragment spec_walk: the recursive walk over selection sets (operation checker), ONE STEP AT A TIME.
// `v_x(args)` = "x(args) adds no diagnostic" for each function x of the walk: uninterpreted verdict predicates.  The unit
// that verifies x proves the one-step equation  v_x(args) <==> def_x(args)  where def_x is the GraphQL rule x implements,
// written over the verdicts of the calls x makes; every other walk function is then an assumed callee whose contract is
// "adds no diagnostic <==> v_y(args)".  No function of the walk calls itself directly, so no unit sees recursion; that the
// mutual recursion TERMINATES is not proved (stated in not_covered).
use crate::nitrogql_ast::selection_set::{SelectionSet, Selection, Field as SelField, FragmentSpread, InlineFragment};
use crate::nitrogql_ast::operation::FragmentDefinition;
use crate::nitrogql_checker::operation_checker::context::OperationCheckContext;
use crate::nitrogql_checker::operation_checker::fragment_map::FragmentMap;
use crate::graphql_type_system::definitions::Field as TsField;
use crate::graphql_type_system::node::Node;

pub type TyNode<S> = Node<TypeDefinition<S, Pos>, Pos>;
pub open spec fn seen_view(seen: Seq<&str>) -> Seq<Seq<char>> { Seq::new(seen.len(), |i: int| seen[i]@) }

pub uninterp spec fn v_ss<'a, 'src, S>(fm: &FragmentMap<'a, 'src>, seen: Seq<Seq<char>>, vars: Option<&VariablesDefinition<'src>>, root: TyNode<S>, ss: SelectionSet<'src>, sch: &Schema<S, Pos>) -> bool;
pub uninterp spec fn v_field<'a, 'src, S>(fm: &FragmentMap<'a, 'src>, seen: Seq<Seq<char>>, vars: Option<&VariablesDefinition<'src>>, root_name: Seq<char>, root_fields: Seq<TsField<S, Pos>>, f: SelField<'src>, sch: &Schema<S, Pos>) -> bool;
pub uninterp spec fn v_spread<'a, 'src, S>(fm: &FragmentMap<'a, 'src>, seen: Seq<Seq<char>>, vars: Option<&VariablesDefinition<'src>>, root: TyNode<S>, sp: FragmentSpread<'src>, sch: &Schema<S, Pos>) -> bool;
pub uninterp spec fn v_inline<'a, 'src, S>(fm: &FragmentMap<'a, 'src>, seen: Seq<Seq<char>>, vars: Option<&VariablesDefinition<'src>>, root: TyNode<S>, inl: InlineFragment<'src>, sch: &Schema<S, Pos>) -> bool;
pub uninterp spec fn v_core<'a, 'src, S>(fm: &FragmentMap<'a, 'src>, seen: Seq<Seq<char>>, vars: Option<&VariablesDefinition<'src>>, root: TyNode<S>, cond: TyNode<S>, ss: SelectionSet<'src>, sch: &Schema<S, Pos>) -> bool;

/// fields that can be selected on a type: its own fields plus the `__typename` meta field for Object / Interface, only
/// `__typename` for Union, none otherwise (semantics::direct_fields_of_output_type: chain -> assumed contract)
pub uninterp spec fn selectable_fields<S>(ty: TypeDefinition<S, Pos>) -> Option<Seq<TsField<S, Pos>>>;
pub open spec fn is_composite<S>(ty: TypeDefinition<S, Pos>) -> bool { ty is Object || ty is Interface || ty is Union }
#[verifier::external_body]
pub broadcast proof fn axiom_selectable_composite<S>(ty: TypeDefinition<S, Pos>)
    ensures (#[trigger] selectable_fields(ty) is Some) == is_composite(ty)
{}
/// content of a `Borrow<Field>` item (Cow<Field>)
pub uninterp spec fn borrowed_field<F, S>(f: F) -> TsField<S, Pos>;
pub open spec fn borrowed_fields<F, S>(v: Seq<F>) -> Seq<TsField<S, Pos>> { Seq::new(v.len(), |i: int| borrowed_field::<F, S>(v[i])) }

pub open spec fn type_def_name<S, N>(ty: TypeDefinition<S, N>) -> S {
    match ty {
        TypeDefinition::Scalar(d) => d.name.inner, TypeDefinition::Object(d) => d.name.inner, TypeDefinition::Interface(d) => d.name.inner,
        TypeDefinition::Union(d) => d.name.inner, TypeDefinition::Enum(d) => d.name.inner, TypeDefinition::InputObject(d) => d.name.inner,
    }
}
/// argument definitions of every field of an Object / Interface type have unique names (what schema_wf says of schema types)
pub open spec fn type_fields_args_unique<S>(ty: TypeDefinition<S, Pos>) -> bool {
    match ty { TypeDefinition::Object(o) => fields_args_unique(o.fields@), TypeDefinition::Interface(o) => fields_args_unique(o.fields@), _ => true }
}
