// ---- A-EXT (trusted): lru::LruCache as a map from key CONTENT to value; `put` may evict other entries
#[verifier::external_type_specification]
#[verifier::external_body]
#[verifier::reject_recursive_types(K)]
#[verifier::reject_recursive_types(V)]
#[verifier::reject_recursive_types(S)]
pub struct ExLruCache<K, V, S>(lru::LruCache<K, V, S>);

#[verifier::external_type_specification]
#[verifier::external_body]
pub struct ExFoldRandomState(foldhash::fast::RandomState);

pub uninterp spec fn cache_view<K, V, S>(c: &LruCache<K, V, S>) -> Map<Seq<char>, V>;
/// content of a key (String / str)
pub uninterp spec fn kc<Q: ?Sized>(q: &Q) -> Seq<char>;
#[verifier::external_body]
pub proof fn axiom_kc_str(s: &str) ensures kc::<str>(s) == s@ {}
#[verifier::external_body]
pub proof fn axiom_kc_string(s: &String) ensures kc::<String>(s) == s@ {}

pub assume_specification<'a, K: std::hash::Hash + Eq, V, S: std::hash::BuildHasher, Q: std::hash::Hash + Eq + ?Sized>
    [lru::LruCache::<K, V, S>::get::<Q>] (c: &'a mut LruCache<K, V, S>, k: &Q) -> (r: Option<&'a V>)
    where K: std::borrow::Borrow<Q>
    ensures
        cache_view(final(c)) == cache_view(old(c)),
        r matches Some(v) ==> cache_view(old(c)).contains_key(kc(k)) && *v == cache_view(old(c))[kc(k)];
pub assume_specification<K: std::hash::Hash + Eq, V, S: std::hash::BuildHasher>
    [lru::LruCache::<K, V, S>::put] (c: &mut LruCache<K, V, S>, k: K, v: V) -> (r: Option<V>)
    ensures
        forall|key: Seq<char>| #[trigger] cache_view(final(c)).contains_key(key) ==>
            (key == kc(&k) && cache_view(final(c))[key] == v)
            || (key != kc(&k) && cache_view(old(c)).contains_key(key) && cache_view(final(c))[key] == cache_view(old(c))[key]);


// ---- NameMapper: struct (extracted) and its abstract view
//@ extract crates/sourcemap-writer/src/source_writer/name_mapper.rs :: const NAME_MEMORY_SIZE
//@   pub
//@ end
//@ extract crates/sourcemap-writer/src/source_writer/name_mapper.rs :: struct NameMapper
//@   pubfields
//@ end
impl NameMapper {
    /// every cached index denotes its key in the names array
    pub open spec fn wf(&self) -> bool {
        forall|key: Seq<char>| #[trigger] cache_view(&self.name_cache).contains_key(key) ==>
            cache_view(&self.name_cache)[key] < self.all_list@.len() && self.all_list@[cache_view(&self.name_cache)[key] as int]@ == key
    }
    pub open spec fn names(&self) -> Seq<Seq<char>> { Seq::new(self.all_list@.len(), |i: int| self.all_list@[i]@) }
}
pub open spec fn is_prefix(a: Seq<Seq<char>>, b: Seq<Seq<char>>) -> bool { a.len() <= b.len() && forall|i: int| 0 <= i < a.len() ==> #[trigger] b[i] == a[i] }

