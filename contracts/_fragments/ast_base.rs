// ==== fragment ast_base: the real crate nitrogql_ast inlined verbatim as a nested module (types only; its functions that
// ==== carry no contract of the including unit are external_body)
//@ include stdlib_checker.rs
//@ inline nitrogql_ast crates/ast/src mods=base,current_file,directive,operation,operation_ext,selection_set,r#type:type,type_system,value,variable all=nitrogql_ast
//@   rewrite_re T-TLS 1 "(?s)thread_local!\\s*\\{.*?\\n\\}\\n" => "/* thread_local CURRENT_FILE_OF_POS dropped: Verus rejects thread_local! inside verus!{} (internal error); accessors are external_body */\n"
//@   rewrite T-TLS 1 "CURRENT_FILE_OF_POS.with(|v| v.get())" => "unimplemented!() /* vx: thread_local dropped; fn is external_body (unverified) */"
//@   rewrite T-TLS 1 "CURRENT_FILE_OF_POS.with(|cell| cell.set(file));" => "unimplemented!() /* vx: thread_local dropped; fn is external_body (unverified) */"
//@ end
