/// spec 5.6 Values of Correct Type (+ 5.8.3/5.8.5 variable usages inside values): a literal/variable is acceptable at a
/// position of the given type.  Uninterpreted until unit `value` defines and proves it on check_value.
pub uninterp spec fn value_valid<'src, S>(sch: &Schema<S, Pos>, vars: Option<&VariablesDefinition<'src>>, v: crate::nitrogql_ast::value::Value<'src>, t: crate::graphql_type_system::r#type::Type<S, Pos>) -> bool;
