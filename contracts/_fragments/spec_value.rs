// ---- spec 5.6 Values of Correct Type, 3.x input coercion rules, 5.8.3 / 5.8.5 variable usages.
// `strict` = false: the rule exactly as the GraphQL specification states it (the oracle of C03/"sound");
// `strict` = true : the same rule WITHOUT the one allowance nitrogql is known not to implement (known finding KF-C04-1:
//                   IsVariableUsageAllowed lets a nullable variable with a non-null default flow into a non-null
//                   position).  strict ==> spec (lemma in unit value); the two differ only on that region.
use crate::nitrogql_ast::value::Value;
use crate::nitrogql_ast::base::Ident;
use crate::nitrogql_ast::variable::{Variable, VariableDefinition};
use crate::nitrogql_ast::r#type::Type as AstType;
use crate::graphql_type_system::r#type::Type;
use crate::graphql_type_system::definitions::TypeDefinition;

pub open spec fn sup_names<'src>(sup: Seq<(Ident<'src>, Value<'src>)>) -> Seq<Seq<char>> { Seq::new(sup.len(), |i: int| sup[i].0.name@) }
/// 3.5 Scalars, input coercion of literals (custom scalars are not validated)
pub open spec fn scalar_accepts(name: Seq<char>, v: Value) -> bool {
    if name == "Boolean"@ { v is BooleanValue }
    else if name == "Int"@ { v is IntValue }
    else if name == "Float"@ { v is FloatValue || v is IntValue }
    else if name == "String"@ { v is StringValue }
    else if name == "ID"@ { v is StringValue || v is IntValue }
    else { true }
}
/// AreTypesCompatible(variableType, locationType) with the variable type still in AST form
pub open spec fn ast_compat<S>(vt: AstType, loc: Type<S, Pos>) -> bool
    decreases vt, loc
{
    if let Type::NonNull(li) = loc {
        if let AstType::NonNull(vi) = vt { ast_compat(vi.r#type, li.inner) } else { false }
    } else if let AstType::NonNull(vi) = vt {
        ast_compat(vi.r#type, loc)
    } else if let Type::List(li) = loc {
        if let AstType::List(vi) = vt { ast_compat(vi.r#type, li.inner) } else { false }
    } else if let AstType::List(_) = vt {
        false
    } else {
        tv(loc->Named_0.name.inner) == vt->Named_0.name.name@
    }
}
/// 5.8.5 IsVariableUsageAllowed (hasLocationDefaultValue is not known at a value position: taken as false)
pub open spec fn usage_allowed<S>(vd: VariableDefinition, loc: Type<S, Pos>, strict: bool) -> bool {
    if !strict && loc is NonNull && !(vd.r#type is NonNull) && vd.default_value is Some && !(vd.default_value->Some_0 is NullValue) {
        ast_compat(vd.r#type, loc->NonNull_0.inner)
    } else {
        ast_compat(vd.r#type, loc)
    }
}
pub open spec fn is_first_var(vs: Seq<VariableDefinition>, name: Seq<char>, i: int) -> bool {
    0 <= i < vs.len() && vs[i].name.name@ == name && forall|k: int| 0 <= k < i ==> (#[trigger] vs[k]).name.name@ != name
}
/// 5.8.3 All Variable Uses Defined + 5.8.5
pub open spec fn variable_valid<'src, S>(vars: Option<&VariablesDefinition<'src>>, var: Variable<'src>, loc: Type<S, Pos>, strict: bool) -> bool {
    vars is Some && exists|i: int| is_first_var(vars->Some_0.definitions@, var.name@, i) && usage_allowed(#[trigger] vars->Some_0.definitions@[i], loc, strict)
}

pub open spec fn value_ok<'src, S>(sch: &Schema<S, Pos>, vars: Option<&VariablesDefinition<'src>>, v: Value<'src>, t: Type<S, Pos>, strict: bool) -> bool
    decreases v, 2nat, t
{
    if let Value::Variable(var) = v { variable_valid(vars, var, t, strict) } else {
        match t {
            // a non-null position: not the null literal, and valid for the inner type
            Type::NonNull(inner) => !(v is NullValue) && value_ok(sch, vars, v, inner.inner, strict),
            // a list position: null, a list of valid items, or ONE valid item (coerced to a list of one)
            Type::List(inner) => match v {
                Value::NullValue(_) => true,
                Value::ListValue(l) => forall|i: int| 0 <= i < l.values@.len() ==> value_ok(sch, vars, #[trigger] l.values@[i], inner.inner, strict),
                _ => value_ok(sch, vars, v, inner.inner, strict),
            },
            Type::Named(n) => schema_types(sch).contains_key(tv(n.name.inner)) && named_ok(sch, vars, v, schema_types(sch)[tv(n.name.inner)].inner, strict),
        }
    }
}
/// a non-variable literal at a position whose (nullable) named type has definition `def`
pub open spec fn named_ok<'src, S>(sch: &Schema<S, Pos>, vars: Option<&VariablesDefinition<'src>>, v: Value<'src>, def: TypeDefinition<S, Pos>, strict: bool) -> bool
    decreases v, 1nat
{
    match def {
        TypeDefinition::Scalar(s) => v is NullValue || scalar_accepts(tv(s.name.inner), v),
        TypeDefinition::Enum(e) => v is NullValue || (v is EnumValue && exists|k: int| 0 <= k < e.members@.len() && tv((#[trigger] e.members@[k]).name.inner) == v->EnumValue_0.value@),
        TypeDefinition::InputObject(o) => v is NullValue || (v is ObjectValue && {
            let sup = v->ObjectValue_0.fields@;
            // 5.6.3 Input Object Field Uniqueness
            &&& nodup(sup_names(sup))
            // 5.6.2 Input Object Field Names
            &&& forall|i: int| 0 <= i < sup.len() ==> argdef_names(o.fields@).contains((#[trigger] sup[i]).0.name@)
            // 5.6.4 Input Object Required Fields, 5.6.1 field values
            &&& forall|j: int| 0 <= j < o.fields@.len() ==> field_ok(sch, vars, v, #[trigger] o.fields@[j], strict)
        }),
        _ => false,   // Object / Interface / Union are not input types
    }
}
pub open spec fn field_ok<'src, S>(sch: &Schema<S, Pos>, vars: Option<&VariablesDefinition<'src>>, v: Value<'src>, d: InputValue<S, Pos>, strict: bool) -> bool
    decreases v, 0nat
{
    if v is ObjectValue {
        let sup = v->ObjectValue_0.fields@;
        if some_named(sup, tv(d.name.inner)) {
            forall|i: int| is_first_named(sup, tv(d.name.inner), i) ==> value_ok(sch, vars, (#[trigger] sup[i]).1, d.r#type, strict)
        } else {
            !(d.r#type is NonNull) || d.default_value is Some
        }
    } else { true }
}
/// the rule nitrogql implements (= the specification's rule except on known finding KF-C04-1; implies it: lemma
/// C03.value.strict_implies_spec in unit value)
pub open spec fn value_valid<'src, S>(sch: &Schema<S, Pos>, vars: Option<&VariablesDefinition<'src>>, v: Value<'src>, t: Type<S, Pos>) -> bool {
    value_ok(sch, vars, v, t, true)
}
/// the specification's rule
pub open spec fn value_valid_spec<'src, S>(sch: &Schema<S, Pos>, vars: Option<&VariablesDefinition<'src>>, v: Value<'src>, t: Type<S, Pos>) -> bool {
    value_ok(sch, vars, v, t, false)
}
