//@ contract nitrogql_checker::type_system_checker ::fn check_enum
//@   requires [C05.ts_enum.pre_schema_wf] crate::schema_wf(&definitions.type_system)
//@   ensures [C05.ts_enum.frame] crate::extends_errs(old(result)@, final(result)@)
//@   ensures [C05.ts_enum.sound] final(result)@.len() == old(result)@.len() ==> crate::valid_enum(enum_def, definitions)
//@   ensures [C05.ts_enum.complete] crate::valid_enum(enum_def, definitions) ==> final(result)@.len() == old(result)@.len()
