/// spec 5.4 Arguments (+ 5.6 Values): the arguments supplied at one site are valid for the argument definitions.
/// Uninterpreted until unit `args` defines and proves it on check_arguments.
pub uninterp spec fn args_valid<'src, S>(sch: &Schema<S, Pos>, vars: Option<&VariablesDefinition<'src>>, args: Option<&Arguments<'src>>, defs: Seq<InputValue<S, Pos>>) -> bool;
