// ---- spec 5.4 Arguments
pub open spec fn supplied<'a, 'src>(args: Option<&'a Arguments<'src>>) -> Seq<(crate::nitrogql_ast::base::Ident<'src>, crate::nitrogql_ast::value::Value<'src>)> {
    match args { Some(a) => a.arguments@, None => Seq::empty() }
}
pub open spec fn argdef_names<S>(defs: Seq<InputValue<S, Pos>>) -> Seq<Seq<char>> { Seq::new(defs.len(), |j: int| tv(defs[j].name.inner)) }
/// the supplied argument that is bound to a definition: the FIRST one carrying its name
pub open spec fn is_first_named<'src>(sup: Seq<(crate::nitrogql_ast::base::Ident<'src>, crate::nitrogql_ast::value::Value<'src>)>, name: Seq<char>, i: int) -> bool {
    0 <= i < sup.len() && sup[i].0.name@ == name && forall|k: int| 0 <= k < i ==> (#[trigger] sup[k]).0.name@ != name
}
pub open spec fn some_named<'src>(sup: Seq<(crate::nitrogql_ast::base::Ident<'src>, crate::nitrogql_ast::value::Value<'src>)>, name: Seq<char>) -> bool {
    exists|i: int| 0 <= i < sup.len() && (#[trigger] sup[i]).0.name@ == name
}
//@ fragment spec_value.rs
/// one argument definition against the supplied arguments:
///  5.4.2.1 Required Arguments: not supplied => the type is nullable or there is a default value;
///  5.6.1 supplied => the value is valid for the declared type
pub open spec fn argdef_satisfied<'src, S>(sch: &Schema<S, Pos>, vars: Option<&VariablesDefinition<'src>>,
    sup: Seq<(crate::nitrogql_ast::base::Ident<'src>, crate::nitrogql_ast::value::Value<'src>)>, d: InputValue<S, Pos>) -> bool {
    if some_named(sup, tv(d.name.inner)) {
        forall|i: int| is_first_named(sup, tv(d.name.inner), i) ==> value_valid(sch, vars, (#[trigger] sup[i]).1, d.r#type)
    } else {
        !(d.r#type is NonNull) || d.default_value is Some
    }
}
pub open spec fn argdefs_satisfied_upto<'src, S>(sch: &Schema<S, Pos>, vars: Option<&VariablesDefinition<'src>>,
    sup: Seq<(crate::nitrogql_ast::base::Ident<'src>, crate::nitrogql_ast::value::Value<'src>)>, defs: Seq<InputValue<S, Pos>>, n: int) -> bool {
    forall|j: int| 0 <= j < n ==> argdef_satisfied(sch, vars, sup, #[trigger] defs[j])
}
/// 5.4.1 Argument Names: the first m supplied arguments are all defined
pub open spec fn supplied_defined_upto<'src, S>(sup: Seq<(crate::nitrogql_ast::base::Ident<'src>, crate::nitrogql_ast::value::Value<'src>)>, defs: Seq<InputValue<S, Pos>>, m: int) -> bool {
    forall|i: int| 0 <= i < m ==> argdef_names(defs).contains((#[trigger] sup[i]).0.name@)
}
#[verifier::opaque]
pub open spec fn args_valid<'src, S>(sch: &Schema<S, Pos>, vars: Option<&VariablesDefinition<'src>>, args: Option<&Arguments<'src>>, defs: Seq<InputValue<S, Pos>>) -> bool {
    if defs.len() == 0 { args is None } else {
        &&& supplied_defined_upto(supplied(args), defs, supplied(args).len() as int)
        &&& argdefs_satisfied_upto(sch, vars, supplied(args), defs, defs.len() as int)
    }
}
