//@ contract nitrogql_checker::operation_checker ::fn check_selection_set
//@   requires [C03+C04.walk.ss.pre_schema_wf] crate::schema_wf(context.definitions)
//@   requires [C03+C04.walk.ss.pre_root_wf] crate::type_fields_args_unique(root_type.inner)
//@   ensures [C03+C04.walk.ss.frame] crate::extends_errs(old(result)@, final(result)@)
//@   ensures [C03+C04.walk.ss.verdict] (final(result)@.len() == old(result)@.len()) <==> crate::v_ss(fragment_map, crate::seen_view(seen_fragments@), variables, *root_type, *selection_set, context.definitions)
