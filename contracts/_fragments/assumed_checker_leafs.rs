// ==== callee contracts ASSUMED here and PROVED in units dirs (check_directives) and ts_leaf (the rest)
//@ fragment contract_check_directives.rs
//@   attr #[verifier::external_body]
//@ end
//@ fragment contract_reserved.rs
//@   attr #[verifier::external_body]
//@ end
//@ fragment contract_unwrapped.rs
//@   attr #[verifier::external_body]
//@ end
//@ fragment contract_inout.rs
//@   attr #[verifier::external_body]
//@ end
