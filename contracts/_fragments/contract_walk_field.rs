//@ contract nitrogql_checker::operation_checker ::fn check_selection_field
//@   requires [C03+C04.walk.field.pre_schema_wf] crate::schema_wf(context.definitions)
//@   requires [C03+C04.walk.field.pre_unique_argdefs] forall|k: int| 0 <= k < root_fields@.len() ==> crate::nodup(crate::argdef_names((#[trigger] crate::borrowed_fields::<F, S>(root_fields@)[k]).arguments@))
//@   ensures [C03+C04.walk.field.frame] crate::extends_errs(old(result)@, final(result)@)
//@   ensures [C03+C04.walk.field.verdict] (final(result)@.len() == old(result)@.len()) <==> crate::v_field(fragment_map, crate::seen_view(seen_fragments@), variables, root_type_name@, crate::borrowed_fields::<F, S>(root_fields@), *field_selection, context.definitions)
