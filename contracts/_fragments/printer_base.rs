// ==== fragment printer_base: real crates ast, type-system, sourcemap-writer::writer, utils (no relative_path/cwd),
// ==== config-file::{scalar_type,type_target}, printer::{ts_types/**, jsdoc, utils} inlined verbatim as nested modules.
//@ deps
//@ include stdlib_checker.rs
//@ include stdlib_printer.rs
//@ inline nitrogql_ast crates/ast/src mods=base,current_file,directive,operation,operation_ext,selection_set,r#type:type,type_system,value,variable all=nitrogql_ast,graphql_type_system,nitrogql_semantics,sourcemap_writer,nitrogql_utils,nitrogql_config_file,nitrogql_printer
//@   rewrite_re T-TLS 1 "(?s)thread_local!\\s*\\{.*?\\n\\}\\n" => "/* thread_local CURRENT_FILE_OF_POS dropped: Verus rejects thread_local! inside verus!{} (internal error); accessors are external_body */\n"
//@   rewrite T-TLS 1 "CURRENT_FILE_OF_POS.with(|v| v.get())" => "unimplemented!() /* vx: thread_local dropped; fn is external_body (unverified) */"
//@   rewrite T-TLS 1 "CURRENT_FILE_OF_POS.with(|cell| cell.set(file));" => "unimplemented!() /* vx: thread_local dropped; fn is external_body (unverified) */"
//@ end
//@ inline graphql_type_system crates/type-system/src mods=builder,cloning_utils,definitions,node,root_types,schema,text,r#type:type all=nitrogql_ast,graphql_type_system,nitrogql_semantics,sourcemap_writer,nitrogql_utils,nitrogql_config_file,nitrogql_printer
//@ end
//@ inline sourcemap_writer crates/sourcemap-writer/src mods=writer all=nitrogql_ast,graphql_type_system,nitrogql_semantics,sourcemap_writer,nitrogql_utils,nitrogql_config_file,nitrogql_printer
//@   rewrite T4-ghost 1 "pub trait SourceMapWriter {" => "pub trait SourceMapWriter {\n    /* vx: ghost view inserted (T4); erased at compile time */ spec fn out(&self) -> Seq<char>;"
//@ end
//@ inline nitrogql_utils crates/utils/src mods=capitalize,chars,clone_into all=nitrogql_ast,graphql_type_system,nitrogql_semantics,sourcemap_writer,nitrogql_utils,nitrogql_config_file,nitrogql_printer
//@ end
//@ inline nitrogql_config_file crates/config-file/src mods=type_target all=nitrogql_ast,graphql_type_system,nitrogql_semantics,sourcemap_writer,nitrogql_utils,nitrogql_config_file,nitrogql_printer
//@ end
//@ inline nitrogql_printer crates/printer/src mods=jsdoc,ts_types,utils,selection_tree:operation_type_printer/selection_tree all=nitrogql_ast,graphql_type_system,nitrogql_semantics,sourcemap_writer,nitrogql_utils,nitrogql_config_file,nitrogql_printer nolib
//@   reduce jsdoc print_description
//@ end
