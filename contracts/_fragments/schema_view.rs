// ==== fragment schema_view: abstract view of graphql_type_system::Schema as maps keyed by string CONTENT, with the
// ==== ASSUMED accessor contracts (HashMap<S,_>::get with a borrowed &str key; A-STR).
pub uninterp spec fn schema_types<S, N>(s: &crate::graphql_type_system::schema::Schema<S, N>)
    -> Map<Seq<char>, crate::graphql_type_system::node::Node<crate::graphql_type_system::definitions::TypeDefinition<S, N>, N>>;
pub uninterp spec fn schema_directives<S, N>(s: &crate::graphql_type_system::schema::Schema<S, N>)
    -> Map<Seq<char>, crate::graphql_type_system::node::Node<crate::graphql_type_system::definitions::DirectiveDefinition<S, N>, N>>;
//@ contract graphql_type_system::schema ::fn get_type
//@   attr #[verifier::external_body]
//@   ret r
//@   ensures [sv.assumed_get_type] match r { Some(n) => crate::schema_types(self).contains_key(name@) && *n == crate::schema_types(self)[name@], None => !crate::schema_types(self).contains_key(name@) }
//@ end
//@ contract graphql_type_system::schema ::fn get_directive
//@   attr #[verifier::external_body]
//@   ret r
//@   ensures [sv.assumed_get_directive] match r { Some(n) => crate::schema_directives(self).contains_key(name@) && *n == crate::schema_directives(self)[name@], None => !crate::schema_directives(self).contains_key(name@) }
//@ end
