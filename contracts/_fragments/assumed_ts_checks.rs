// ==== per-kind checker contracts, ASSUMED here and PROVED in units ts_enum / ts_simple / ts_object
//@ fragment contract_check_enum.rs
//@   attr #[verifier::external_body]
//@ end
//@ fragment contract_check_scalar.rs
//@   attr #[verifier::external_body]
//@ end
//@ fragment contract_check_schema.rs
//@   attr #[verifier::external_body]
//@ end
//@ fragment contract_check_union.rs
//@   attr #[verifier::external_body]
//@ end
//@ fragment contract_check_input_object.rs
//@   attr #[verifier::external_body]
//@ end
//@ fragment contract_check_directive.rs
//@   attr #[verifier::external_body]
//@ end
//@ fragment contract_check_object.rs
//@   attr #[verifier::external_body]
//@ end
//@ fragment contract_check_interface.rs
//@   attr #[verifier::external_body]
//@ end
