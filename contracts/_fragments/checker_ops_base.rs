// ==== fragment checker_ops_base (checker_base + operation_checker): real crates ast, type-system, semantics (4 modules), checker (common, error, types,
// ==== type_system_checker) inlined verbatim as nested modules (DESIGN 3.1).  Functions that carry no contract of the
// ==== including unit are external_body (type-checked, not verified, opaque to callers).
//@ include stdlib_checker.rs
//@ include iterwrap.rs
// stand-in for crate nitrogql_error (depends on anyhow, not inlined): only named in one From impl, which is dropped
pub mod nitrogql_error { pub struct PositionedError { pub x: u8 } }
//@ inline nitrogql_ast crates/ast/src mods=base,current_file,directive,operation,operation_ext,selection_set,r#type:type,type_system,value,variable all=nitrogql_ast,graphql_type_system,nitrogql_semantics,nitrogql_checker,nitrogql_error
//@   rewrite_re T-TLS 1 "(?s)thread_local!\\s*\\{.*?\\n\\}\\n" => "/* thread_local CURRENT_FILE_OF_POS dropped: Verus rejects thread_local! inside verus!{} (internal error); accessors are external_body */\n"
//@   rewrite T-TLS 1 "CURRENT_FILE_OF_POS.with(|v| v.get())" => "unimplemented!() /* vx: thread_local dropped; fn is external_body (unverified) */"
//@   rewrite T-TLS 1 "CURRENT_FILE_OF_POS.with(|cell| cell.set(file));" => "unimplemented!() /* vx: thread_local dropped; fn is external_body (unverified) */"
//@ end
//@ inline graphql_type_system crates/type-system/src mods=builder,cloning_utils,definitions,node,root_types,schema,text,r#type:type all=nitrogql_ast,graphql_type_system,nitrogql_semantics,nitrogql_checker,nitrogql_error
//@ end
//@ inline nitrogql_semantics crates/semantics/src mods=ast_to_type_system,definition_map,direct_fields_of_output_type,type_system_utils all=nitrogql_ast,graphql_type_system,nitrogql_semantics,nitrogql_checker,nitrogql_error
//@ end
//@ inline nitrogql_checker crates/checker/src mods=common,error,types,type_system_checker,operation_checker all=nitrogql_ast,graphql_type_system,nitrogql_semantics,nitrogql_checker,nitrogql_error
//@   rewrite_re T-DROP 1 "(?s)impl From<CheckError> for PositionedError \\{.*?\\n\\}\\n" => "/* impl From<CheckError> for PositionedError dropped (nitrogql_error not inlined) */\n"
//@   labelled_blocks is_mismatch:bool null_is_allowed:bool
//@   enumerate_for
//@   wrap_chain vx_filter_count filter,count
//@   wrap_chain vx_find_map find_map
//@   wrap_chain vx_copied_chain_collect copied,chain,collect
//@   rewrite T18 1 "let Value::ObjectValue(value) = value else {" => "let Value::ObjectValue(value__obj) = value else { /* vx:T18 alpha-renamed shadowing binding `value` -> `value__obj` */"
//@   rewrite T18 1 "let value_field = value\n" => "let value_field = value__obj\n"
//@   rewrite T18 2 "value.fields" => "value__obj.fields"
//@   rewrite T11 1 "        mut self,\n" => "        self,\n"
//@   rewrite T12 * "r#type:" => "type_:"
//@   rewrite T12 * "r#enum:" => "enum_:"
//@ end
