//@ contract nitrogql_checker::common ::fn check_arguments
//@   requires [C03+C04+C05.args.pre_schema_wf] crate::schema_wf(definitions)
//@   requires [C03+C04+C05.args.pre_unique_argdefs] crate::nodup(crate::argdef_names(arguments_definition@))
//@   ensures [C03+C04+C05.args.frame] crate::extends_errs(old(result)@, final(result)@)
//@   ensures [C03+C05.args.sound] final(result)@.len() == old(result)@.len() ==> crate::args_valid(definitions, variables, arguments, arguments_definition@)
//@   ensures [C04+C05.args.complete] crate::args_valid(definitions, variables, arguments, arguments_definition@) ==> final(result)@.len() == old(result)@.len()
