// ==== fragment js_model: what JsStringWriter emits for a text (js_esc) and the cooked value of a JavaScript template literal
// ==== body (cooked); every lemma below is PROVED in the unit that includes it.
/// what JsStringWriter appends for one character; `dollar` = the previous character of the same line was '$'
pub open spec fn esc1(c: char, dollar: bool) -> Seq<char> {
    if c == '\\' { seq!['\\', '\\'] } else if c == '`' { seq!['\\', '`'] } else if c == '{' && dollar { seq!['\\', '{'] } else { seq![c] }
}
pub open spec fn dollar_after(a: Seq<char>, dollar: bool) -> bool { if a.len() == 0 { dollar } else { a.last() == '$' } }
pub open spec fn js_esc(s: Seq<char>, dollar: bool) -> Seq<char>
    decreases s.len()
{
    if s.len() == 0 { Seq::<char>::empty() } else { js_esc(s.drop_last(), dollar) + esc1(s.last(), dollar_after(s.drop_last(), dollar)) }
}
//@ lemma [C16.jsstring.js_esc_concat] lemma_js_esc_concat
pub proof fn lemma_js_esc_concat(a: Seq<char>, b: Seq<char>, dollar: bool)
    ensures js_esc(a + b, dollar) == js_esc(a, dollar) + js_esc(b, dollar_after(a, dollar))
    decreases b.len()
{
    if b.len() == 0 {
        assert(a + b =~= a);
        assert(js_esc(a, dollar) + Seq::<char>::empty() =~= js_esc(a, dollar));
    } else {
        let b0 = b.drop_last();
        lemma_js_esc_concat(a, b0, dollar);
        assert((a + b).drop_last() =~= a + b0);
        assert((a + b).last() == b.last());
        assert(dollar_after(a + b0, dollar) == dollar_after(b0, dollar_after(a, dollar))) by {
            if b0.len() > 0 { assert((a + b0).last() == b0.last()); } else { assert(a + b0 =~= a); }
        }
        assert(js_esc(a + b, dollar) =~= js_esc(a, dollar) + js_esc(b, dollar_after(a, dollar)));
    }
}
//@ lemma [C16.jsstring.js_esc_push] lemma_js_esc_push
pub proof fn lemma_js_esc_push(a: Seq<char>, c: char, dollar: bool)
    ensures js_esc(a.push(c), dollar) == js_esc(a, dollar) + esc1(c, dollar_after(a, dollar)),
            dollar_after(a.push(c), dollar) == (c == '$'),
{
    assert(a.push(c).drop_last() =~= a);
}
//@ lemma [C16.jsstring.js_esc_plain] lemma_js_esc_plain
pub proof fn lemma_js_esc_plain(s: Seq<char>, dollar: bool)
    requires forall|i: int| 0 <= i < s.len() ==> s[i] != '\\' && s[i] != '`' && s[i] != '{' && s[i] != '$'
    ensures js_esc(s, dollar) == s, s.len() > 0 ==> !dollar_after(s, dollar)
    decreases s.len()
{
    if s.len() > 0 {
        lemma_js_esc_plain(s.drop_last(), dollar);
        assert(s.drop_last().push(s.last()) =~= s);
    }
}
/// cooked value (TV) of the characters between the backticks of a JavaScript template literal, restricted to the escapes
/// this writer emits; None = the text is not a substitution-free template body that this model can evaluate
/// (unescaped backtick, `${`, an escape other than \\ \` \{, or a carriage return, which JavaScript normalises to \n)
pub open spec fn cooked(t: Seq<char>) -> Option<Seq<char>>
    decreases t.len()
{
    if t.len() == 0 { Some(Seq::<char>::empty()) }
    else if t[0] == '`' || t[0] == '\r' { None }
    else if t[0] == '\\' {
        if t.len() >= 2 && (t[1] == '\\' || t[1] == '`' || t[1] == '{') {
            match cooked(t.skip(2)) { Some(r) => Some(seq![t[1]] + r), None => None }
        } else { None }
    }
    else if t[0] == '$' && t.len() >= 2 && t[1] == '{' { None }
    else { match cooked(t.skip(1)) { Some(r) => Some(seq![t[0]] + r), None => None } }
}
/// front-recursive twin of js_esc (same function; easier to evaluate `cooked` against)
pub open spec fn js_esc_f(s: Seq<char>, dollar: bool) -> Seq<char>
    decreases s.len()
{
    if s.len() == 0 { Seq::<char>::empty() } else { esc1(s[0], dollar) + js_esc_f(s.skip(1), s[0] == '$') }
}
//@ lemma [C16.jsstring.js_esc_f] lemma_js_esc_f
pub proof fn lemma_js_esc_f(s: Seq<char>, dollar: bool)
    ensures js_esc(s, dollar) == js_esc_f(s, dollar)
    decreases s.len()
{
    if s.len() > 0 {
        let h = seq![s[0]];
        let t = s.skip(1);
        assert(h + t =~= s);
        lemma_js_esc_concat(h, t, dollar);
        lemma_js_esc_f(t, s[0] == '$');
        assert(h.drop_last() =~= Seq::<char>::empty());
        assert(js_esc(h.drop_last(), dollar) =~= Seq::<char>::empty());
        assert(js_esc(h, dollar) =~= esc1(s[0], dollar));
        assert(dollar_after(h, dollar) == (s[0] == '$'));
    }
}
/// evaluating what the writer emitted gives back the text (any text without carriage returns), provided the character
/// in front of the emitted text is not an unescaped '$' unless `dollar` says so
//@ lemma [C16.jsstring.cooked_roundtrip] lemma_cooked_roundtrip
pub proof fn lemma_cooked_roundtrip(s: Seq<char>, dollar: bool)
    requires !s.contains('\r')
    ensures cooked(js_esc_f(s, dollar)) == Some(s),
            js_esc_f(s, dollar).len() > 0 && js_esc_f(s, dollar)[0] == '{' ==> !dollar,
    decreases s.len()
{
    if s.len() > 0 {
        let c = s[0];
        let t = s.skip(1);
        assert(c != '\r') by { assert(s.contains(c)); }
        assert(!t.contains('\r')) by { if t.contains('\r') { let i = choose|i: int| 0 <= i < t.len() && t[i] == '\r'; assert(s[i + 1] == '\r'); assert(s.contains('\r')); } }
        lemma_cooked_roundtrip(t, c == '$');
        let e = esc1(c, dollar);
        let r = js_esc_f(t, c == '$');
        let out = e + r;
        assert(seq![c] + t =~= s);
        if c == '\\' || c == '`' || (c == '{' && dollar) {
            assert(out[0] == '\\' && out[1] == c);
            assert(out.skip(2) =~= r);
        } else {
            assert(out[0] == c);
            assert(out.skip(1) =~= r);
            if c == '$' && out.len() >= 2 { assert(out[1] == r[0]); }
        }
    }
}

/// two consecutive writes: the second chunk is escaped with a fresh `dollar` flag, which is the same text unless the first
/// chunk ends with '$' and the second starts with '{'
//@ lemma [C16.jsstring.two_writes] lemma_two_writes
pub proof fn lemma_two_writes(a: Seq<char>, b: Seq<char>)
    requires !a.contains('\r'), !b.contains('\r'), !(a.len() > 0 && a.last() == '$' && b.len() > 0 && b[0] == '{')
    ensures cooked(js_esc(a, false) + js_esc(b, false)) == Some(a + b)
{
    lemma_js_esc_concat(a, b, false);
    lemma_js_esc_f(b, false);
    lemma_js_esc_f(b, dollar_after(a, false));
    assert(js_esc_f(b, false) == js_esc_f(b, dollar_after(a, false)));
    lemma_js_esc_f(a + b, false);
    assert(!(a + b).contains('\r')) by {
        if (a + b).contains('\r') {
            let i = choose|i: int| 0 <= i < (a + b).len() && (a + b)[i] == '\r';
            if i < a.len() { assert(a[i] == '\r'); assert(a.contains('\r')); } else { assert(b[i - a.len()] == '\r'); assert(b.contains('\r')); }
        }
    }
    lemma_cooked_roundtrip(a + b, false);
}
