//@ contract nitrogql_checker::type_system_checker ::fn check_object
//@   requires [C05.ts_object.pre_schema_wf] crate::schema_wf(&definitions.type_system)
//@   ensures [C05.ts_object.frame] crate::extends_errs(old(result)@, final(result)@)
//@   ensures [C05.ts_object.sound] final(result)@.len() == old(result)@.len() ==> crate::valid_object(object, definitions)
//@   ensures [C05.ts_object.complete] crate::valid_object(object, definitions) ==> final(result)@.len() == old(result)@.len()
