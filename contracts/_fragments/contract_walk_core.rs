//@ contract nitrogql_checker::operation_checker ::fn check_fragment_spread_core
//@   requires [C03+C04.walk.core.pre_schema_wf] crate::schema_wf(context.definitions)
//@   requires [C03+C04.walk.core.pre_root_wf] crate::type_fields_args_unique(root_type.inner) && crate::type_fields_args_unique(fragment_condition.inner)
//@   ensures [C03+C04.walk.core.frame] crate::extends_errs(old(result)@, final(result)@)
//@   ensures [C03+C04.walk.core.verdict] (final(result)@.len() == old(result)@.len()) <==> crate::v_core(fragment_map, crate::seen_view(seen_fragments@), variables, *root_type, *fragment_condition, *fragment_selection_set, context.definitions)
