//@ contract nitrogql_checker::types ::fn is_input_type
//@   ret r
//@   ensures [C05.inout.is_input] r == (self is Input || self is Both)
//@ end
//@ contract nitrogql_checker::types ::fn is_output_type
//@   ret r
//@   ensures [C05.inout.is_output] r == (self is Output || self is Both)
//@ end
//@ contract nitrogql_checker::types ::fn inout_kind_of_type
//@   ret r
//@   ensures [C05.inout.known] r is Some <==> crate::schema_types(definitions).contains_key(type_name@)
//@   ensures [C05.inout.kind] r is Some ==> ((r->Some_0 is Input || r->Some_0 is Both) <==> crate::is_input_def(crate::schema_types(definitions)[type_name@].inner)) && ((r->Some_0 is Output || r->Some_0 is Both) <==> crate::is_output_def(crate::schema_types(definitions)[type_name@].inner))
