//@ contract nitrogql_checker::type_system_checker ::fn check_directive
//@   requires [C05.ts_directive.pre_schema_wf] crate::schema_wf(&definitions.type_system)
//@   ensures [C05.ts_directive.frame] crate::extends_errs(old(result)@, final(result)@)
//@   ensures [C05.ts_directive.sound] final(result)@.len() == old(result)@.len() ==> crate::valid_directive_def(d, definitions)
//@   ensures [C05.ts_directive.complete] crate::valid_directive_def(d, definitions) ==> final(result)@.len() == old(result)@.len()
