// ==== spec 3.4.2 "Input and Output Types": IsInputType / IsOutputType of a NAMED type looked up in the schema
pub open spec fn is_input_def<S, N>(d: crate::graphql_type_system::definitions::TypeDefinition<S, N>) -> bool {
    d is Scalar || d is Enum || d is InputObject
}
pub open spec fn is_output_def<S, N>(d: crate::graphql_type_system::definitions::TypeDefinition<S, N>) -> bool {
    d is Scalar || d is Object || d is Interface || d is Union || d is Enum
}
/// innermost named type of an AST type reference (wrappers removed)
pub open spec fn unwrapped_name(t: crate::nitrogql_ast::r#type::Type) -> Seq<char>
    decreases t
{
    match t {
        crate::nitrogql_ast::r#type::Type::Named(n) => n.name.name@,
        crate::nitrogql_ast::r#type::Type::NonNull(inner) => unwrapped_name(inner.r#type),
        crate::nitrogql_ast::r#type::Type::List(inner) => unwrapped_name(inner.r#type),
    }
}
