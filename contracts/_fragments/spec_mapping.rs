// ==== fragment spec_mapping: Source Map v3 `mappings` semantics (consumer accumulators, segment encoding) and the
// ==== abstract view of MappingWriter; shared by unit mapping (prover of add_entry) and unit srcwriter (caller).
//@ extract crates/sourcemap-writer/src/base64_vlq/mod.rs :: const BASE64_CHARS
//@   pub
//@ end

//@ include spec_vlq.rs

// callee by contract only: the clause below is PROVED in unit vlq (C06.vlq.digits); here it is assumed.
//@ extract crates/sourcemap-writer/src/base64_vlq/mod.rs :: fn base64_vlq
//@   attr #[verifier::external_body]
//@   ret result
//@   ensures [assumed.mapping.vlq_contract] result@ == chars_of(vlq_digits(input as int))
//@ end

// ---------------------------------------------------------------- specification
pub open spec fn v(n: int) -> Seq<char> { chars_of(vlq_digits(n)) }

pub open spec fn semis(n: nat) -> Seq<char> { Seq::new(n, |i: int| ';') }

/// decoder accumulators of a Source Map consumer
pub struct Dec { pub line: int, pub col: int, pub src: int, pub ol: int, pub oc: int, pub name: int }

/// what a segment denotes
pub struct Seg { pub line: int, pub col: int, pub src: int, pub ol: int, pub oc: int, pub name: Option<int> }

/// consumer semantics: skip `dl` line separators (each resets the column accumulator), then apply the relative fields
pub open spec fn dec_apply(d: Dec, dl: nat, f: Seq<int>) -> (Dec, Seg) {
    let col0 = if dl > 0 { 0 } else { d.col };
    let line = d.line + dl;
    let col = col0 + f[0];
    let src = d.src + f[1];
    let ol = d.ol + f[2];
    let oc = d.oc + f[3];
    let name = if f.len() == 5 { d.name + f[4] } else { d.name };
    (Dec { line, col, src, ol, oc, name },
     Seg { line, col, src, ol, oc, name: if f.len() == 5 { Some(name) } else { None } })
}

/// the relative fields a producer must emit so that the consumer recovers `s`
pub open spec fn fields_for(d: Dec, s: Seg) -> Seq<int> {
    let col0 = if s.line > d.line { 0 } else { d.col };
    let base = seq![s.col - col0, s.src - d.src, s.ol - d.ol, s.oc - d.oc];
    match s.name { Some(n) => base.push(n - d.name), None => base }
}

pub open spec fn enc_fields(f: Seq<int>) -> Seq<char>
    decreases f.len()
{
    if f.len() == 0 { Seq::empty() } else { v(f[0]) + enc_fields(f.drop_first()) }
}

/// text appended for one segment: separators then the fields.  `first` = nothing has been emitted yet.
pub open spec fn enc_entry(d: Dec, first: bool, s: Seg) -> Seq<char> {
    let dl = (s.line - d.line) as nat;
    let sep = if dl > 0 { semis(dl) } else if first { Seq::<char>::empty() } else { seq![','] };
    sep + enc_fields(fields_for(d, s))
}

//@ extract crates/sourcemap-writer/src/source_writer/mapping_writer.rs :: struct MappingWriter
//@   pubfields
//@ end

impl MappingWriter {
    pub open spec fn dec(&self) -> Dec {
        Dec { line: self.last_generated_line as int, col: self.last_generated_column as int,
              src: self.last_file_index as int, ol: self.last_original_line as int,
              oc: self.last_original_column as int, name: self.last_name_index as int }
    }
    pub open spec fn wf(&self) -> bool {
        &&& self.last_generated_line <= isize::MAX
        &&& self.last_generated_column <= isize::MAX
        &&& self.last_original_line <= isize::MAX
        &&& self.last_original_column <= isize::MAX
        &&& self.last_name_index <= isize::MAX
        &&& self.last_file_index <= isize::MAX
    }
    pub open spec fn out(&self) -> Seq<char> { self.buffer@ }
}

pub open spec fn seg_of(gl: usize, gc: usize, ol: usize, oc: usize, fi: usize, ni: Option<usize>) -> Seg {
    Seg { line: gl as int, col: gc as int, src: fi as int, ol: ol as int, oc: oc as int,
          name: match ni { Some(n) => Some(n as int), None => None } }
}

