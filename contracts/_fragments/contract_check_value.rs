//@ contract nitrogql_checker::common ::fn check_value
//@   requires [C03+C04+C05.value.pre_schema_wf] crate::schema_wf(definitions)
//@   ensures [C03+C04+C05.value.frame] crate::extends_errs(old(result)@, final(result)@)
//@   ensures [C03+C04+C05.value.exact] (final(result)@.len() == old(result)@.len()) <==> crate::value_valid(definitions, variables, *value, *expected_type)
