//@ contract nitrogql_checker::type_system_checker ::fn check_interface
//@   requires [C05.ts_interface.pre_schema_wf] crate::schema_wf(&definitions.type_system)
//@   ensures [C05.ts_interface.frame] crate::extends_errs(old(result)@, final(result)@)
//@   ensures [C05.ts_interface.sound] final(result)@.len() == old(result)@.len() ==> crate::valid_interface(interface, definitions)
//@   ensures [C05.ts_interface.complete] crate::valid_interface(interface, definitions) ==> final(result)@.len() == old(result)@.len()
