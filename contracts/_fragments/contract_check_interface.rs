//@ contract nitrogql_checker::type_system_checker ::fn check_interface
//@   ensures [C05.ts_interface.frame] crate::extends_errs(old(result)@, final(result)@)
//@   ensures [C05.ts_interface.sound] final(result)@.len() == old(result)@.len() ==> crate::valid_interface(interface, definitions)
//@   ensures [C05.ts_interface.complete] crate::valid_interface(interface, definitions) ==> final(result)@.len() == old(result)@.len()
