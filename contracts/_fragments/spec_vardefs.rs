// ==== spec 5.8.1 / 5.8.2 variable definitions, 5.5.1.2 / 5.5.1.3 fragment targets
use crate::nitrogql_ast::operation::FragmentDefinition;
use crate::nitrogql_checker::operation_checker::context::OperationCheckContext;

pub open spec fn var_names(v: Seq<VariableDefinition>) -> Seq<Seq<char>> { Seq::new(v.len(), |k: int| v[k].name.name@) }
/// 5.8.2: the (unwrapped) type of a variable is a defined input type
pub open spec fn var_type_ok<S>(sch: &Schema<S, Pos>, v: VariableDefinition) -> bool {
    schema_types(sch).contains_key(unwrapped_name(v.r#type)) && is_input_def(schema_types(sch)[unwrapped_name(v.r#type)].inner)
}
pub open spec fn vardefs_ok_upto<S>(sch: &Schema<S, Pos>, vs: Seq<VariableDefinition>, n: int) -> bool {
    &&& nodup(var_names(vs).take(n))                                       // 5.8.1 Variable Uniqueness
    &&& forall|i: int| 0 <= i < n ==> var_type_ok(sch, #[trigger] vs[i])   // 5.8.2 Variables Are Input Types
}
pub open spec fn valid_vardefs<S>(sch: &Schema<S, Pos>, vs: &VariablesDefinition) -> bool { vardefs_ok_upto(sch, vs.definitions@, vs.definitions@.len() as int) }

/// 5.5.1.2 the type condition names a defined type; 5.5.1.3 which is an Object, Interface or Union
pub open spec fn valid_fragment_target<S>(sch: &Schema<S, Pos>, f: &FragmentDefinition) -> bool {
    schema_types(sch).contains_key(f.type_condition.name@) && {
        let d = schema_types(sch)[f.type_condition.name@].inner;
        d is Object || d is Interface || d is Union
    }
}

