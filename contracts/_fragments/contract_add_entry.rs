//@   fn add_entry
//@   requires [C06.mapping.add.pre_wf] old(self).wf()
//@   requires [C06.mapping.add.pre_monotone] generated_line >= old(self).last_generated_line
//@   requires [C06.mapping.add.pre_not_first_on_line0] generated_line > old(self).last_generated_line || old(self).out().len() > 0
//@   requires [C06.mapping.add.pre_range] generated_line <= isize::MAX && generated_column <= isize::MAX && original_line <= isize::MAX && original_column <= isize::MAX && source_file_index <= isize::MAX && (name_index matches Some(n) ==> n <= isize::MAX)
//@   ensures [C06.mapping.add.wf] final(self).wf()
//@   ensures [C06.mapping.add.appends_segment] final(self).out() == old(self).out() + enc_entry(old(self).dec(), old(self).out().len() == 0, seg_of(generated_line, generated_column, original_line, original_column, source_file_index, name_index))
//@   ensures [C06.mapping.add.state] final(self).dec() == dec_apply(old(self).dec(), (generated_line - old(self).last_generated_line) as nat, fields_for(old(self).dec(), seg_of(generated_line, generated_column, original_line, original_column, source_file_index, name_index))).0
