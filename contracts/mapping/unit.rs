//@ unit mapping primary=C06 props=C06,C08
// Unit mapping: crates/sourcemap-writer/src/source_writer/mapping_writer.rs  (the "mappings" string of a Source Map v3)
// Oracle (Source Map v3, "mappings"): lines of the generated file are separated by ';', segments of a line by ',';
// a segment is 4 or 5 VLQ fields: generated column (relative to the previous segment of the SAME line, absolute at
// the start of a line), source index, original line, original column (each relative to the previous segment),
// and optionally the name index (relative to the previous segment that had one).
#![allow(unused)]
use vstd::prelude::*;
verus! {

global size_of usize == 8;

//@ include stdlib_repeat.rs

//@ fragment spec_mapping.rs

//@ lemma [C06.mapping.decode_inverts] lemma_decode_inverts
pub proof fn lemma_decode_inverts(d: Dec, s: Seg)
    requires s.line >= d.line
    ensures
        dec_apply(d, (s.line - d.line) as nat, fields_for(d, s)).1 == s,
        dec_apply(d, (s.line - d.line) as nat, fields_for(d, s)).0 ==
            (Dec { line: s.line, col: s.col, src: s.src, ol: s.ol, oc: s.oc,
                   name: match s.name { Some(n) => n, None => d.name } }),
{
}

proof fn lemma_enc_fields4(a: int, b: int, c: int, d: int)
    ensures enc_fields(seq![a, b, c, d]) == v(a) + v(b) + v(c) + v(d)
{
    let s = seq![a, b, c, d];
    assert(s.drop_first() =~= seq![b, c, d]);
    assert(seq![b, c, d].drop_first() =~= seq![c, d]);
    assert(seq![c, d].drop_first() =~= seq![d]);
    assert(seq![d].drop_first() =~= Seq::<int>::empty());
    reveal_with_fuel(enc_fields, 6);
    assert(enc_fields(s) =~= v(a) + v(b) + v(c) + v(d));
}
proof fn lemma_enc_fields5(a: int, b: int, c: int, d: int, e: int)
    ensures enc_fields(seq![a, b, c, d].push(e)) == v(a) + v(b) + v(c) + v(d) + v(e)
{
    let s = seq![a, b, c, d].push(e);
    assert(s.drop_first() =~= seq![b, c, d, e]);
    assert(seq![b, c, d, e].drop_first() =~= seq![c, d, e]);
    assert(seq![c, d, e].drop_first() =~= seq![d, e]);
    assert(seq![d, e].drop_first() =~= seq![e]);
    assert(seq![e].drop_first() =~= Seq::<int>::empty());
    reveal_with_fuel(enc_fields, 7);
    assert(enc_fields(s) =~= v(a) + v(b) + v(c) + v(d) + v(e));
}

//@ extract crates/sourcemap-writer/src/source_writer/mapping_writer.rs :: impl MappingWriter
//@   fn new
//@   ret r
//@   ensures [C06.mapping.new.empty] r.out() == Seq::<char>::empty()
//@   ensures [C06.mapping.new.state] r.wf() && r.dec() == (Dec { line: 0, col: 0, src: 0, ol: 0, oc: 0, name: 0 })
//@   fn into_buffer
//@   ret r
//@   ensures [C06.mapping.into_buffer] r@ == self.out()
//@ fragment contract_add_entry.rs
//@   prefix proof { let d = old(self).dec(); let s = seg_of(generated_line, generated_column, original_line, original_column, source_file_index, name_index); let f = fields_for(d, s); lemma_enc_fields4(f[0], f[1], f[2], f[3]); if name_index.is_some() { lemma_enc_fields5(f[0], f[1], f[2], f[3], f[4]); assert(f =~= seq![f[0], f[1], f[2], f[3]].push(f[4])); } else { assert(f =~= seq![f[0], f[1], f[2], f[3]]); } lemma_decode_inverts(d, s); }
//@   hint after 0 ".push_str(&\";\".repeat(generated_line - self.last_generated_line));" :: [C06.mapping.add.semis_step] proof { reveal_strlit(";"); assert(self.buffer@ =~= old(self).buffer@ + semis((generated_line - old(self).last_generated_line) as nat)); }
//@   hint after 0 "self.last_file_index = source_file_index;" :: [C06.mapping.add.appends_segment#final] proof { assert(self.buffer@ =~= old(self).out() + enc_entry(old(self).dec(), old(self).out().len() == 0, seg_of(generated_line, generated_column, original_line, original_column, source_file_index, name_index))); }
//@ end

fn vx_vacuity_mapping() {
    let mut w = MappingWriter::new();
    w.add_entry(3, 4, 0, 0, 0, None);
    w.add_entry(3, 9, 1, 2, 0, Some(7));
    w.add_entry(5, 0, 1, 0, 1, None);
    let b = w.into_buffer();
}

//@ canary

} // verus!
fn main() {}
