//@ unit mapping primary=C06 props=C06,C08
// Unit mapping: crates/sourcemap-writer/src/source_writer/mapping_writer.rs  (the "mappings" string of a Source Map v3)
// Oracle (Source Map v3, "mappings"): lines of the generated file are separated by ';', segments of a line by ',';
// a segment is 4 or 5 VLQ fields: generated column (relative to the previous segment of the SAME line, absolute at
// the start of a line), source index, original line, original column (each relative to the previous segment),
// and optionally the name index (relative to the previous segment that had one).
#![allow(unused)]
use vstd::prelude::*;
verus! {

global size_of usize == 8;

//@ include stdlib_repeat.rs

//@ extract crates/sourcemap-writer/src/base64_vlq/mod.rs :: const BASE64_CHARS
//@   pub
//@ end

//@ include spec_vlq.rs

// callee by contract only: the clause below is PROVED in unit vlq (C06.vlq.digits); here it is assumed.
//@ extract crates/sourcemap-writer/src/base64_vlq/mod.rs :: fn base64_vlq
//@   attr #[verifier::external_body]
//@   ret result
//@   ensures [C06.mapping.assumed_vlq_contract] result@ == chars_of(vlq_digits(input as int))
//@ end

// ---------------------------------------------------------------- specification
pub open spec fn v(n: int) -> Seq<char> { chars_of(vlq_digits(n)) }

pub open spec fn semis(n: nat) -> Seq<char> { Seq::new(n, |i: int| ';') }

/// decoder accumulators of a Source Map consumer
pub struct Dec { pub line: int, pub col: int, pub src: int, pub ol: int, pub oc: int, pub name: int }

/// what a segment denotes
pub struct Seg { pub line: int, pub col: int, pub src: int, pub ol: int, pub oc: int, pub name: Option<int> }

/// consumer semantics: skip `dl` line separators (each resets the column accumulator), then apply the relative fields
pub open spec fn dec_apply(d: Dec, dl: nat, f: Seq<int>) -> (Dec, Seg) {
    let col0 = if dl > 0 { 0 } else { d.col };
    let line = d.line + dl;
    let col = col0 + f[0];
    let src = d.src + f[1];
    let ol = d.ol + f[2];
    let oc = d.oc + f[3];
    let name = if f.len() == 5 { d.name + f[4] } else { d.name };
    (Dec { line, col, src, ol, oc, name },
     Seg { line, col, src, ol, oc, name: if f.len() == 5 { Some(name) } else { None } })
}

/// the relative fields a producer must emit so that the consumer recovers `s`
pub open spec fn fields_for(d: Dec, s: Seg) -> Seq<int> {
    let col0 = if s.line > d.line { 0 } else { d.col };
    let base = seq![s.col - col0, s.src - d.src, s.ol - d.ol, s.oc - d.oc];
    match s.name { Some(n) => base.push(n - d.name), None => base }
}

pub open spec fn enc_fields(f: Seq<int>) -> Seq<char>
    decreases f.len()
{
    if f.len() == 0 { Seq::empty() } else { v(f[0]) + enc_fields(f.drop_first()) }
}

/// text appended for one segment: separators then the fields.  `first` = nothing has been emitted yet.
pub open spec fn enc_entry(d: Dec, first: bool, s: Seg) -> Seq<char> {
    let dl = (s.line - d.line) as nat;
    let sep = if dl > 0 { semis(dl) } else if first { Seq::<char>::empty() } else { seq![','] };
    sep + enc_fields(fields_for(d, s))
}

//@ lemma [C06.mapping.decode_inverts] lemma_decode_inverts
pub proof fn lemma_decode_inverts(d: Dec, s: Seg)
    requires s.line >= d.line
    ensures
        dec_apply(d, (s.line - d.line) as nat, fields_for(d, s)).1 == s,
        dec_apply(d, (s.line - d.line) as nat, fields_for(d, s)).0 ==
            (Dec { line: s.line, col: s.col, src: s.src, ol: s.ol, oc: s.oc,
                   name: match s.name { Some(n) => n, None => d.name } }),
{
}

//@ extract crates/sourcemap-writer/src/source_writer/mapping_writer.rs :: struct MappingWriter
//@   pubfields
//@ end

impl MappingWriter {
    pub open spec fn dec(&self) -> Dec {
        Dec { line: self.last_generated_line as int, col: self.last_generated_column as int,
              src: self.last_file_index as int, ol: self.last_original_line as int,
              oc: self.last_original_column as int, name: self.last_name_index as int }
    }
    pub open spec fn wf(&self) -> bool {
        &&& self.last_generated_line <= isize::MAX
        &&& self.last_generated_column <= isize::MAX
        &&& self.last_original_line <= isize::MAX
        &&& self.last_original_column <= isize::MAX
        &&& self.last_name_index <= isize::MAX
        &&& self.last_file_index <= isize::MAX
    }
    pub open spec fn out(&self) -> Seq<char> { self.buffer@ }
}

pub open spec fn seg_of(gl: usize, gc: usize, ol: usize, oc: usize, fi: usize, ni: Option<usize>) -> Seg {
    Seg { line: gl as int, col: gc as int, src: fi as int, ol: ol as int, oc: oc as int,
          name: match ni { Some(n) => Some(n as int), None => None } }
}

proof fn lemma_enc_fields4(a: int, b: int, c: int, d: int)
    ensures enc_fields(seq![a, b, c, d]) == v(a) + v(b) + v(c) + v(d)
{
    let s = seq![a, b, c, d];
    assert(s.drop_first() =~= seq![b, c, d]);
    assert(seq![b, c, d].drop_first() =~= seq![c, d]);
    assert(seq![c, d].drop_first() =~= seq![d]);
    assert(seq![d].drop_first() =~= Seq::<int>::empty());
    reveal_with_fuel(enc_fields, 6);
    assert(enc_fields(s) =~= v(a) + v(b) + v(c) + v(d));
}
proof fn lemma_enc_fields5(a: int, b: int, c: int, d: int, e: int)
    ensures enc_fields(seq![a, b, c, d].push(e)) == v(a) + v(b) + v(c) + v(d) + v(e)
{
    let s = seq![a, b, c, d].push(e);
    assert(s.drop_first() =~= seq![b, c, d, e]);
    assert(seq![b, c, d, e].drop_first() =~= seq![c, d, e]);
    assert(seq![c, d, e].drop_first() =~= seq![d, e]);
    assert(seq![d, e].drop_first() =~= seq![e]);
    assert(seq![e].drop_first() =~= Seq::<int>::empty());
    reveal_with_fuel(enc_fields, 7);
    assert(enc_fields(s) =~= v(a) + v(b) + v(c) + v(d) + v(e));
}

//@ extract crates/sourcemap-writer/src/source_writer/mapping_writer.rs :: impl MappingWriter
//@   fn new
//@   ret r
//@   ensures [C06.mapping.new.empty] r.out() == Seq::<char>::empty()
//@   ensures [C06.mapping.new.state] r.wf() && r.dec() == (Dec { line: 0, col: 0, src: 0, ol: 0, oc: 0, name: 0 })
//@   fn into_buffer
//@   ret r
//@   ensures [C06.mapping.into_buffer] r@ == self.out()
//@   fn add_entry
//@   requires [C06.mapping.add.pre_wf] old(self).wf()
//@   requires [C06.mapping.add.pre_monotone] generated_line >= old(self).last_generated_line
//@   requires [C06.mapping.add.pre_not_first_on_line0] generated_line > old(self).last_generated_line || old(self).out().len() > 0
//@   requires [C06.mapping.add.pre_range] generated_line <= isize::MAX && generated_column <= isize::MAX && original_line <= isize::MAX && original_column <= isize::MAX && source_file_index <= isize::MAX && (name_index matches Some(n) ==> n <= isize::MAX)
//@   ensures [C06.mapping.add.wf] final(self).wf()
//@   ensures [C06.mapping.add.appends_segment] final(self).out() == old(self).out() + enc_entry(old(self).dec(), old(self).out().len() == 0, seg_of(generated_line, generated_column, original_line, original_column, source_file_index, name_index))
//@   ensures [C06.mapping.add.state] final(self).dec() == dec_apply(old(self).dec(), (generated_line - old(self).last_generated_line) as nat, fields_for(old(self).dec(), seg_of(generated_line, generated_column, original_line, original_column, source_file_index, name_index))).0
//@   prefix proof { let d = old(self).dec(); let s = seg_of(generated_line, generated_column, original_line, original_column, source_file_index, name_index); let f = fields_for(d, s); lemma_enc_fields4(f[0], f[1], f[2], f[3]); if name_index.is_some() { lemma_enc_fields5(f[0], f[1], f[2], f[3], f[4]); assert(f =~= seq![f[0], f[1], f[2], f[3]].push(f[4])); } else { assert(f =~= seq![f[0], f[1], f[2], f[3]]); } lemma_decode_inverts(d, s); }
//@   hint after 0 ".push_str(&\";\".repeat(generated_line - self.last_generated_line));" :: [C06.mapping.add.semis_step] proof { reveal_strlit(";"); assert(self.buffer@ =~= old(self).buffer@ + semis((generated_line - old(self).last_generated_line) as nat)); }
//@   hint after 0 "self.last_file_index = source_file_index;" :: [C06.mapping.add.appends_segment#final] proof { assert(self.buffer@ =~= old(self).out() + enc_entry(old(self).dec(), old(self).out().len() == 0, seg_of(generated_line, generated_column, original_line, original_column, source_file_index, name_index))); }
//@ end

fn vx_vacuity_mapping() {
    let mut w = MappingWriter::new();
    w.add_entry(3, 4, 0, 0, 0, None);
    w.add_entry(3, 9, 1, 2, 0, Some(7));
    w.add_entry(5, 0, 1, 0, 1, None);
    let b = w.into_buffer();
}

//@ canary

} // verus!
fn main() {}
