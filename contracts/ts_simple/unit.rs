//@ unit ts_simple primary=C05 props=C05,C08
// Unit ts_simple: crates/checker/src/type_system_checker/mod.rs::{check_scalar, check_schema, check_union,
//   check_input_object, check_arguments_definition, check_directive}
// Oracle: GraphQL spec section 3 "Type Validation" lists (fragment spec_typesystem.rs).
//  C05 (both directions): the function adds no diagnostic  <=>  the definition satisfies the rules.
#![feature(pattern, allocator_api)]
#![allow(unused)]
use vstd::prelude::*;
use vstd::std_specs::cmp::PartialEqSpec;
verus! {
//@ fragment checker_base.rs
//@ include strmodel.rs
//@ fragment schema_view.rs
//@ fragment seenlist.rs
//@ fragment checker_spec.rs
//@ fragment spec_inout.rs
//@ fragment spec_typesystem.rs
//@ fragment assumed_checker_leafs.rs

//@ contract nitrogql_checker::type_system_checker::check_directive_recursion ::fn check_directive_recursion
//@   attr #[verifier::external_body]
//@   ensures [assumed.dirrec.frame] crate::extends_errs(old(result)@, final(result)@)
//@   ensures [assumed.dirrec.exact] (final(result)@.len() == old(result)@.len()) <==> crate::directive_not_recursive(definition_map, directive)
//@ end

//@ fragment contract_check_scalar.rs
//@   unexternal
//@ end
//@ fragment contract_check_schema.rs
//@ end

//@ fragment contract_argsdef.rs
//@   unexternal
//@   loops 1
//@   loop 0 iter_name it
//@   loop 0 invariant [C05.argsdef.loop.iter] it.seq().len() == def.input_values@.len() && 0 <= it.index@ <= it.seq().len() && (forall|i: int| 0 <= i < it.seq().len() ==> *it.seq()[i] == def.input_values@[i])
//@   loop 0 invariant [C05.argsdef.loop.frame] crate::extends_errs(old(result)@, result@) && crate::schema_wf(&definitions.type_system)
//@   loop 0 invariant [C05.argsdef.loop.seen] crate::seen_ok(crate::names_view(argument_names), crate::inputvalue_names(def.input_values@), it.index@ as int)
//@   loop 0 invariant [C05.argsdef.loop.exact] (result@.len() == old(result)@.len()) <==> crate::argsdef_ok_upto(def, definitions, it.index@ as int)
//@   hint before 0 "let mut argument_names = vec![];" :: [C05.argsdef.h_init] proof { crate::axiom_str_obeys(); crate::lemma_seen_init(crate::inputvalue_names(def.input_values@)); }
//@   loop 0 prefix let ghost mut n: int = 0; let ghost names = crate::inputvalue_names(def.input_values@); let ghost seen0 = argument_names@; proof { n = it.index@ as int; crate::axiom_str_obeys(); crate::lemma_nodup_step(names, n); assert(*v == def.input_values@[n]); assert(names[n] == v.name.name@); }
//@   hint after 0 "if argument_names.contains(&v.name.name) {" :: [C05.argsdef.h_hit] proof { crate::lemma_vec_contains(argument_names, v.name.name, true); crate::lemma_seen_hit(crate::names_view(argument_names), names, n); }
//@   hint before 0 "argument_names.push(v.name.name);" :: [C05.argsdef.h_miss] proof { crate::lemma_vec_contains(argument_names, v.name.name, false); crate::lemma_seen_miss(crate::names_view(argument_names), names, n); }
//@   hint after 0 "argument_names.push(v.name.name);" :: [C05.argsdef.h_pushed] proof { crate::lemma_names_push(seen0, argument_names, v.name.name); }
//@   suffix [C05.argsdef.h_exit] proof { reveal(crate::valid_argsdef); }
//@ end

//@ fragment contract_check_union.rs
//@   unexternal
//@   loops 1
//@   loop 0 iter_name it
//@   loop 0 invariant [C05.ts_union.loop.iter] it.seq().len() == union.members@.len() && 0 <= it.index@ <= it.seq().len() && (forall|i: int| 0 <= i < it.seq().len() ==> *it.seq()[i] == union.members@[i])
//@   loop 0 invariant [C05.ts_union.loop.frame] crate::extends_errs(old(result)@, result@) && crate::schema_wf(&definitions.type_system)
//@   loop 0 invariant [C05.ts_union.loop.seen] crate::seen_ok(crate::names_view(seen_members), crate::ident_names(union.members@), it.index@ as int)
//@   loop 0 invariant [C05.ts_union.loop.exact] (result@.len() == old(result)@.len()) <==> crate::union_ok_upto(union, definitions, it.index@ as int)
//@   prefix broadcast use crate::str_key_model;
//@   loop 0 prefix broadcast use crate::str_key_model;
//@   hint before 0 "let mut seen_members = vec![];" :: [C05.ts_union.h_init] proof { crate::axiom_str_obeys(); crate::lemma_seen_init(crate::ident_names(union.members@)); }
//@   loop 0 prefix let ghost mut n: int = 0; let ghost names = crate::ident_names(union.members@); let ghost seen0 = seen_members@; proof { n = it.index@ as int; crate::axiom_str_obeys(); crate::lemma_nodup_step(names, n); assert(*member == union.members@[n]); assert(names[n] == member.name@); }
//@   hint after 0 "if seen_members.contains(&member.name) {" :: [C05.ts_union.h_hit] proof { crate::lemma_vec_contains(seen_members, member.name, true); crate::lemma_seen_hit(crate::names_view(seen_members), names, n); }
//@   hint before 0 "seen_members.push(member.name);" :: [C05.ts_union.h_miss] proof { crate::lemma_vec_contains(seen_members, member.name, false); crate::lemma_seen_miss(crate::names_view(seen_members), names, n); }
//@   hint after 0 "seen_members.push(member.name);" :: [C05.ts_union.h_pushed] proof { crate::lemma_names_push(seen0, seen_members, member.name); }
//@ end

//@ fragment contract_check_input_object.rs
//@   unexternal
//@   loops 1
//@   loop 0 iter_name it
//@   loop 0 invariant [C05.ts_input.loop.iter] it.seq().len() == input.fields@.len() && 0 <= it.index@ <= it.seq().len() && (forall|i: int| 0 <= i < it.seq().len() ==> *it.seq()[i] == input.fields@[i])
//@   loop 0 invariant [C05.ts_input.loop.frame] crate::extends_errs(old(result)@, result@) && crate::schema_wf(&definitions.type_system)
//@   loop 0 invariant [C05.ts_input.loop.seen] crate::seen_ok(crate::names_view(seen_fields), crate::inputvalue_names(input.fields@), it.index@ as int)
//@   loop 0 invariant [C05.ts_input.loop.exact] (result@.len() == old(result)@.len()) <==> crate::input_ok_upto(input, definitions, it.index@ as int)
//@   hint before 0 "let mut seen_fields = vec![];" :: [C05.ts_input.h_init] proof { crate::axiom_str_obeys(); crate::lemma_seen_init(crate::inputvalue_names(input.fields@)); }
//@   loop 0 prefix let ghost mut n: int = 0; let ghost names = crate::inputvalue_names(input.fields@); let ghost seen0 = seen_fields@; proof { n = it.index@ as int; crate::axiom_str_obeys(); crate::lemma_nodup_step(names, n); assert(*f == input.fields@[n]); assert(names[n] == f.name.name@); }
//@   hint after 0 "if seen_fields.contains(&f.name.name) {" :: [C05.ts_input.h_hit] proof { crate::lemma_vec_contains(seen_fields, f.name.name, true); crate::lemma_seen_hit(crate::names_view(seen_fields), names, n); }
//@   hint before 0 "seen_fields.push(f.name.name);" :: [C05.ts_input.h_miss] proof { crate::lemma_vec_contains(seen_fields, f.name.name, false); crate::lemma_seen_miss(crate::names_view(seen_fields), names, n); }
//@   hint after 0 "seen_fields.push(f.name.name);" :: [C05.ts_input.h_pushed] proof { crate::lemma_names_push(seen0, seen_fields, f.name.name); }
//@   closure 0 |k: crate::nitrogql_checker::types::TypeInOutKind| -> (b: bool) ;; ensures [C05.ts_input.cl] b == !(k is Input || k is Both)
//@ end

//@ fragment contract_check_directive.rs
//@   unexternal
//@ end

//@ canary
} // verus!
fn main() {}
