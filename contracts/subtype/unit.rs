//@ unit subtype primary=C05 props=C05,C08
// Unit subtype: crates/checker/src/types.rs::is_subtype  == GraphQL spec IsValidImplementationFieldType / IsSubType (3.6 Objects,
// "Type Validation" 2.4.2), used to check that an implementing field's type is covariant with the interface field's type.
#![feature(pattern, allocator_api)]
#![allow(unused)]
use vstd::prelude::*;
use vstd::std_specs::cmp::PartialEqSpec;
verus! {
//@ fragment checker_base.rs
//@ include strmodel.rs
//@ fragment typesys_contracts.rs
//@ fragment schema_view.rs

use crate::graphql_type_system::r#type::Type;
use crate::graphql_type_system::schema::Schema;
use crate::graphql_type_system::definitions::TypeDefinition;
use crate::graphql_type_system::node::Node;
use crate::nitrogql_ast::base::Pos;

// ---------------------------------------------------------------- oracle: GraphQL specification
pub open spec fn has_name<S>(v: Seq<Node<S, Pos>>, n: Seq<char>) -> bool {
    exists|i: int| 0 <= i < v.len() && tv(#[trigger] v[i].inner) == n
}
/// IsSubType(possibleSubType, superType) for named types:
///  1. same type; 2. sub is an Object, super is a Union and sub is a possible type of it;
///  3. sub is an Object or Interface and declares that it implements super.
/// (Rule 3 in the spec also says "super is an Interface type": that every `implements` target is an interface is
///  checked separately by check_object / check_interface; here the declaration is what counts.)
pub open spec fn is_sub_type<S>(sch: &Schema<S, Pos>, sub: Seq<char>, sup: Seq<char>) -> bool {
    ||| sub == sup
    ||| (schema_types(sch).contains_key(sub) && schema_types(sch)[sub].inner is Object
         && schema_types(sch).contains_key(sup) && schema_types(sch)[sup].inner is Union
         && has_name(schema_types(sch)[sup].inner->Union_0.possible_types@, sub))
    ||| (schema_types(sch).contains_key(sub) && (schema_types(sch)[sub].inner matches TypeDefinition::Object(o) && has_name(o.interfaces@, sup)))
    ||| (schema_types(sch).contains_key(sub) && (schema_types(sch)[sub].inner matches TypeDefinition::Interface(i) && has_name(i.interfaces@, sup)))
}
/// IsValidImplementationFieldType(fieldType, implementedFieldType)
pub open spec fn valid_impl_field_type<S>(sch: &Schema<S, Pos>, field: Type<S, Pos>, implemented: Type<S, Pos>) -> bool
    decreases field
{
    if let Type::NonNull(f) = field {
        // 1. non-null field type: strip it, and strip the implemented type's non-null if it has one
        let imp = if let Type::NonNull(i) = implemented { i.inner } else { implemented };
        valid_impl_field_type(sch, f.inner, imp)
    } else if field is List && implemented is List {
        // 2. both lists: item types
        valid_impl_field_type(sch, field->List_0.inner, implemented->List_0.inner)
    } else {
        // 3. IsSubType (only named types can be sub types of each other; anything else must be identical, which
        //    cannot happen here because a List never equals a non-List and the field type is not Non-Null)
        field is Named && implemented is Named
            && is_sub_type(sch, tv(field->Named_0.name.inner), tv(implemented->Named_0.name.inner))
    }
}
pub open spec fn leaf_name<S>(t: Type<S, Pos>) -> Seq<char>
    decreases t
{
    match t {
        Type::Named(n) => tv(n.name.inner),
        Type::List(l) => leaf_name(l.inner),
        Type::NonNull(n) => leaf_name(n.inner),
    }
}

//@ contract graphql_type_system::definitions ::fn as_union
//@   ret r
//@   ensures [C05.subtype.as_union] r == (match *self { TypeDefinition::Union(d) => Some(&d), _ => None::<&crate::graphql_type_system::definitions::UnionDefinition<Str, OriginalNode>> })
//@ end

//@ contract nitrogql_checker::types ::fn is_subtype
//@   ret r
//@   ensures [C05.subtype.sound] r == Some(true) ==> crate::valid_impl_field_type(definitions, *target, *other)
//@   ensures [C05.subtype.reject_only_invalid] r == Some(false) ==> !crate::valid_impl_field_type(definitions, *target, *other)
//@   ensures [C05.subtype.unknown_only_if_unknown_type] r is None ==> !(crate::schema_types(definitions).contains_key(crate::leaf_name(*target)) && crate::schema_types(definitions).contains_key(crate::leaf_name(*other)))
//@   decreases [C05.subtype.terminates] *target
//@   prefix broadcast use crate::text_model; proof { crate::axiom_text_obeys::<S>(); }
//@   hint after 0 "} else if other_def.is_some() {" :: [C05.subtype.hint_iface_not_declared] proof { let rem0 = target_def.interfaces@.as_ref(); assert forall|k: int| 0 <= k < target_def.interfaces@.len() implies crate::tv(#[trigger] target_def.interfaces@[k].inner) != crate::tv(other_name.name.inner) by { assert(*rem0[k] == target_def.interfaces@[k]); } }
//@   hint before 0 "if let Some(other_def) = other_def.and_then(" :: [C05.subtype.hint_obj_not_declared] proof { if other_name.is_some() { let on = other_name.unwrap(); let rem0 = target_def.interfaces@.as_ref(); assert forall|k: int| 0 <= k < target_def.interfaces@.len() implies crate::tv(#[trigger] target_def.interfaces@[k].inner) != crate::tv(on.name.inner) by { assert(*rem0[k] == target_def.interfaces@[k]); } } }
//@   hint after 2 "return Some(true); }" :: [C05.subtype.hint_not_member] proof { let rem1 = other_def.possible_types@.as_ref(); assert forall|k: int| 0 <= k < other_def.possible_types@.len() implies crate::tv(#[trigger] other_def.possible_types@[k].inner) != crate::tv(target_name.name.inner) by { assert(*rem1[k] == other_def.possible_types@[k]); } }
//@   closure 0 |other_name: &crate::graphql_type_system::r#type::NamedType<S, Pos>| -> (o: Option<&crate::graphql_type_system::node::Node<TypeDefinition<S, Pos>, Pos>>) ;; ensures [C05.subtype.cl0] match o { Some(n) => crate::schema_types(definitions).contains_key(crate::tv(other_name.name.inner)) && *n == crate::schema_types(definitions)[crate::tv(other_name.name.inner)], None => !crate::schema_types(definitions).contains_key(crate::tv(other_name.name.inner)) }
//@   closure 1 |imp: &crate::graphql_type_system::node::Node<S, Pos>| -> (b: bool) ;; ensures [C05.subtype.cl1] b == (crate::tv(imp.inner) == crate::tv(other_name.name.inner))
//@   closure 2 |imp: &crate::graphql_type_system::node::Node<S, Pos>| -> (b: bool) ;; ensures [C05.subtype.cl2] b == (crate::tv(imp.inner) == crate::tv(other_name.name.inner))
//@   closure 3 |def: &crate::graphql_type_system::node::Node<TypeDefinition<S, Pos>, Pos>| -> (u: Option<&crate::graphql_type_system::definitions::UnionDefinition<S, Pos>>) ;; ensures [C05.subtype.cl3] u == (match def.inner { TypeDefinition::Union(d) => Some(&d), _ => None::<&crate::graphql_type_system::definitions::UnionDefinition<S, Pos>> })
//@   closure 4 |mem: &crate::graphql_type_system::node::Node<S, Pos>| -> (b: bool) ;; ensures [C05.subtype.cl4] b == (crate::tv(mem.inner) == crate::tv(target_name.name.inner))
//@ end

//@ canary
} // verus!
fn main() {}
