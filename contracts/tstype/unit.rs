//@ unit tstype primary=C09 props=C09,C08
// Unit tstype: crates/printer/src/ts_types/type_to_ts_type.rs  get_ts_type_of_type(_impl)
// The TypeScript type emitted for a GraphQL input type places `| null` exactly where GraphQL nullability says,
// at EVERY list / non-null nesting depth; lists become arrays of the element type.
#![feature(pattern, allocator_api)]
#![allow(unused)]
use vstd::prelude::*;
use vstd::std_specs::cmp::PartialEqSpec;
verus! {
//@ fragment printer_base.rs

use crate::nitrogql_ast::r#type::{Type, NamedType};
use crate::nitrogql_printer::ts_types::TSType;

// ---------------------------------------------------------------- oracle (GraphQL spec 3.4 wrapping types / 3.12 input coercion)
/// the innermost named type
pub open spec fn leaf_of(t: Type) -> NamedType
    decreases t
{
    match t {
        Type::Named(n) => n,
        Type::List(li) => leaf_of(li.r#type),
        Type::NonNull(n) => leaf_of(n.r#type),
    }
}

/// `res` is the TS rendering of GraphQL type `t` in a NULLABLE-BY-DEFAULT position, with `leaf` for the named type:
/// a type that is not Non-Null is rendered `X | null`; Non-Null strips exactly that `| null`.
pub open spec fn renders_outer(res: TSType, t: Type, leaf: TSType) -> bool
    decreases t, 1nat
{
    if t is NonNull {
        renders_inner(res, t, leaf)
    } else {
        res matches TSType::Union(v) && v@.len() == 2 && v@[1] is Null && renders_inner(v@[0], t, leaf)
    }
}
/// rendering without the outer `| null`
pub open spec fn renders_inner(res: TSType, t: Type, leaf: TSType) -> bool
    decreases t, 0nat
{
    match t {
        Type::Named(_) => res == leaf,
        Type::List(li) => res matches TSType::Array(b) && renders_outer(*b, li.r#type, leaf),
        Type::NonNull(n) => renders_inner(res, n.r#type, leaf),
    }
}

// ---- semantic reading (finite abstraction of JSON values) used by the lemma below
pub enum JV { Null, Arr(Seq<JV>), Atom(int) }

/// membership of a JSON value in the TS types this function can build (leaf interpreted by `leafset`)
pub open spec fn ts_admits(t: TSType, leaf: TSType, leafset: spec_fn(JV) -> bool, v: JV) -> bool
    decreases t
{
    if t == leaf { leafset(v) }
    else {
        match t {
            TSType::Null => v is Null,
            TSType::Array(b) => v matches JV::Arr(xs) && forall|i: int| 0 <= i < xs.len() ==> ts_admits(*b, leaf, leafset, #[trigger] xs[i]),
            TSType::Union(ms) => exists|k: int| 0 <= k < ms@.len() && ts_admits(#[trigger] ms@[k], leaf, leafset, v),
            _ => false,
        }
    }
}
/// GraphQL input coercion of wrappers: named -> null or a leaf value; list -> null or a list of coercible items;
/// non-null -> coercible and not null
pub open spec fn coercible(t: Type, leafset: spec_fn(JV) -> bool, v: JV) -> bool
    decreases t
{
    match t {
        Type::Named(_) => v is Null || leafset(v),
        Type::List(li) => v is Null || (v matches JV::Arr(xs) && forall|i: int| 0 <= i < xs.len() ==> coercible(li.r#type, leafset, #[trigger] xs[i])),
        Type::NonNull(n) => !(v is Null) && coercible(n.r#type, leafset, v),
    }
}


pub open spec fn plain_leaf(leaf: TSType) -> bool { !(leaf is Union) && !(leaf is Array) && !(leaf is Null) }

/// C09 (wrappers): whatever the contract above admits structurally MEANS exactly GraphQL input coercion:
/// a value is admitted by the emitted TS type iff the server's coercion accepts it for the declared type -
/// at every nesting depth (non-null never null, lists are arrays of the element type).
//@ lemma [C09.tstype.semantics_inner] lemma_sem_inner
pub proof fn lemma_sem_inner(res: TSType, t: Type, leaf: TSType, leafset: spec_fn(JV) -> bool, v: JV)
    requires renders_inner(res, t, leaf), plain_leaf(leaf), forall|x: JV| #[trigger] leafset(x) ==> !(x is Null),
    ensures ts_admits(res, leaf, leafset, v) <==> (!(v is Null) && coercible(t, leafset, v)),
    decreases t, 0nat, v
{
    match t {
        Type::Named(_) => {}
        Type::List(li) => {
            let b = res->Array_0;
            assert(res != leaf);
            if let JV::Arr(xs) = v {
                assert forall|i: int| 0 <= i < xs.len() implies
                    (ts_admits(*b, leaf, leafset, #[trigger] xs[i]) <==> coercible(li.r#type, leafset, xs[i])) by {
                    lemma_sem_outer(*b, li.r#type, leaf, leafset, xs[i]);
                }
            }
        }
        Type::NonNull(n) => { lemma_sem_inner(res, n.r#type, leaf, leafset, v); }
    }
}
//@ lemma [C09.tstype.semantics_outer] lemma_sem_outer
pub proof fn lemma_sem_outer(res: TSType, t: Type, leaf: TSType, leafset: spec_fn(JV) -> bool, v: JV)
    requires renders_outer(res, t, leaf), plain_leaf(leaf), forall|x: JV| #[trigger] leafset(x) ==> !(x is Null),
    ensures ts_admits(res, leaf, leafset, v) <==> coercible(t, leafset, v),
    decreases t, 1nat, v
{
    if t is NonNull {
        lemma_sem_inner(res, t, leaf, leafset, v);
    } else {
        let ms = res->Union_0;
        assert(res != leaf);
        lemma_sem_inner(ms@[0], t, leaf, leafset, v);
        assert(ms@[1] != leaf);
        assert(ts_admits(ms@[1], leaf, leafset, v) <==> v is Null);
        if ts_admits(res, leaf, leafset, v) {
            let k = choose|k: int| 0 <= k < ms@.len() && ts_admits(#[trigger] ms@[k], leaf, leafset, v);
            assert(k == 0 || k == 1);
        }
        if coercible(t, leafset, v) {
            if v is Null { assert(ts_admits(ms@[1], leaf, leafset, v)); } else { assert(ts_admits(ms@[0], leaf, leafset, v)); }
        }
    }
}

//@ contract nitrogql_printer::ts_types::type_to_ts_type ::fn get_ts_type_of_type
//@   ret res
//@   requires [C09.tstype.outer.pre_total] forall|n: &NamedType| map_name.requires((n,))
//@   ensures [C09.tstype.outer.renders] exists|o: TSType| map_name.ensures((&crate::leaf_of(*ty),), o) && crate::renders_outer(res, *ty, o)
//@   decreases [C09.tstype.outer.terminates] *ty, 1nat
//@   prefix let ghost ty0 = *ty;
//@   hint before 0 "if nullable {" :: [C09.tstype.outer.renders#nonnull] proof { let o = choose|o: TSType| map_name.ensures((&crate::leaf_of(ty0),), o) && crate::renders_inner(ty, ty0, o); if !nullable { assert(crate::renders_outer(ty, ty0, o)); } }
//@   wrap_tail 0 "if nullable {" :: [C09.tstype.outer.renders#union] proof { let o = choose|o: TSType| map_name.ensures((&crate::leaf_of(ty0),), o) && crate::renders_inner(ty, ty0, o); let v = r__->Union_0; assert(v@.len() == 2 && v@[0] == ty && v@[1] == TSType::Null); assert(crate::renders_outer(r__, ty0, o)); }
//@ end
//@ contract nitrogql_printer::ts_types::type_to_ts_type ::fn get_ts_type_of_type_impl
//@   ret res
//@   requires [C09.tstype.inner.pre_total] forall|n: &NamedType| map_name.requires((n,))
//@   ensures [C09.tstype.inner.renders] exists|o: TSType| map_name.ensures((&crate::leaf_of(*ty),), o) && crate::renders_inner(res.0, *ty, o)
//@   ensures [C09.tstype.inner.flag] res.1 == !(*ty is NonNull)
//@   decreases [C09.tstype.inner.terminates] *ty, 0nat
//@   prefix let ghost ty0 = *ty;
//@   wrap_arm 0 0 :: [C09.tstype.inner.renders#named] proof { assert(crate::leaf_of(ty0) == *name); assert(map_name.ensures((&crate::leaf_of(ty0),), r__.0)); assert(crate::renders_inner(r__.0, ty0, r__.0)); }
//@   wrap_arm 0 1 :: [C09.tstype.inner.renders#list] proof { let inner = *(r__.0->Array_0); let o = choose|o: TSType| map_name.ensures((&crate::leaf_of(ty.r#type),), o) && crate::renders_outer(inner, ty.r#type, o); assert(crate::leaf_of(ty0) == crate::leaf_of(ty.r#type)); assert(crate::renders_inner(r__.0, ty0, o)); }
//@   wrap_arm 0 2 :: [C09.tstype.inner.renders#nonnull] proof { let o = choose|o: TSType| map_name.ensures((&crate::leaf_of(ty.r#type),), o) && crate::renders_inner(r__.0, ty.r#type, o); assert(crate::leaf_of(ty0) == crate::leaf_of(ty.r#type)); assert(crate::renders_inner(r__.0, ty0, o)); }
//@ end

//@ canary
} // verus!
fn main() {}
