//@ unit ts_leaf primary=C05 props=C05,C08
// Unit ts_leaf: leaf classifiers used by every type-system check
//   crates/checker/src/types.rs::{inout_kind_of_type, TypeInOutKind::is_input_type, is_output_type}   (spec 3.4.2)
//   crates/checker/src/type_system_checker/mod.rs::name_starts_with_unscounsco                          (reserved names)
//   crates/ast/src/type.rs::Type::unwrapped_type
#![feature(pattern, allocator_api)]
#![allow(unused)]
use vstd::prelude::*;
use vstd::std_specs::cmp::PartialEqSpec;
verus! {
//@ fragment checker_base.rs
//@ include strmodel.rs
//@ fragment typesys_contracts.rs
//@ fragment schema_view.rs
//@ fragment seenlist.rs
//@ fragment checker_spec.rs
//@ fragment spec_inout.rs

//@ fragment contract_inout.rs
//@   closure 0 |def: &crate::graphql_type_system::node::Node<crate::graphql_type_system::definitions::TypeDefinition<S, Pos>, Pos>| -> (k: TypeInOutKind) ;; ensures [C05.inout.cl] ((k is Input || k is Both) <==> crate::is_input_def(def.inner)) && ((k is Output || k is Both) <==> crate::is_output_def(def.inner))
//@ end
//@ fragment contract_reserved.rs
//@   prefix proof { crate::axiom_pat_str("__"); reveal_strlit("__"); }
//@   wrap 0 "name.name.starts_with(\"__\")" :: [C05.reserved.exact#ext] proof { let s = name.name@; assert("__"@ =~= seq!['_', '_']); if s.len() >= 2 { assert(s.take(2) =~= seq![s[0], s[1]]); if !(s[0] == '_' && s[1] == '_') { assert(s.take(2)[0] == s[0] && s.take(2)[1] == s[1]); } } }
//@ end
//@ fragment contract_unwrapped.rs
//@   decreases [C05.unwrapped.terminates] *self
//@ end

//@ canary
} // verus!
fn main() {}
