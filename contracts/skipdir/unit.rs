//@ unit skipdir primary=C01 props=C01,C02,C08
// Unit skipdir: crates/printer/src/operation_type_printer/type_printer.rs::check_skip_directive
// Oracle: GraphQL spec 3.13.1 @skip / 3.13.2 @include and 6.3.2 CollectFields: a selection is excluded from the result
// for a given assignment of the boolean variables iff SOME @skip directive on it has `if` = true or SOME @include has
// `if` = false (literal, or the variable's value in this branch).
//  C01: a selection that is NOT excluded is kept in the emitted type (its fields must be admitted);
//  C02: a selection that IS excluded contributes nothing.
#![feature(pattern, allocator_api)]
#![allow(unused)]
use vstd::prelude::*;
use vstd::std_specs::cmp::PartialEqSpec;
verus! {
//@ fragment printer_ops_base.rs
//@ include strmodel.rs
//@ include iterwrap.rs

use crate::nitrogql_ast::directive::Directive;
use crate::nitrogql_ast::value::{Value, Arguments};
use crate::nitrogql_ast::base::Ident;
use crate::nitrogql_printer::operation_type_printer::branching::BranchingCondition;

pub open spec fn args_of<'src>(d: Directive<'src>) -> Seq<(Ident<'src>, Value<'src>)> {
    match d.arguments { Some(a) => a.arguments@, None => Seq::empty() }
}
/// the value of the `if` argument (first argument of that name)
pub open spec fn is_first_if<'src>(args: Seq<(Ident<'src>, Value<'src>)>, i: int) -> bool {
    0 <= i < args.len() && args[i].0.name@ == "if"@ && forall|k: int| 0 <= k < i ==> (#[trigger] args[k]).0.name@ != "if"@
}
pub open spec fn is_first_var(vars: Seq<(&str, bool)>, name: Seq<char>, i: int) -> bool {
    0 <= i < vars.len() && vars[i].0@ == name && forall|k: int| 0 <= k < i ==> (#[trigger] vars[k]).0@ != name
}
/// truth value of an `if` argument in this branch, None = neither a variable of the branch nor a boolean literal
pub open spec fn if_value<'src>(vars: Seq<(&str, bool)>, v: Value<'src>) -> Option<bool> {
    match v {
        Value::BooleanValue(b) => Some(b.value),
        Value::Variable(var) => if exists|i: int| is_first_var(vars, var.name@, i) { Some(vars[choose|i: int| is_first_var(vars, var.name@, i)].1) } else { None },
        _ => None,
    }
}
/// this directive excludes the selection
pub open spec fn dir_excludes<'src>(vars: Seq<(&str, bool)>, d: Directive<'src>) -> bool {
    exists|i: int| is_first_if(args_of(d), i) && (
        (d.name.name@ == "skip"@ && if_value(vars, #[trigger] args_of(d)[i].1) == Some(true))
        || (d.name.name@ == "include"@ && if_value(vars, args_of(d)[i].1) == Some(false)))
}
pub open spec fn excluded_upto<'src>(vars: Seq<(&str, bool)>, ds: Seq<Directive<'src>>, n: int) -> bool {
    exists|k: int| 0 <= k < n && dir_excludes(vars, #[trigger] ds[k])
}
/// C08 precondition (the document passed `check`): every @skip/@include has an `if` argument, and a variable used
/// there is one of the branch's boolean variables - otherwise the function panics ("Type system error")
pub open spec fn skip_include_wf<'src>(vars: Seq<(&str, bool)>, d: Directive<'src>) -> bool {
    (d.name.name@ == "skip"@ || d.name.name@ == "include"@) ==> exists|i: int| is_first_if(args_of(d), i)
        && ((#[trigger] args_of(d)[i]).1 is Variable ==> exists|j: int| is_first_var(vars, args_of(d)[i].1->Variable_0.name@, j))
}

// A-ITER (trusted, T16): `opt_args.iter().flatten().find(p)` = the first supplied argument on which p returns true.
// Stated for ANY boolean sequence p's postcondition forces, so that the caller never has to name the closure.
#[verifier::external_body]
pub fn vx_opt_args_find<'a, 'src, P: FnMut(&&'a (Ident<'src>, Value<'src>)) -> bool>(o: &'a Option<Arguments<'src>>, p: P) -> (r: Option<&'a (Ident<'src>, Value<'src>)>)
    ensures
        forall|flags: Seq<bool>| flags.len() == opt_args(*o).len()
            && (forall|i: int, b: bool| 0 <= i < flags.len() && p.ensures((&&opt_args(*o)[i],), b) ==> b == flags[i])
            ==> match #[trigger] first_true(flags) { Some(i) => r == Some(&opt_args(*o)[i]), None => r is None },
{
    o.iter().flatten().find(p)
}
pub open spec fn opt_args<'src>(o: Option<Arguments<'src>>) -> Seq<(Ident<'src>, Value<'src>)> {
    match o { Some(a) => a.arguments@, None => Seq::empty() }
}
pub open spec fn if_flags<'src>(args: Seq<(Ident<'src>, Value<'src>)>) -> Seq<bool> { Seq::new(args.len(), |i: int| args[i].0.name@ == "if"@) }

//@ contract nitrogql_printer::operation_type_printer::type_printer ::fn check_skip_directive
//@   unexternal
//@   wrap_chain &vx_opt_args_find iter,flatten,find
//@   ret r
//@   requires [C08.skipdir.pre_if_present] forall|k: int| 0 <= k < directives@.len() ==> crate::skip_include_wf(branch.boolean_variables@, #[trigger] directives@[k])
//@   ensures [C01+C02.skipdir.excluded_only_if_directive_says] r ==> crate::excluded_upto(branch.boolean_variables@, directives@, directives@.len() as int)
//@   ensures [C01+C02.skipdir.kept_unless_directive_says] crate::excluded_upto(branch.boolean_variables@, directives@, directives@.len() as int) ==> r
//@   prefix broadcast use crate::axiom_str_eq; let ghost vars = branch.boolean_variables@; proof { crate::axiom_str_obeys(); reveal_strlit("skip"); reveal_strlit("include"); }
//@   closure 0 |p__: &&(crate::nitrogql_ast::base::Ident<'src>, crate::nitrogql_ast::value::Value<'src>)| -> (b: bool) ;; ensures [C01+C02.skipdir.cl_if0] b == ((**p__).0.name@ == "if"@)
//@   closure 1 |p__: &&(&str, bool)| -> (b: bool) ;; ensures [C01+C02.skipdir.cl_var0] b == ((**p__).0@ == var.name@)
//@   closure 2 |p__: &&(crate::nitrogql_ast::base::Ident<'src>, crate::nitrogql_ast::value::Value<'src>)| -> (b: bool) ;; ensures [C01+C02.skipdir.cl_if1] b == ((**p__).0.name@ == "if"@)
//@   closure 3 |p__: &&(&str, bool)| -> (b: bool) ;; ensures [C01+C02.skipdir.cl_var1] b == ((**p__).0@ == var.name@)
//@   loops 1
//@   loop 0 iter_name it
//@   loop 0 invariant [C01+C02.skipdir.loop.iter] it.seq().len() == directives@.len() && 0 <= it.index@ <= it.seq().len() && (forall|i: int| 0 <= i < it.seq().len() ==> *it.seq()[i] == directives@[i]) && vars == branch.boolean_variables@
//@   loop 0 invariant [C08.skipdir.loop.pre] forall|k: int| 0 <= k < directives@.len() ==> crate::skip_include_wf(vars, #[trigger] directives@[k])
//@   loop 0 invariant [C01+C02.skipdir.loop.none_so_far] !crate::excluded_upto(vars, directives@, it.index@ as int)
//@   loop 0 prefix broadcast use crate::axiom_str_eq; let ghost mut n: int = 0; proof { n = it.index@ as int; crate::axiom_str_obeys(); reveal_strlit("skip"); reveal_strlit("include"); assert(*directive == directives@[n]); crate::axiom_str_ext(directive.name.name, "skip"); crate::axiom_str_ext(directive.name.name, "include"); }
//@   hint before 0 "let (_, skip) =" :: [C01+C02.skipdir.h_if0] proof { let args = crate::args_of(*directive); let fl = crate::if_flags(args); crate::lemma_first_true(fl); assert(crate::skip_include_wf(vars, *directive)); let w = choose|i: int| crate::is_first_if(args, i); assert(fl[w]); assert(crate::first_true(fl) is Some); }
//@   hint before 0 "match skip {" :: [C01+C02.skipdir.h_if0b] let ghost mut i0: int = 0; proof { let args = crate::args_of(*directive); let fl = crate::if_flags(args); i0 = crate::first_true(fl)->Some_0; assert(crate::is_first_if(args, i0)) by { assert forall|k: int| 0 <= k < i0 implies (#[trigger] args[k]).0.name@ != "if"@ by { assert(!fl[k]); } } assert forall|i: int| crate::is_first_if(args, i) implies i == i0 by { if i < i0 { assert(!fl[i]); } if i0 < i { assert(args[i0].0.name@ == "if"@); } } assert(*skip == args[i0].1); }
//@   hint before 0 "let (_, include) =" :: [C01+C02.skipdir.h_if1] proof { let args = crate::args_of(*directive); let fl = crate::if_flags(args); crate::lemma_first_true(fl); assert(crate::skip_include_wf(vars, *directive)); let w = choose|i: int| crate::is_first_if(args, i); assert(fl[w]); assert(crate::first_true(fl) is Some); }
//@   hint before 0 "match include {" :: [C01+C02.skipdir.h_if1b] let ghost mut i0: int = 0; proof { let args = crate::args_of(*directive); let fl = crate::if_flags(args); i0 = crate::first_true(fl)->Some_0; assert(crate::is_first_if(args, i0)) by { assert forall|k: int| 0 <= k < i0 implies (#[trigger] args[k]).0.name@ != "if"@ by { assert(!fl[k]); } } assert forall|i: int| crate::is_first_if(args, i) implies i == i0 by { if i < i0 { assert(!fl[i]); } if i0 < i { assert(args[i0].0.name@ == "if"@); } } assert(*include == args[i0].1); }
//@   wrap 0 "branch .boolean_variables .iter() .find(|p__| { let (name, _) = p__; *name == var.name })" :: [C01+C02.skipdir.h_var0] proof { let args = crate::args_of(*directive); let rem = vars.as_ref(); assert(rem.len() == vars.len()); assert(forall|i: int| 0 <= i < rem.len() ==> *(#[trigger] rem[i]) == vars[i]); let w = choose|i: int| crate::is_first_if(args, i) && ((#[trigger] args[i]).1 is Variable ==> exists|j: int| crate::is_first_var(vars, args[i].1->Variable_0.name@, j)); assert(w == i0); assert(args[i0].1->Variable_0 == *var); let j0 = choose|i: int| crate::is_first_var(vars, var.name@, i); assert(crate::is_first_var(vars, var.name@, j0)); assert(*rem[j0] == vars[j0]); assert(r__ is Some); assert(exists|i: int| 0 <= i < rem.len() && rem[i] == r__->Some_0 && forall|k: int| 0 <= k < i ==> (*(#[trigger] rem[k])).0@ != var.name@); let fi = choose|i: int| 0 <= i < rem.len() && rem[i] == r__->Some_0 && forall|k: int| 0 <= k < i ==> (*(#[trigger] rem[k])).0@ != var.name@; assert(*rem[fi] == vars[fi]); if fi < j0 { assert(vars[fi].0@ != var.name@); } if j0 < fi { assert((*rem[j0]).0@ != var.name@); } assert(fi == j0); assert(*r__->Some_0 == vars[j0]); assert(crate::if_value(vars, args[i0].1) == Some(vars[j0].1)); }
//@   wrap 1 "branch .boolean_variables .iter() .find(|p__| { let (name, _) = p__; *name == var.name })" :: [C01+C02.skipdir.h_var1] proof { let args = crate::args_of(*directive); let rem = vars.as_ref(); assert(rem.len() == vars.len()); assert(forall|i: int| 0 <= i < rem.len() ==> *(#[trigger] rem[i]) == vars[i]); let w = choose|i: int| crate::is_first_if(args, i) && ((#[trigger] args[i]).1 is Variable ==> exists|j: int| crate::is_first_var(vars, args[i].1->Variable_0.name@, j)); assert(w == i0); assert(args[i0].1->Variable_0 == *var); let j0 = choose|i: int| crate::is_first_var(vars, var.name@, i); assert(crate::is_first_var(vars, var.name@, j0)); assert(*rem[j0] == vars[j0]); assert(r__ is Some); assert(exists|i: int| 0 <= i < rem.len() && rem[i] == r__->Some_0 && forall|k: int| 0 <= k < i ==> (*(#[trigger] rem[k])).0@ != var.name@); let fi = choose|i: int| 0 <= i < rem.len() && rem[i] == r__->Some_0 && forall|k: int| 0 <= k < i ==> (*(#[trigger] rem[k])).0@ != var.name@; assert(*rem[fi] == vars[fi]); if fi < j0 { assert(vars[fi].0@ != var.name@); } if j0 < fi { assert((*rem[j0]).0@ != var.name@); } assert(fi == j0); assert(*r__->Some_0 == vars[j0]); assert(crate::if_value(vars, args[i0].1) == Some(vars[j0].1)); }
//@   loop 0 suffix [C01+C02.skipdir.loop.none_so_far#step] proof { assert(!crate::dir_excludes(vars, directives@[n])); }
//@ end

//@ canary
} // verus!
fn main() {}
