//@ unit walk_op primary=C03 props=C03,C04,C08
// Unit walk_op: crates/checker/src/operation_checker/mod.rs::check_operation   (entry of the walk, one step)
// Oracle: spec 3.3.1 root operation types (with an explicit `schema { .. }` the operation's root type must be declared,
// otherwise the default names Query / Mutation / Subscription apply) and the root type must be defined; 5.7 directives at
// QUERY / MUTATION / SUBSCRIPTION; 5.8 variable definitions; 5.2.3.1 Single Root Field for subscriptions (callee verdict);
// the operation's selection set is checked against the root type with no fragment being expanded (callee verdict).
#![feature(pattern, allocator_api)]
#![allow(unused)]
use vstd::prelude::*;
use vstd::std_specs::cmp::PartialEqSpec;
verus! {
//@ fragment checker_ops_base.rs
//@ include strmodel.rs
//@ fragment typesys_contracts.rs
//@ fragment schema_view.rs
//@ fragment seenlist.rs
//@ fragment checker_spec.rs
//@ fragment spec_inout.rs
//@ fragment spec_walk.rs
//@ fragment spec_vardefs.rs
//@ fragment contract_walk_ss.rs
//@   attr #[verifier::external_body]
//@ end
//@ fragment contract_check_directives.rs
//@   attr #[verifier::external_body]
//@ end
//@ fragment contract_check_vardefs.rs
//@   attr #[verifier::external_body]
//@ end

use crate::nitrogql_ast::operation::OperationDefinition;
use crate::nitrogql_ast::operation::OperationType;
use crate::graphql_type_system::root_types::RootTypes;

// A-STD (trusted): the derived PartialEq of the field-less enum OperationType is structural equality
impl vstd::std_specs::cmp::PartialEqSpecImpl for OperationType {
    open spec fn obeys_eq_spec() -> bool { true }
    open spec fn eq_spec(&self, other: &Self) -> bool { *self == *other }
}

pub open spec fn pick<T>(rt: RootTypes<T>, op: OperationType) -> T {
    match op { OperationType::Query => rt.query_type, OperationType::Mutation => rt.mutation_type, OperationType::Subscription => rt.subscription_type }
}
pub open spec fn default_root_name(op: OperationType) -> Seq<char> {
    match op { OperationType::Query => "Query"@, OperationType::Mutation => "Mutation"@, OperationType::Subscription => "Subscription"@ }
}
pub open spec fn location_of(op: OperationType) -> Seq<char> {
    match op { OperationType::Query => "QUERY"@, OperationType::Mutation => "MUTATION"@, OperationType::Subscription => "SUBSCRIPTION"@ }
}
/// name of the root type an operation of this kind runs against, None = not declared by an explicit schema definition
pub open spec fn root_type_name<S>(sch: &Schema<S, Pos>, op: OperationType) -> Option<Seq<char>> {
    match pick(sch.root_types.inner, op) {
        Some(n) => Some(tv(n.inner)),
        None => if sch.root_types.original_node.builtin { Some(default_root_name(op)) } else { None },
    }
}
/// 5.2.3.1: the selection set of a subscription has more than one root field (count_selection_set_fields: chain -> assumed)
pub uninterp spec fn more_than_one_field<'a, 'src>(fm: &FragmentMap<'a, 'src>, ss: SelectionSet<'src>) -> bool;

pub open spec fn def_operation<'a, 'src, S>(fm: &FragmentMap<'a, 'src>, op: &OperationDefinition<'src>, sch: &Schema<S, Pos>) -> bool {
    &&& root_type_name(sch, op.operation_type) is Some
    &&& schema_types(sch).contains_key(root_type_name(sch, op.operation_type)->Some_0)
    &&& dirs_valid(sch, opt_ref(op.variables_definition), op.directives@, location_of(op.operation_type))
    &&& (op.variables_definition is Some ==> valid_vardefs(sch, &op.variables_definition->Some_0))
    &&& (op.operation_type is Subscription ==> !more_than_one_field(fm, op.selection_set))
    &&& v_ss(fm, Seq::<Seq<char>>::empty(), opt_ref(op.variables_definition), schema_types(sch)[root_type_name(sch, op.operation_type)->Some_0], op.selection_set, sch)
}

//@ contract graphql_type_system::node ::fn original_node_ref#1
//@   ret r
//@   ensures [C03+C04.walk.op.original_node_ref] *r == self.original_node
//@ end
//@ contract graphql_type_system::schema ::fn root_types
//@   ret r
//@   ensures [C03+C04.walk.op.root_types] *r == self.root_types
//@ end
//@ contract graphql_type_system::root_types ::fn unwrap_or_default
//@   attr #[verifier::external_body]
//@   ret r
//@   ensures [assumed.root_types.unwrap_or_default] forall|op: crate::nitrogql_ast::operation::OperationType| match crate::pick(*self, op) { Some(n) => #[trigger] crate::pick(r, op) == n, None => crate::tv(crate::pick(r, op).inner) == crate::default_root_name(op) }
//@ end
//@ contract nitrogql_checker::operation_checker ::fn operation_type_from_root_types
//@   ret r
//@   ensures [C03+C04.walk.op.pick] *r == crate::pick(*root_types, op)
//@ end
//@ contract nitrogql_checker::operation_checker::count_selection_set_fields ::fn selection_set_has_more_than_one_fields
//@   attr #[verifier::external_body]
//@   ret r
//@   ensures [assumed.single_root_field] r == crate::more_than_one_field(fragment_map, *selection_set)
//@ end

//@ contract nitrogql_checker::operation_checker ::fn check_operation
//@   unexternal
//@   requires [C03+C04.walk.op.pre_schema_wf] crate::schema_wf(context.definitions)
//@   ensures [C03+C04.walk.op.frame] crate::extends_errs(old(result)@, final(result)@)
//@   ensures [C03+C04.walk.op.one_step] (final(result)@.len() == old(result)@.len()) <==> crate::def_operation(fragment_map, op, context.definitions)
//@   prefix broadcast use crate::text_model; proof { crate::axiom_text_obeys::<S>(); }
//@   hint after 0 "let seen_fragments = vec![];" :: [C03+C04.walk.op.one_step#seen] proof { assert(crate::seen_view(seen_fragments@) =~= Seq::<Seq<char>>::empty()); }
//@ end

//@ canary
} // verus!
fn main() {}
