//@ unit vardefs primary=C03 props=C03,C04,C08
// Unit vardefs: crates/checker/src/operation_checker/mod.rs::{check_variables_definition, check_fragment_definition}
// Oracle: GraphQL spec 5.8.1 Variable Uniqueness, 5.8.2 Variables Are Input Types; 5.5.1.2 Fragment Spread Type
// Existence, 5.5.1.3 Fragments On Composite Types.
#![feature(pattern, allocator_api)]
#![allow(unused)]
use vstd::prelude::*;
use vstd::std_specs::cmp::PartialEqSpec;
verus! {
//@ fragment checker_ops_base.rs
//@ include strmodel.rs
//@ fragment typesys_contracts.rs
//@ fragment schema_view.rs
//@ fragment seenlist.rs
//@ fragment checker_spec.rs
//@ fragment spec_inout.rs
//@ fragment assumed_checker_leafs.rs

//@ fragment spec_vardefs.rs
//@ fragment contract_check_vardefs.rs
//@   unexternal
//@   loops 1
//@   loop 0 iter_name it
//@   loop 0 invariant [C03+C04.vardefs.loop.iter] it.seq().len() == variables.definitions@.len() && 0 <= it.index@ <= it.seq().len() && (forall|i: int| 0 <= i < it.seq().len() ==> *it.seq()[i] == variables.definitions@[i])
//@   loop 0 invariant [C03+C04.vardefs.loop.frame] crate::extends_errs(old(result)@, result@)
//@   loop 0 invariant [C03+C04.vardefs.loop.seen] crate::seen_ok(crate::names_view(seen_variables), crate::var_names(variables.definitions@), it.index@ as int)
//@   loop 0 invariant [C03+C04.vardefs.loop.exact] (result@.len() == old(result)@.len()) <==> crate::vardefs_ok_upto(context.definitions, variables.definitions@, it.index@ as int)
//@   hint before 0 "let mut seen_variables = vec![];" :: [C03+C04.vardefs.h_init] proof { crate::axiom_str_obeys(); crate::lemma_seen_init(crate::var_names(variables.definitions@)); }
//@   loop 0 prefix let ghost mut n: int = 0; let ghost names = crate::var_names(variables.definitions@); let ghost seen0 = seen_variables@; proof { n = it.index@ as int; crate::axiom_str_obeys(); crate::lemma_nodup_step(names, n); assert(*v == variables.definitions@[n]); assert(names[n] == v.name.name@); }
//@   hint after 0 "if seen_variables.contains(&v.name.name) {" :: [C03+C04.vardefs.h_hit] proof { crate::lemma_vec_contains(seen_variables, v.name.name, true); crate::lemma_seen_hit(crate::names_view(seen_variables), names, n); }
//@   hint before 0 "seen_variables.push(v.name.name);" :: [C03+C04.vardefs.h_miss] proof { crate::lemma_vec_contains(seen_variables, v.name.name, false); crate::lemma_seen_miss(crate::names_view(seen_variables), names, n); }
//@   hint after 0 "seen_variables.push(v.name.name);" :: [C03+C04.vardefs.h_pushed] proof { crate::lemma_names_push(seen0, seen_variables, v.name.name); }
//@ end

//@ contract nitrogql_checker::operation_checker ::fn check_fragment_definition
//@   unexternal
//@   ensures [C03+C04.fragdef.frame] crate::extends_errs(old(result)@, final(result)@)
//@   ensures [C03.fragdef.sound] final(result)@.len() == old(result)@.len() ==> crate::valid_fragment_target(context.definitions, op)
//@   ensures [C04.fragdef.complete] crate::valid_fragment_target(context.definitions, op) ==> final(result)@.len() == old(result)@.len()
//@ end

//@ canary
} // verus!
fn main() {}
