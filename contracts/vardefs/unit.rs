//@ unit vardefs primary=C03 props=C03,C04,C08
// Unit vardefs: crates/checker/src/operation_checker/mod.rs::{check_variables_definition, check_fragment_definition}
// Oracle: GraphQL spec 5.8.1 Variable Uniqueness, 5.8.2 Variables Are Input Types; 5.5.1.2 Fragment Spread Type
// Existence, 5.5.1.3 Fragments On Composite Types.
#![feature(pattern, allocator_api)]
#![allow(unused)]
use vstd::prelude::*;
use vstd::std_specs::cmp::PartialEqSpec;
verus! {
//@ fragment checker_ops_base.rs
//@ include strmodel.rs
//@ fragment typesys_contracts.rs
//@ fragment schema_view.rs
//@ fragment seenlist.rs
//@ fragment checker_spec.rs
//@ fragment spec_inout.rs
//@ fragment assumed_checker_leafs.rs

use crate::nitrogql_ast::operation::FragmentDefinition;
use crate::nitrogql_checker::operation_checker::context::OperationCheckContext;

pub open spec fn var_names(v: Seq<VariableDefinition>) -> Seq<Seq<char>> { Seq::new(v.len(), |k: int| v[k].name.name@) }
/// 5.8.2: the (unwrapped) type of a variable is a defined input type
pub open spec fn var_type_ok<S>(sch: &Schema<S, Pos>, v: VariableDefinition) -> bool {
    schema_types(sch).contains_key(unwrapped_name(v.r#type)) && is_input_def(schema_types(sch)[unwrapped_name(v.r#type)].inner)
}
pub open spec fn vardefs_ok_upto<S>(sch: &Schema<S, Pos>, vs: Seq<VariableDefinition>, n: int) -> bool {
    &&& nodup(var_names(vs).take(n))                                       // 5.8.1 Variable Uniqueness
    &&& forall|i: int| 0 <= i < n ==> var_type_ok(sch, #[trigger] vs[i])   // 5.8.2 Variables Are Input Types
}
pub open spec fn valid_vardefs<S>(sch: &Schema<S, Pos>, vs: &VariablesDefinition) -> bool { vardefs_ok_upto(sch, vs.definitions@, vs.definitions@.len() as int) }

/// 5.5.1.2 the type condition names a defined type; 5.5.1.3 which is an Object, Interface or Union
pub open spec fn valid_fragment_target<S>(sch: &Schema<S, Pos>, f: &FragmentDefinition) -> bool {
    schema_types(sch).contains_key(f.type_condition.name@) && {
        let d = schema_types(sch)[f.type_condition.name@].inner;
        d is Object || d is Interface || d is Union
    }
}

//@ contract nitrogql_checker::operation_checker ::fn check_variables_definition
//@   unexternal
//@   ensures [C03+C04.vardefs.frame] crate::extends_errs(old(result)@, final(result)@)
//@   ensures [C03.vardefs.sound] final(result)@.len() == old(result)@.len() ==> crate::valid_vardefs(context.definitions, variables)
//@   ensures [C04.vardefs.complete] crate::valid_vardefs(context.definitions, variables) ==> final(result)@.len() == old(result)@.len()
//@   loops 1
//@   loop 0 iter_name it
//@   loop 0 invariant [C03+C04.vardefs.loop.iter] it.seq().len() == variables.definitions@.len() && 0 <= it.index@ <= it.seq().len() && (forall|i: int| 0 <= i < it.seq().len() ==> *it.seq()[i] == variables.definitions@[i])
//@   loop 0 invariant [C03+C04.vardefs.loop.frame] crate::extends_errs(old(result)@, result@)
//@   loop 0 invariant [C03+C04.vardefs.loop.seen] crate::seen_ok(crate::names_view(seen_variables), crate::var_names(variables.definitions@), it.index@ as int)
//@   loop 0 invariant [C03+C04.vardefs.loop.exact] (result@.len() == old(result)@.len()) <==> crate::vardefs_ok_upto(context.definitions, variables.definitions@, it.index@ as int)
//@   hint before 0 "let mut seen_variables = vec![];" :: [C03+C04.vardefs.h_init] proof { crate::axiom_str_obeys(); crate::lemma_seen_init(crate::var_names(variables.definitions@)); }
//@   loop 0 prefix let ghost mut n: int = 0; let ghost names = crate::var_names(variables.definitions@); let ghost seen0 = seen_variables@; proof { n = it.index@ as int; crate::axiom_str_obeys(); crate::lemma_nodup_step(names, n); assert(*v == variables.definitions@[n]); assert(names[n] == v.name.name@); }
//@   hint after 0 "if seen_variables.contains(&v.name.name) {" :: [C03+C04.vardefs.h_hit] proof { crate::lemma_vec_contains(seen_variables, v.name.name, true); crate::lemma_seen_hit(crate::names_view(seen_variables), names, n); }
//@   hint before 0 "seen_variables.push(v.name.name);" :: [C03+C04.vardefs.h_miss] proof { crate::lemma_vec_contains(seen_variables, v.name.name, false); crate::lemma_seen_miss(crate::names_view(seen_variables), names, n); }
//@   hint after 0 "seen_variables.push(v.name.name);" :: [C03+C04.vardefs.h_pushed] proof { crate::lemma_names_push(seen0, seen_variables, v.name.name); }
//@ end

//@ contract nitrogql_checker::operation_checker ::fn check_fragment_definition
//@   unexternal
//@   ensures [C03+C04.fragdef.frame] crate::extends_errs(old(result)@, final(result)@)
//@   ensures [C03.fragdef.sound] final(result)@.len() == old(result)@.len() ==> crate::valid_fragment_target(context.definitions, op)
//@   ensures [C04.fragdef.complete] crate::valid_fragment_target(context.definitions, op) ==> final(result)@.len() == old(result)@.len()
//@ end

//@ canary
} // verus!
fn main() {}
