//@ unit runtime primary=C12 props=C12,C08 disabled
// Unit runtime: crates/printer/src/operation_js_printer/printers.rs::{print_operation_runtime, print_fragment_runtime}
#![feature(pattern, allocator_api)]
#![allow(unused)]
use vstd::prelude::*;
use vstd::std_specs::cmp::PartialEqSpec;
verus! {
//@ fragment printer_rt_base.rs
//@ include iterwrap.rs
//@ fragment writer_model.rs

//@ canary
} // verus!
fn main() {}
