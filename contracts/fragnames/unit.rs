//@ unit fragnames primary=C12 props=C12,C08
// Unit fragnames: crates/printer/src/utils.rs  fragment_names_in_selection_set (+ inner `rec`)
// C12: the list of fragment names whose definitions are appended to an operation's runtime document is
//  - duplicate free (each fragment exactly once),
//  - closed: every fragment spread in the selection set is listed, and for every listed fragment that exists, every
//    fragment IT spreads is listed (transitively, any depth, cyclic spread graphs included),
//  - justified: every listed name is spread by the selection set or by an earlier listed fragment (nothing else).
#![feature(pattern, allocator_api)]
#![allow(unused)]
use vstd::prelude::*;
use vstd::std_specs::cmp::PartialEqSpec;
verus! {
//@ fragment printer_base.rs

use crate::nitrogql_ast::selection_set::{SelectionSet, Selection};
use crate::nitrogql_ast::operation::FragmentDefinition;

// ---------------------------------------------------------------- oracle
/// fragment name `n` is spread somewhere inside selection set `ss` (fields and inline fragments are transparent)
pub open spec fn ss_spreads(ss: SelectionSet, n: Seq<char>) -> bool
    decreases ss, 1nat
{
    exists|i: int| 0 <= i < ss.selections@.len() && sel_spreads(#[trigger] ss.selections@[i], n)
}
pub open spec fn sel_spreads(s: Selection, n: Seq<char>) -> bool
    decreases s, 0nat
{
    match s {
        Selection::Field(f) => f.selection_set matches Some(inner) && ss_spreads(inner, n),
        Selection::FragmentSpread(fs) => fs.fragment_name.name@ == n,
        Selection::InlineFragment(i) => ss_spreads(i.selection_set, n),
    }
}
pub open spec fn listed(names: Seq<&str>, n: Seq<char>) -> bool {
    exists|j: int| 0 <= j < names.len() && (#[trigger] names[j])@ == n
}
pub open spec fn no_dup(names: Seq<&str>) -> bool {
    forall|i: int, j: int| 0 <= i < j < names.len() ==> (#[trigger] names[i])@ != (#[trigger] names[j])@
}

// ---- model of the lookup closure `get_fragment`
pub open spec fn frag_rel<'a, 'src: 'a, F: Fn(&'a str) -> Option<&'a FragmentDefinition<'src>>>(f: &F, n: Seq<char>, r: Option<&'a FragmentDefinition<'src>>) -> bool {
    exists|s: &'a str| s@ == n && #[trigger] f.ensures((s,), r)
}
/// the lookup depends only on the CONTENT of the name, and is total
pub open spec fn lookup_ok<'a, 'src: 'a, F: Fn(&'a str) -> Option<&'a FragmentDefinition<'src>>>(f: &F) -> bool {
    &&& forall|s: &'a str| #[trigger] f.requires((s,))
    &&& forall|a: &'a str, b: &'a str, ra: Option<&'a FragmentDefinition<'src>>, rb: Option<&'a FragmentDefinition<'src>>|
            a@ == b@ && #[trigger] f.ensures((a,), ra) && #[trigger] f.ensures((b,), rb) ==> ra == rb
}
pub open spec fn defined<'a, 'src: 'a, F: Fn(&'a str) -> Option<&'a FragmentDefinition<'src>>>(f: &F, n: Seq<char>) -> bool {
    exists|fr: &'a FragmentDefinition<'src>| frag_rel(f, n, Some(fr))
}
/// the set of names for which a fragment definition exists (finite: it is the key set of a map)
pub open spec fn universe<'a, 'src: 'a, F: Fn(&'a str) -> Option<&'a FragmentDefinition<'src>>>(f: &F) -> ISet<Seq<char>> {
    ISet::new(|n: Seq<char>| defined(f, n))
}
pub open spec fn name_set(names: Seq<&str>) -> ISet<Seq<char>> {
    ISet::new(|n: Seq<char>| listed(names, n))
}
/// closure property of entry j: if the fragment exists, everything it spreads is listed
pub open spec fn closed_at<'a, 'src: 'a, F: Fn(&'a str) -> Option<&'a FragmentDefinition<'src>>>(f: &F, names: Seq<&str>, j: int) -> bool {
    forall|fr: &'a FragmentDefinition<'src>, m: Seq<char>|
        #[trigger] frag_rel(f, names[j]@, Some(fr)) && #[trigger] ss_spreads(fr.selection_set, m) ==> listed(names, m)
}
/// entry j is justified: spread by the root selection set or by an earlier listed fragment (from index lo on)
pub open spec fn justified_at<'a, 'src: 'a, F: Fn(&'a str) -> Option<&'a FragmentDefinition<'src>>>(f: &F, root: SelectionSet, names: Seq<&str>, lo: int, j: int) -> bool {
    ||| ss_spreads(root, names[j]@)
    ||| exists|i: int, fr: &'a FragmentDefinition<'src>| lo <= i < j && #[trigger] frag_rel(f, names[i]@, Some(fr)) && ss_spreads(fr.selection_set, names[j]@)
}

// ---- proof vocabulary (named predicates: quantified invariants must be wrapped, see DESIGN section 2)
pub open spec fn covered_upto(root: SelectionSet, i: int, n: Seq<char>) -> bool {
    exists|k: int| 0 <= k < i && k < root.selections@.len() && sel_spreads(#[trigger] root.selections@[k], n)
}
pub open spec fn justified_upto<'a, 'src: 'a, F: Fn(&'a str) -> Option<&'a FragmentDefinition<'src>>>(f: &F, root: SelectionSet, i: int, names: Seq<&str>, lo: int, j: int) -> bool {
    ||| covered_upto(root, i, names[j]@)
    ||| exists|q: int, fr: &'a FragmentDefinition<'src>| lo <= q < j && #[trigger] frag_rel(f, names[q]@, Some(fr)) && ss_spreads(fr.selection_set, names[j]@)
}
/// termination measure: number of existing fragments not listed yet
pub open spec fn measure<'a, 'src: 'a, F: Fn(&'a str) -> Option<&'a FragmentDefinition<'src>>>(f: &F, names: Seq<&str>) -> nat {
    universe(f).difference(name_set(names)).len()
}
pub open spec fn extends(a: Seq<&str>, b: Seq<&str>) -> bool {
    b.len() >= a.len() && b.subrange(0, a.len() as int) == a
}
pub open spec fn inv<'a, 'src: 'a, F: Fn(&'a str) -> Option<&'a FragmentDefinition<'src>>>(f: &F, root: SelectionSet, names0: Seq<&str>, names: Seq<&str>, i: int) -> bool {
    &&& extends(names0, names)
    &&& no_dup(names)
    &&& forall|n: Seq<char>| #[trigger] covered_upto(root, i, n) ==> listed(names, n)
    &&& forall|j: int| names0.len() <= j < names.len() ==> #[trigger] closed_at(f, names, j)
    &&& forall|j: int| names0.len() <= j < names.len() ==> #[trigger] justified_upto(f, root, i, names, names0.len() as int, j)
    &&& measure(f, names) <= measure(f, names0)
}
pub open spec fn rec_post<'a, 'src: 'a, F: Fn(&'a str) -> Option<&'a FragmentDefinition<'src>>>(f: &F, root: SelectionSet, names0: Seq<&str>, names: Seq<&str>) -> bool {
    &&& extends(names0, names)
    &&& no_dup(names)
    &&& forall|n: Seq<char>| #[trigger] ss_spreads(root, n) ==> listed(names, n)
    &&& forall|j: int| names0.len() <= j < names.len() ==> #[trigger] closed_at(f, names, j)
    &&& forall|j: int| names0.len() <= j < names.len() ==> #[trigger] justified_at(f, root, names, names0.len() as int, j)
    &&& measure(f, names) <= measure(f, names0)
}

proof fn lemma_has_extends(a: Seq<&str>, b: Seq<&str>, n: Seq<char>)
    requires extends(a, b), listed(a, n)
    ensures listed(b, n)
{
    let j = choose|j: int| 0 <= j < a.len() && (#[trigger] a[j])@ == n;
    assert(b.subrange(0, a.len() as int)[j] == b[j]);
    assert(b[j]@ == n);
}
proof fn lemma_measure_mono<'a, 'src: 'a, F: Fn(&'a str) -> Option<&'a FragmentDefinition<'src>>>(f: &F, a: Seq<&str>, b: Seq<&str>)
    requires universe(f).finite(), extends(a, b)
    ensures measure(f, b) <= measure(f, a)
{
    let u = universe(f);
    let x = u.difference(name_set(b));
    let y = u.difference(name_set(a));
    assert forall|n: Seq<char>| x.contains(n) implies y.contains(n) by {
        if listed(a, n) { lemma_has_extends(a, b, n); }
    }
    assert(x.subset_of(y));
    vstd::iset_lib::lemma_iset_subset_finite(y, x);
    vstd::iset_lib::lemma_len_subset(x, y);
}
proof fn lemma_measure_strict<'a, 'src: 'a, F: Fn(&'a str) -> Option<&'a FragmentDefinition<'src>>>(f: &F, a: Seq<&str>, s: &'a str)
    requires universe(f).finite(), defined(f, s@), !listed(a, s@)
    ensures measure(f, a.push(s)) < measure(f, a)
{
    let u = universe(f);
    let b = a.push(s);
    let x = u.difference(name_set(b));
    let y = u.difference(name_set(a));
    assert(extends(a, b)) by { assert(b.subrange(0, a.len() as int) =~= a); }
    assert forall|n: Seq<char>| x.contains(n) implies y.contains(n) by {
        if listed(a, n) { lemma_has_extends(a, b, n); }
    }
    assert(x.subset_of(y));
    assert(b[a.len() as int]@ == s@);
    assert(listed(b, s@));
    assert(!x.contains(s@));
    assert(y.contains(s@));
    x.lemma_subset_not_in_lt(y, s@);
}

proof fn lemma_extends_trans(a: Seq<&str>, b: Seq<&str>, c: Seq<&str>)
    requires extends(a, b), extends(b, c)
    ensures extends(a, c)
{
    assert(c.subrange(0, a.len() as int) =~= a) by {
        assert forall|k: int| 0 <= k < a.len() implies c.subrange(0, a.len() as int)[k] == a[k] by {
            assert(b.subrange(0, a.len() as int)[k] == b[k]);
            assert(c.subrange(0, b.len() as int)[k] == c[k]);
        }
    }
}
proof fn lemma_extends_index(a: Seq<&str>, b: Seq<&str>, k: int)
    requires extends(a, b), 0 <= k < a.len()
    ensures b[k] == a[k]
{
    assert(b.subrange(0, a.len() as int)[k] == b[k]);
}
proof fn lemma_closed_mono<'a, 'src: 'a, F: Fn(&'a str) -> Option<&'a FragmentDefinition<'src>>>(f: &F, a: Seq<&str>, b: Seq<&str>, j: int)
    requires extends(a, b), 0 <= j < a.len(), closed_at(f, a, j)
    ensures closed_at(f, b, j)
{
    lemma_extends_index(a, b, j);
    assert forall|fr: &'a FragmentDefinition<'src>, m: Seq<char>|
        #[trigger] frag_rel(f, b[j]@, Some(fr)) && #[trigger] ss_spreads(fr.selection_set, m) implies listed(b, m) by {
        assert(listed(a, m));
        lemma_has_extends(a, b, m);
    }
}
proof fn lemma_covered_step(root: SelectionSet, i: int, n: Seq<char>)
    requires 0 <= i < root.selections@.len()
    ensures covered_upto(root, i + 1, n) <==> (covered_upto(root, i, n) || sel_spreads(root.selections@[i], n))
{
    if covered_upto(root, i + 1, n) {
        let k = choose|k: int| 0 <= k < i + 1 && k < root.selections@.len() && sel_spreads(#[trigger] root.selections@[k], n);
        if k < i { assert(covered_upto(root, i, n)); }
    }
    if covered_upto(root, i, n) {
        let k = choose|k: int| 0 <= k < i && k < root.selections@.len() && sel_spreads(#[trigger] root.selections@[k], n);
        assert(0 <= k < i + 1 && sel_spreads(root.selections@[k], n));
    }
    if sel_spreads(root.selections@[i], n) {
        assert(0 <= i < i + 1 && sel_spreads(root.selections@[i], n));
    }
}
/// justification and coverage carried from index i / names nb to index i+1 / names na (na extends nb)
proof fn lemma_carry<'a, 'src: 'a, F: Fn(&'a str) -> Option<&'a FragmentDefinition<'src>>>(f: &F, root: SelectionSet, names0: Seq<&str>, nb: Seq<&str>, na: Seq<&str>, i: int)
    requires inv(f, root, names0, nb, i), 0 <= i < root.selections@.len(), extends(nb, na), universe(f).finite(),
    ensures
        extends(names0, na),
        forall|n: Seq<char>| #[trigger] covered_upto(root, i, n) ==> listed(na, n),
        forall|j: int| names0.len() <= j < nb.len() ==> #[trigger] closed_at(f, na, j),
        forall|j: int| names0.len() <= j < nb.len() ==> #[trigger] justified_upto(f, root, i + 1, na, names0.len() as int, j),
        measure(f, na) <= measure(f, names0),
{
    lemma_extends_trans(names0, nb, na);
    assert forall|n: Seq<char>| #[trigger] covered_upto(root, i, n) implies listed(na, n) by { lemma_has_extends(nb, na, n); }
    assert forall|j: int| names0.len() <= j < nb.len() implies #[trigger] closed_at(f, na, j) by {
        assert(closed_at(f, nb, j));
        lemma_closed_mono(f, nb, na, j);
    }
    assert forall|j: int| names0.len() <= j < nb.len() implies #[trigger] justified_upto(f, root, i + 1, na, names0.len() as int, j) by {
        assert(justified_upto(f, root, i, nb, names0.len() as int, j));
        lemma_extends_index(nb, na, j);
        if covered_upto(root, i, nb[j]@) {
            lemma_covered_step(root, i, nb[j]@);
        } else {
            let (q, fr) = choose|q: int, fr: &'a FragmentDefinition<'src>| names0.len() as int <= q < j && #[trigger] frag_rel(f, nb[q]@, Some(fr)) && ss_spreads(fr.selection_set, nb[j]@);
            lemma_extends_index(nb, na, q);
            assert(frag_rel(f, na[q]@, Some(fr)) && ss_spreads(fr.selection_set, na[j]@));
        }
    }
    lemma_measure_mono(f, nb, na);
}

/// a selection that spreads nothing (a field without sub-selection)
proof fn lemma_step_skip<'a, 'src: 'a, F: Fn(&'a str) -> Option<&'a FragmentDefinition<'src>>>(f: &F, root: SelectionSet, names0: Seq<&str>, nb: Seq<&str>, i: int)
    requires inv(f, root, names0, nb, i), 0 <= i < root.selections@.len(), universe(f).finite(),
        forall|n: Seq<char>| !sel_spreads(root.selections@[i], n),
    ensures inv(f, root, names0, nb, i + 1)
{
    assert(extends(nb, nb)) by { assert(nb.subrange(0, nb.len() as int) =~= nb); }
    lemma_carry(f, root, names0, nb, nb, i);
    assert forall|n: Seq<char>| #[trigger] covered_upto(root, i + 1, n) implies listed(nb, n) by { lemma_covered_step(root, i, n); }
}
/// field with a sub-selection / inline fragment: the nested call's postcondition re-establishes the invariant
proof fn lemma_step_nested<'a, 'src: 'a, F: Fn(&'a str) -> Option<&'a FragmentDefinition<'src>>>(f: &F, root: SelectionSet, names0: Seq<&str>, nb: Seq<&str>, na: Seq<&str>, i: int, inner: SelectionSet)
    requires inv(f, root, names0, nb, i), 0 <= i < root.selections@.len(), universe(f).finite(),
        forall|n: Seq<char>| sel_spreads(root.selections@[i], n) <==> ss_spreads(inner, n),
        rec_post(f, inner, nb, na),
    ensures inv(f, root, names0, na, i + 1)
{
    lemma_carry(f, root, names0, nb, na, i);
    assert forall|n: Seq<char>| #[trigger] covered_upto(root, i + 1, n) implies listed(na, n) by {
        lemma_covered_step(root, i, n);
        if sel_spreads(root.selections@[i], n) { assert(ss_spreads(inner, n)); }
    }
    assert forall|j: int| names0.len() <= j < na.len() implies #[trigger] justified_upto(f, root, i + 1, na, names0.len() as int, j) by {
        if j >= nb.len() {
            assert(justified_at(f, inner, na, nb.len() as int, j));
            if ss_spreads(inner, na[j]@) {
                lemma_covered_step(root, i, na[j]@);
            } else {
                let (q, fr) = choose|q: int, fr: &'a FragmentDefinition<'src>| nb.len() as int <= q < j && #[trigger] frag_rel(f, na[q]@, Some(fr)) && ss_spreads(fr.selection_set, na[j]@);
                assert(names0.len() as int <= q < j && frag_rel(f, na[q]@, Some(fr)) && ss_spreads(fr.selection_set, na[j]@));
            }
        }
    }
}
/// spread of a fragment already listed
proof fn lemma_step_dup<'a, 'src: 'a, F: Fn(&'a str) -> Option<&'a FragmentDefinition<'src>>>(f: &F, root: SelectionSet, names0: Seq<&str>, nb: Seq<&str>, i: int, nm: Seq<char>)
    requires inv(f, root, names0, nb, i), 0 <= i < root.selections@.len(), universe(f).finite(),
        forall|n: Seq<char>| sel_spreads(root.selections@[i], n) <==> n == nm,
        listed(nb, nm),
    ensures inv(f, root, names0, nb, i + 1)
{
    assert(extends(nb, nb)) by { assert(nb.subrange(0, nb.len() as int) =~= nb); }
    lemma_carry(f, root, names0, nb, nb, i);
    assert forall|n: Seq<char>| #[trigger] covered_upto(root, i + 1, n) implies listed(nb, n) by { lemma_covered_step(root, i, n); }
}
/// first spread of a name: it is appended; `res` is what the lookup returned for it
proof fn lemma_step_new<'a, 'src: 'a, F: Fn(&'a str) -> Option<&'a FragmentDefinition<'src>>>(f: &F, root: SelectionSet, names0: Seq<&str>, nb: Seq<&str>, na: Seq<&str>, i: int, s: &'a str, res: Option<&'a FragmentDefinition<'src>>)
    requires inv(f, root, names0, nb, i), 0 <= i < root.selections@.len(), universe(f).finite(), lookup_ok(f),
        forall|n: Seq<char>| sel_spreads(root.selections@[i], n) <==> n == s@,
        !listed(nb, s@),
        f.ensures((s,), res),
        match res {
            None => na == nb.push(s),
            Some(frag) => rec_post(f, frag.selection_set, nb.push(s), na),
        },
    ensures inv(f, root, names0, na, i + 1)
{
    let nm = nb.push(s);
    let idx = nb.len() as int;
    assert(extends(nb, nm)) by { assert(nm.subrange(0, nb.len() as int) =~= nb); }
    assert(nm[idx]@ == s@);
    assert(extends(nm, na)) by { if res is None { assert(na.subrange(0, nm.len() as int) =~= nm); } }
    lemma_extends_trans(nb, nm, na);
    lemma_carry(f, root, names0, nb, na, i);
    lemma_extends_index(nm, na, idx);
    assert(na[idx]@ == s@);
    assert(listed(na, s@));
    assert(no_dup(na)) by {
        if res is None {
            assert forall|x: int, y: int| 0 <= x < y < na.len() implies (#[trigger] na[x])@ != (#[trigger] na[y])@ by {
                if y == idx { if na[x]@ == s@ { assert(nb[x]@ == s@); assert(listed(nb, s@)); } }
            }
        }
    }
    assert forall|n: Seq<char>| #[trigger] covered_upto(root, i + 1, n) implies listed(na, n) by { lemma_covered_step(root, i, n); }
    assert(frag_rel(f, s@, res));
    // closure of the new entry
    assert(closed_at(f, na, idx)) by {
        assert forall|fr: &'a FragmentDefinition<'src>, m: Seq<char>|
            #[trigger] frag_rel(f, na[idx]@, Some(fr)) && #[trigger] ss_spreads(fr.selection_set, m) implies listed(na, m) by {
            let s2 = choose|s2: &'a str| s2@ == s@ && #[trigger] f.ensures((s2,), Some(fr));
            assert(res == Some(fr));
        }
    }
    assert forall|j: int| names0.len() <= j < na.len() implies #[trigger] closed_at(f, na, j) by {}
    assert forall|j: int| names0.len() <= j < na.len() implies #[trigger] justified_upto(f, root, i + 1, na, names0.len() as int, j) by {
        if j == idx {
            lemma_covered_step(root, i, s@);
        } else if j > idx {
            let frag = res->Some_0;
            assert(justified_at(f, frag.selection_set, na, nm.len() as int, j));
            if ss_spreads(frag.selection_set, na[j]@) {
                assert(names0.len() as int <= idx < j && frag_rel(f, na[idx]@, Some(frag)) && ss_spreads(frag.selection_set, na[j]@));
            } else {
                let (q, fr) = choose|q: int, fr: &'a FragmentDefinition<'src>| nm.len() as int <= q < j && #[trigger] frag_rel(f, na[q]@, Some(fr)) && ss_spreads(fr.selection_set, na[j]@);
                assert(names0.len() as int <= q < j && frag_rel(f, na[q]@, Some(fr)) && ss_spreads(fr.selection_set, na[j]@));
            }
        }
    }
}

proof fn lemma_nodup_push(a: Seq<&str>, s: &str)
    requires no_dup(a), !listed(a, s@)
    ensures no_dup(a.push(s))
{
    let b = a.push(s);
    assert forall|x: int, y: int| 0 <= x < y < b.len() implies (#[trigger] b[x])@ != (#[trigger] b[y])@ by {
        if y == a.len() { if b[x]@ == s@ { assert(a[x]@ == s@); } }
    }
}
proof fn lemma_inv_to_post<'a, 'src: 'a, F: Fn(&'a str) -> Option<&'a FragmentDefinition<'src>>>(f: &F, root: SelectionSet, names0: Seq<&str>, names: Seq<&str>)
    requires inv(f, root, names0, names, root.selections@.len() as int)
    ensures rec_post(f, root, names0, names)
{
    let len = root.selections@.len() as int;
    assert forall|n: Seq<char>| #[trigger] ss_spreads(root, n) implies listed(names, n) by {
        let k = choose|k: int| 0 <= k < root.selections@.len() && sel_spreads(#[trigger] root.selections@[k], n);
        assert(covered_upto(root, len, n));
    }
    assert forall|j: int| names0.len() <= j < names.len() implies #[trigger] justified_at(f, root, names, names0.len() as int, j) by {
        assert(justified_upto(f, root, len, names, names0.len() as int, j));
        if covered_upto(root, len, names[j]@) {
            let k = choose|k: int| 0 <= k < len && k < root.selections@.len() && sel_spreads(#[trigger] root.selections@[k], names[j]@);
            assert(ss_spreads(root, names[j]@));
        }
    }
}
pub open spec fn seq_matches(refs: Seq<&Selection>, sels: Seq<Selection>) -> bool {
    refs.len() == sels.len() && forall|k: int| 0 <= k < sels.len() ==> *(#[trigger] refs[k]) == sels[k]
}

//@ contract nitrogql_printer::utils ::fn rec
//@   requires [C12.fragnames.rec.pre_lookup] crate::lookup_ok(get_fragment)
//@   requires [C12.fragnames.rec.pre_finite] crate::universe(get_fragment).finite()
//@   requires [C12.fragnames.rec.pre_nodup] crate::no_dup(old(names)@)
//@   ensures [C12.fragnames.rec.frame_prefix] crate::extends(old(names)@, final(names)@)
//@   ensures [C12.fragnames.rec.nodup] crate::no_dup(final(names)@)
//@   ensures [C12.fragnames.rec.covers] forall|n: Seq<char>| #[trigger] crate::ss_spreads(*selection_set, n) ==> crate::listed(final(names)@, n)
//@   ensures [C12.fragnames.rec.closed] forall|j: int| old(names)@.len() <= j < final(names)@.len() ==> #[trigger] crate::closed_at(get_fragment, final(names)@, j)
//@   ensures [C12.fragnames.rec.justified] forall|j: int| old(names)@.len() <= j < final(names)@.len() ==> #[trigger] crate::justified_at(get_fragment, *selection_set, final(names)@, old(names)@.len() as int, j)
//@   ensures [C12.fragnames.rec.measure_monotone] crate::measure(get_fragment, final(names)@) <= crate::measure(get_fragment, old(names)@)
//@   decreases [C12.fragnames.rec.terminates] crate::measure(get_fragment, old(names)@), *selection_set
//@   prefix let ghost names0 = names@; let ghost root = *selection_set; let ghost sels = selection_set.selections@; broadcast use crate::axiom_str_eq; proof { crate::axiom_str_obeys(); assert(crate::inv(get_fragment, root, names0, names0, 0)) by { assert(names0.subrange(0, names0.len() as int) =~= names0); } }
//@   loops 1
//@   loop 0 iter_name it
//@   loop 0 for_continue
//@   loop 0 invariant [C12.fragnames.rec.loop.iter] crate::seq_matches(it.seq(), sels) && 0 <= it.index@ <= sels.len() && sels == root.selections@ && root == *selection_set
//@   loop 0 invariant [C12.fragnames.rec.loop.ctx] crate::lookup_ok(get_fragment) && crate::universe(get_fragment).finite() && crate::measure(get_fragment, names0) == crate::measure(get_fragment, old(names)@)
//@   loop 0 invariant [C12.fragnames.rec.loop.inv] crate::inv(get_fragment, root, names0, names@, it.index@ as int)
//@   loop 0 body_invariant [C12.fragnames.rec.body.ctx] crate::seq_matches(it.seq(), sels) && 0 <= it.index@ < sels.len() && sels == root.selections@ && root == *selection_set && *selection == sels[it.index@ as int] && crate::lookup_ok(get_fragment) && crate::universe(get_fragment).finite() && crate::measure(get_fragment, names0) == crate::measure(get_fragment, old(names)@)
//@   loop 0 body_invariant [C12.fragnames.rec.body.inv] crate::inv(get_fragment, root, names0, names@, it.index@ as int)
//@   loop 0 body_ensures [C12.fragnames.rec.body.step] crate::inv(get_fragment, root, names0, names@, it.index@ as int + 1)
//@   loop 0 body_prefix broadcast use crate::axiom_str_eq; proof { crate::axiom_str_obeys(); }
//@   hint before 0 "if let Some(selection_set) = field.selection_set.as_ref() {" :: [C12.fragnames.rec.h_field_snap] let ghost nb = names@;
//@   hint after 0 "rec(selection_set, get_fragment, names); }" :: [C12.fragnames.rec.h_field] proof { if field.selection_set is Some { crate::lemma_step_nested(get_fragment, root, names0, nb, names@, it.index@ as int, field.selection_set->Some_0); } else { crate::lemma_step_skip(get_fragment, root, names0, nb, it.index@ as int); } }
//@   hint after 0 "if names.contains(&fragment_spread.fragment_name.name) {" :: [C12.fragnames.rec.h_dup] proof { crate::lemma_step_dup(get_fragment, root, names0, names@, it.index@ as int, fragment_spread.fragment_name.name@); }
//@   hint before 0 "names.push(fragment_spread.fragment_name.name);" :: [C12.fragnames.rec.h_push_snap] let ghost nb = names@; proof { let x = fragment_spread.fragment_name.name; assert(!crate::listed(nb, x@)) by { if crate::listed(nb, x@) { let j = choose|j: int| 0 <= j < nb.len() && (#[trigger] nb[j])@ == x@; assert(vstd::std_specs::cmp::PartialEqSpec::eq_spec(&nb[j], &x)); } } }
//@   hint after 0 "names.push(fragment_spread.fragment_name.name);" :: [C12.fragnames.rec.h_push] proof { crate::lemma_nodup_push(nb, fragment_spread.fragment_name.name); }
//@   hint after 0 "let Some(fragment) = get_fragment(fragment_spread.fragment_name.name) else {" :: [C12.fragnames.rec.h_undefined] proof { crate::lemma_step_new(get_fragment, root, names0, nb, names@, it.index@ as int, fragment_spread.fragment_name.name, None); }
//@   hint before 0 "rec(&fragment.selection_set, get_fragment, names);" :: [C12.fragnames.rec.h_defined_measure] proof { assert(crate::frag_rel(get_fragment, fragment_spread.fragment_name.name@, Some(fragment))); crate::lemma_measure_strict(get_fragment, nb, fragment_spread.fragment_name.name); }
//@   hint after 0 "rec(&fragment.selection_set, get_fragment, names);" :: [C12.fragnames.rec.h_defined] proof { crate::lemma_step_new(get_fragment, root, names0, nb, names@, it.index@ as int, fragment_spread.fragment_name.name, Some(fragment)); }
//@   hint before 0 "rec(&inline_fragment.selection_set, get_fragment, names);" :: [C12.fragnames.rec.h_inline_snap] let ghost nb = names@;
//@   hint after 0 "rec(&inline_fragment.selection_set, get_fragment, names);" :: [C12.fragnames.rec.h_inline] proof { crate::lemma_step_nested(get_fragment, root, names0, nb, names@, it.index@ as int, inline_fragment.selection_set); }
//@   suffix [C12.fragnames.rec.h_exit] proof { crate::lemma_inv_to_post(get_fragment, root, names0, names@); }
//@ end

//@ contract nitrogql_printer::utils ::fn fragment_names_in_selection_set
//@   ret r
//@   requires [C12.fragnames.pre_lookup] crate::lookup_ok(&get_fragment)
//@   requires [C12.fragnames.pre_finite] crate::universe(&get_fragment).finite()
//@   ensures [C12.fragnames.exactly_once] crate::no_dup(r@)
//@   ensures [C12.fragnames.covers_spreads] forall|n: Seq<char>| #[trigger] crate::ss_spreads(*selection_set, n) ==> crate::listed(r@, n)
//@   ensures [C12.fragnames.transitively_closed] forall|j: int| 0 <= j < r@.len() ==> #[trigger] crate::closed_at(&get_fragment, r@, j)
//@   ensures [C12.fragnames.nothing_else] forall|j: int| 0 <= j < r@.len() ==> #[trigger] crate::justified_at(&get_fragment, *selection_set, r@, 0, j)
//@ end

//@ canary
} // verus!
fn main() {}
