//@ unit mergefields primary=C01 props=C01,C02,C08
// Unit mergefields: crates/printer/src/operation_type_printer/deep_merge.rs::merge_fields
// Two occurrences of the same response key in one selection set are merged.  `Empty` = the field is excluded under the
// current @skip/@include assignment (emitted as `key?: never`), `Leaf`/`Object` = it is selected.
//  C01: a key that is selected in EITHER occurrence stays selected (the server returns it, so it must not become `never`);
//  C02: the merged key is `Empty` only if BOTH occurrences are excluded; the selected occurrence's type is kept.
#![feature(pattern, allocator_api)]
#![allow(unused)]
use vstd::prelude::*;
use vstd::std_specs::cmp::PartialEqSpec;
verus! {
//@ fragment printer_ops_base.rs
//@ include strmodel.rs
//@ fragment typesys_contracts.rs

use crate::nitrogql_printer::operation_type_printer::selection_tree::{SelectionTree, SelectionTreeField};

pub open spec fn name_of<S>(f: SelectionTreeField<S>) -> S {
    match f {
        SelectionTreeField::Empty(e) => e.name,
        SelectionTreeField::Leaf(l) => l.name,
        SelectionTreeField::Object(o) => o.name,
    }
}
/// result of merging two sub-selections (merge_selection_trees is outside Verus' reach: chain)
pub uninterp spec fn merged_tree<S>(l: SelectionTree<S>, r: SelectionTree<S>) -> SelectionTree<S>;

//@ contract nitrogql_printer::operation_type_printer::selection_tree ::fn name
//@   ret r
//@   ensures [C01+C02.mergefields.name_accessor] *r == crate::name_of(*self)
//@ end
//@ contract nitrogql_printer::operation_type_printer::deep_merge ::fn merge_selection_trees
//@   ret r
//@   ensures [C01+C02.mergefields.assumed_merge_trees] r == crate::merged_tree(left, right)
//@ end

//@ contract nitrogql_printer::operation_type_printer::deep_merge ::fn merge_fields
//@   unexternal
//@   ret r
//@   requires [C01+C02.mergefields.pre_same_key] crate::tv(crate::name_of(left)) == crate::tv(crate::name_of(right))
//@   requires [C01+C02.mergefields.pre_same_kind] !(left is Leaf && right is Object) && !(left is Object && right is Leaf)
//@   ensures [C01.mergefields.selected_stays_selected] (!(left is Empty) || !(right is Empty)) ==> !(r is Empty)
//@   ensures [C02.mergefields.excluded_only_if_both] (left is Empty && right is Empty) ==> r is Empty
//@   ensures [C01+C02.mergefields.key_kept] crate::name_of(r) == crate::name_of(left) || crate::name_of(r) == crate::name_of(right)
//@   ensures [C02.mergefields.leaf_type_kept] (left is Leaf ==> r == left) && (left is Empty && right is Leaf ==> r == right)
//@   ensures [C02.mergefields.object_kept] (left is Object && right is Empty ==> r == left) && (left is Empty && right is Object ==> r == right) && (left is Object && right is Object ==> r is Object && r->Object_0.name == left->Object_0.name && r->Object_0.selection == crate::merged_tree(left->Object_0.selection, right->Object_0.selection))
//@   prefix broadcast use crate::text_model; proof { crate::axiom_text_obeys::<S>(); }
//@ end

//@ canary
} // verus!
fn main() {}
