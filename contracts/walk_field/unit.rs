//@ unit walk_field primary=C03 props=C03,C04,C08
// Unit walk_field: crates/checker/src/operation_checker/mod.rs::check_selection_field   (one step of the walk)
// Oracle: spec 5.3.1 Field Selections (the field is defined on the enclosing type), 5.7 directives valid at FIELD, 5.4
// arguments valid for the field's argument definitions, 5.3.3 Leaf Field Selections (a field of composite type has a
// sub-selection, which is checked against that type; a field of leaf type has none).
#![feature(pattern, allocator_api)]
#![allow(unused)]
use vstd::prelude::*;
use vstd::std_specs::cmp::PartialEqSpec;
verus! {
//@ fragment checker_ops_base.rs
//@ include strmodel.rs
//@ fragment typesys_contracts.rs
//@ fragment schema_view.rs
//@ fragment seenlist.rs
//@ fragment checker_spec.rs
//@ fragment spec_walk.rs
//@ fragment contract_walk_ss.rs
//@   attr #[verifier::external_body]
//@ end
//@ fragment contract_check_directives.rs
//@   attr #[verifier::external_body]
//@ end
//@ fragment contract_check_arguments.rs
//@   attr #[verifier::external_body]
//@ end

use crate::graphql_type_system::r#type::Type as TsType;

/// innermost named type of a type-system type reference
pub open spec fn ts_unwrapped<S, N>(t: TsType<S, N>) -> Seq<char>
    decreases t
{
    match t {
        TsType::Named(n) => tv(n.name.inner),
        TsType::List(l) => ts_unwrapped(l.inner),
        TsType::NonNull(l) => ts_unwrapped(l.inner),
    }
}
//@ contract graphql_type_system::r#type ::fn unwrapped
//@   ret r
//@   ensures [C03+C04.walk.field.unwrapped] crate::tv(r.name.inner) == crate::ts_unwrapped(*self)
//@   decreases [C03+C04.walk.field.unwrapped.terminates] *self
//@ end
//@ contract nitrogql_semantics::direct_fields_of_output_type ::fn direct_fields_of_output_type
//@   attr #[verifier::external_body]
//@   ret r
//@   ensures [assumed.direct_fields.some] (r is Some) == (crate::selectable_fields(*ty) is Some)
//@ end
// A-STD (trusted): Borrow<Field> is a pure projection; bool::then_some
// (std::borrow::Borrow cannot be declared to Verus: it creates a cycle with vstd's HashMap specifications; the one call is
// replaced by a trusted wrapper whose body is that call - T16)
#[verifier::external_body]
pub fn vx_borrow_field<F: std::borrow::Borrow<TsField<S, Pos>>, S>(f: &F) -> (r: &TsField<S, Pos>)
    ensures *r == borrowed_field::<F, S>(*f)
{
    <F as std::borrow::Borrow<TsField<S, Pos>>>::borrow(f)
}
pub assume_specification<T> [bool::then_some] (b: bool, t: T) -> (r: Option<T>)
    ensures r == (if b { Some(t) } else { None::<T> });

pub open spec fn is_first_field<S>(fields: Seq<TsField<S, Pos>>, name: Seq<char>, k: int) -> bool {
    0 <= k < fields.len() && tv(fields[k].name.inner) == name && forall|j: int| 0 <= j < k ==> tv((#[trigger] fields[j]).name.inner) != name
}
pub open spec fn def_field_at<'a, 'src, S>(fm: &FragmentMap<'a, 'src>, seen: Seq<Seq<char>>, vars: Option<&VariablesDefinition<'src>>, t: TsField<S, Pos>, f: SelField<'src>, sch: &Schema<S, Pos>) -> bool {
    &&& dirs_valid(sch, vars, f.directives@, "FIELD"@)
    &&& args_valid(sch, vars, opt_ref(f.arguments), t.arguments@)
    &&& schema_types(sch).contains_key(ts_unwrapped(t.r#type))
    &&& match f.selection_set {
        Some(ss) => v_ss(fm, seen, vars, schema_types(sch)[ts_unwrapped(t.r#type)], ss, sch),
        None => !is_composite(schema_types(sch)[ts_unwrapped(t.r#type)].inner),
    }
}
pub open spec fn def_field<'a, 'src, S>(fm: &FragmentMap<'a, 'src>, seen: Seq<Seq<char>>, vars: Option<&VariablesDefinition<'src>>, fields: Seq<TsField<S, Pos>>, f: SelField<'src>, sch: &Schema<S, Pos>) -> bool {
    exists|k: int| is_first_field(fields, f.name.name@, k) && def_field_at(fm, seen, vars, #[trigger] fields[k], f, sch)
}
/// what the find_map closure is forced to return on item i
pub open spec fn expected_outs<'x, F, S>(items: Seq<&'x F>, name: Seq<char>) -> Seq<Option<&'x TsField<S, Pos>>> {
    Seq::new(items.len(), |i: int| if tv(borrowed_field::<F, S>(*items[i]).name.inner) == name { Some(&borrowed_field::<F, S>(*items[i])) } else { None })
}

//@ contract nitrogql_checker::operation_checker ::fn check_selection_field
//@   unexternal
//@   rewrite T16 1 "<F as Borrow<Field<_, _>>>::borrow(field)" => "crate::vx_borrow_field::<F, S>(field)"
//@   requires [C03+C04.walk.field.pre_schema_wf] crate::schema_wf(context.definitions)
//@   requires [C03+C04.walk.field.pre_unique_argdefs] forall|k: int| 0 <= k < root_fields@.len() ==> crate::nodup(crate::argdef_names((#[trigger] crate::borrowed_fields::<F, S>(root_fields@)[k]).arguments@))
//@   ensures [C03+C04.walk.field.frame] crate::extends_errs(old(result)@, final(result)@)
//@   ensures [C03+C04.walk.field.one_step] (final(result)@.len() == old(result)@.len()) <==> crate::def_field(fragment_map, crate::seen_view(seen_fragments@), variables, crate::borrowed_fields::<F, S>(root_fields@), *field_selection, context.definitions)
//@   prefix broadcast use crate::text_model, crate::axiom_selectable_composite; let ghost bf = crate::borrowed_fields::<F, S>(root_fields@); let ghost nm = field_selection.name.name@; proof { crate::axiom_text_obeys::<S>(); crate::axiom_text_obeys_str::<S>(); }
//@   closure 0 |field: &F| -> (o: Option<&crate::graphql_type_system::definitions::Field<S, Pos>>) ;; ensures [C03+C04.walk.field.cl_find] o == (if crate::tv(crate::borrowed_field::<F, S>(*field).name.inner) == selection_name@ { Some(&crate::borrowed_field::<F, S>(*field)) } else { None })
//@   hint before 0 "let Some(target_field) = target_field else {" :: [C03+C04.walk.field.h_find] let ghost mut k0: int = 0; proof { let rem = root_fields@.as_ref(); let outs = crate::expected_outs::<F, S>(rem, nm); assert(rem.len() == root_fields@.len()); assert(forall|i: int| 0 <= i < rem.len() ==> *(#[trigger] rem[i]) == root_fields@[i]); assert(target_field == crate::first_some(outs)); crate::lemma_first_some(outs); if target_field is Some { k0 = choose|i: int| 0 <= i < outs.len() && #[trigger] outs[i] == Some(target_field->Some_0) && forall|j: int| 0 <= j < i ==> (#[trigger] outs[j]) is None; assert(*target_field->Some_0 == bf[k0]); assert(crate::is_first_field(bf, nm, k0)) by { assert forall|j: int| 0 <= j < k0 implies crate::tv((#[trigger] bf[j]).name.inner) != nm by { assert(outs[j] is None); } } assert forall|k: int| crate::is_first_field(bf, nm, k) implies k == k0 by { if k < k0 { assert(outs[k] is None); } if k0 < k { assert(crate::tv(bf[k0].name.inner) == nm); } } } else { assert forall|k: int| !crate::is_first_field(bf, nm, k) by { if 0 <= k < bf.len() { assert(outs[k] is None); } } } }
//@ end

//@ canary
} // verus!
fn main() {}
