//@ unit printdoc primary=C14 props=C14,C08
// Unit printdoc: crates/printer/src/operation_base_printer/mod.rs::OperationPrinter::print_document  (the traversal
// shared by the JavaScript printer and the .d.graphql.ts printer: it decides WHICH definitions are printed, under WHICH
// name, whether they are exported and whether a default export is emitted).
//  C14: for any visitor, the text written is header, then for each definition in document order the visitor's text for
//  a context that carries: operation constant name from operation_variable_name, `exported` = the named-export option;
//  a default export right after the operation iff the default-export option is on and the document has exactly one
//  operation; fragment constant name = fragment name ++ configured suffix, exported iff the fragment belongs to this
//  file - then the trailer.  Both printers run THIS function, so both see the same contexts.
#![feature(pattern, allocator_api)]
#![allow(unused)]
use vstd::prelude::*;
use vstd::std_specs::cmp::PartialEqSpec;
verus! {
//@ fragment printer_ops_base.rs
//@ include iterwrap.rs
//@ fragment writer_model.rs

use crate::nitrogql_ast::operation::{ExecutableDefinition, OperationDefinition, FragmentDefinition, OperationDocument};
use crate::nitrogql_printer::operation_base_printer::{OperationNames, OperationPrinter};
use crate::nitrogql_printer::operation_base_printer::options::OperationBasePrinterOptions;
use crate::nitrogql_printer::operation_base_printer::visitor::{OperationPrinterVisitor, PrintOperationContext, PrintFragmentContext};
use crate::sourcemap_writer::writer::SourceMapWriter;
use std::collections::HashMap;

// ---- what a visitor writes (ANY visitor: uninterpreted, a function of the visitor and of the CONTENT of the context)
pub struct OpCtx<'a> { pub operation_name: Seq<char>, pub variable_name: Seq<char>, pub exported: bool, pub export_input_type: bool, pub export_result_type: bool,
                       pub operation: OperationDefinition<'a>, pub fragments: HashMap<&'a str, &'a FragmentDefinition<'a>> }
pub struct FragCtx<'a> { pub var_name: Seq<char>, pub exported: bool, pub fragment: FragmentDefinition<'a>, pub fragments: HashMap<&'a str, &'a FragmentDefinition<'a>> }
pub open spec fn op_ctx_view<'a>(c: PrintOperationContext<'a>) -> OpCtx<'a> {
    OpCtx { operation_name: c.operation_names.operation_name@, variable_name: c.operation_names.operation_variable_name@, exported: c.exported,
            export_input_type: c.export_input_type, export_result_type: c.export_result_type, operation: *c.operation, fragments: *c.fragments }
}
pub open spec fn frag_ctx_view<'a>(c: PrintFragmentContext<'a>) -> FragCtx<'a> {
    FragCtx { var_name: c.var_name@, exported: c.exported, fragment: *c.fragment, fragments: *c.fragments }
}
pub uninterp spec fn header_text<V: ?Sized>(v: &V) -> Seq<char>;
pub uninterp spec fn trailer_text<V: ?Sized>(v: &V) -> Seq<char>;
pub uninterp spec fn op_text<'a, V: ?Sized>(v: &V, c: OpCtx<'a>) -> Seq<char>;
pub uninterp spec fn default_text<'a, V: ?Sized>(v: &V, c: OpCtx<'a>) -> Seq<char>;
pub uninterp spec fn frag_text<'a, V: ?Sized>(v: &V, c: FragCtx<'a>) -> Seq<char>;

//@ contract nitrogql_printer::operation_base_printer::visitor ::fn print_header
//@   ensures [assumed.visitor.header] final(writer).out() == old(writer).out() + crate::header_text(self)
//@ end
//@ contract nitrogql_printer::operation_base_printer::visitor ::fn print_trailer
//@   ensures [assumed.visitor.trailer] final(writer).out() == old(writer).out() + crate::trailer_text(self)
//@ end
//@ contract nitrogql_printer::operation_base_printer::visitor ::fn print_operation_definition
//@   ensures [assumed.visitor.operation] final(writer).out() == old(writer).out() + crate::op_text(self, crate::op_ctx_view(context))
//@ end
//@ contract nitrogql_printer::operation_base_printer::visitor ::fn print_fragment_definition
//@   ensures [assumed.visitor.fragment] final(writer).out() == old(writer).out() + crate::frag_text(self, crate::frag_ctx_view(context))
//@ end
//@ contract nitrogql_printer::operation_base_printer::visitor ::fn print_default_exported_operation_definition
//@   ensures [assumed.visitor.default] final(writer).out() == old(writer).out() + crate::default_text(self, crate::op_ctx_view(context))
//@ end

// ---- operation constant names (proved in unit tsvisitor: clauses C14.tsvisitor.opnames.*; assumed here)
pub uninterp spec fn capitalized(s: Seq<char>) -> Seq<char>;
pub open spec fn variable_suffix(o: OperationBasePrinterOptions, t: crate::nitrogql_ast::operation::OperationType) -> Seq<char> {
    match t {
        crate::nitrogql_ast::operation::OperationType::Query => o.query_variable_suffix@,
        crate::nitrogql_ast::operation::OperationType::Mutation => o.mutation_variable_suffix@,
        crate::nitrogql_ast::operation::OperationType::Subscription => o.subscription_variable_suffix@,
    }
}
pub open spec fn op_name_of(o: OperationBasePrinterOptions, op: OperationDefinition) -> Seq<char> {
    match op.name { Some(n) => if o.capitalize_operation_names { capitalized(n.name@) } else { n.name@ }, None => Seq::<char>::empty() }
}
//@ contract nitrogql_printer::operation_base_printer ::fn operation_variable_name
//@   attr #[verifier::external_body]
//@   ret r
//@   ensures [assumed.opnames.operation_name] r.operation_name@ == crate::op_name_of(*options, *operation)
//@   ensures [assumed.opnames.variable_name] r.operation_variable_name@ == crate::op_name_of(*options, *operation) + crate::variable_suffix(*options, operation.operation_type)
//@ end

pub open spec fn is_op(d: ExecutableDefinition) -> bool { d is OperationDefinition }
pub open spec fn op_flags(defs: Seq<ExecutableDefinition>) -> Seq<bool> { Seq::new(defs.len(), |i: int| is_op(defs[i])) }
/// the context the traversal must build for one operation
pub open spec fn expected_op_ctx<'a>(o: OperationBasePrinterOptions, op: OperationDefinition<'a>, fm: HashMap<&'a str, &'a FragmentDefinition<'a>>) -> OpCtx<'a> {
    OpCtx { operation_name: op_name_of(o, op), variable_name: op_name_of(o, op) + variable_suffix(o, op.operation_type), exported: o.named_export_for_operation,
            export_input_type: o.export_input_type, export_result_type: o.export_result_type, operation: op, fragments: fm }
}
pub open spec fn expected_frag_ctx<'a>(o: OperationBasePrinterOptions, doc: OperationDocument<'a>, f: FragmentDefinition<'a>, fm: HashMap<&'a str, &'a FragmentDefinition<'a>>) -> FragCtx<'a> {
    FragCtx { var_name: f.name.name@ + o.fragment_variable_suffix@, exported: doc.position.file == f.position.file, fragment: f, fragments: fm }
}
pub open spec fn def_text<'a, V: ?Sized>(v: &V, o: OperationBasePrinterOptions, doc: OperationDocument<'a>, fm: HashMap<&'a str, &'a FragmentDefinition<'a>>, d: ExecutableDefinition<'a>) -> Seq<char> {
    match d {
        ExecutableDefinition::OperationDefinition(op) =>
            op_text(v, expected_op_ctx(o, op, fm))
            + (if o.default_export_for_operation && count_true(op_flags(doc.definitions@)) == 1 { default_text(v, expected_op_ctx(o, op, fm)) } else { Seq::<char>::empty() }),
        ExecutableDefinition::FragmentDefinition(f) => frag_text(v, expected_frag_ctx(o, doc, f, fm)),
    }
}
pub open spec fn body_text<'a, V: ?Sized>(v: &V, o: OperationBasePrinterOptions, doc: OperationDocument<'a>, fm: HashMap<&'a str, &'a FragmentDefinition<'a>>, n: int) -> Seq<char>
    decreases n
{
    if n <= 0 { Seq::<char>::empty() } else { body_text(v, o, doc, fm, n - 1) + def_text(v, o, doc, fm, doc.definitions@[n - 1]) }
}

// A-ITER (trusted, T16): `it.filter_map(f).collect()`; no property of the collected value is assumed
#[verifier::external_body]
pub fn vx_filter_map_collect<I: Iterator, B, F: FnMut(I::Item) -> Option<B>, C: FromIterator<B>>(it: I, f: F) -> (r: C)
{
    it.filter_map(f).collect()
}

//@ contract nitrogql_printer::operation_base_printer ::fn print_document
//@   unexternal
//@   wrap_chain vx_filter_count filter,count
//@   wrap_chain vx_filter_map_collect filter_map,collect
//@   ensures [C14.printdoc.traversal] exists|fm: std::collections::HashMap<&str, &crate::nitrogql_ast::operation::FragmentDefinition>| final(self).writer.out() == old(self).writer.out() + crate::header_text(&old(self).visitor) + crate::body_text(&old(self).visitor, old(self).options, *document, fm, document.definitions@.len() as int) + crate::trailer_text(&old(self).visitor)
//@   ensures [C14.printdoc.frame] final(self).options == old(self).options
//@   closure 0 |def: &&crate::nitrogql_ast::operation::ExecutableDefinition| -> (b: bool) ;; ensures [C14.printdoc.cl_isop] b == crate::is_op(**def)
//@   hint after 0 "matches!(def, ExecutableDefinition::OperationDefinition(_))" :: [C14.printdoc.h_count] proof { let defs = document.definitions@; let rem = defs.as_ref(); assert(rem.len() == defs.len()); assert(forall|i: int| 0 <= i < rem.len() ==> *(#[trigger] rem[i]) == defs[i]); assert(operation_count == crate::count_true(crate::op_flags(defs))); }
//@   loops 1
//@   loop 0 iter_name it
//@   loop 0 invariant [C14.printdoc.loop.iter] it.seq().len() == document.definitions@.len() && 0 <= it.index@ <= it.seq().len() && (forall|i: int| 0 <= i < it.seq().len() ==> *it.seq()[i] == document.definitions@[i])
//@   loop 0 invariant [C14.printdoc.loop.ctx] operation_count == crate::count_true(crate::op_flags(document.definitions@)) && self.options == old(self).options && self.visitor == old(self).visitor
//@   loop 0 invariant [C14.printdoc.loop.text] self.writer.out() == old(self).writer.out() + crate::header_text(&self.visitor) + crate::body_text(&self.visitor, self.options, *document, fragments, it.index@ as int)
//@   loop 0 prefix broadcast use crate::str_of_axioms; let ghost out_a = self.writer.out(); proof { assert(*d == document.definitions@[it.index@ as int]); }
//@   loop 0 suffix [C14.printdoc.loop.text#step] proof { let n = it.index@ as int; assert(self.writer.out() == out_a + crate::def_text(&self.visitor, self.options, *document, fragments, document.definitions@[n])); assert(crate::body_text(&self.visitor, self.options, *document, fragments, n + 1) == crate::body_text(&self.visitor, self.options, *document, fragments, n) + crate::def_text(&self.visitor, self.options, *document, fragments, document.definitions@[n])); }
//@ end

//@ canary
} // verus!
fn main() {}
