//@ unit srcwriter primary=C06 props=C06,C08
// Unit srcwriter: crates/sourcemap-writer/src/source_writer.rs  SourceWriter::{new, write, flush_pending_indent, indent, dedent}
// and source_writer/utf16_len.rs::utf16_len  (generated line / column bookkeeping behind every source-map segment).
//  C06: after any sequence of writes the writer's (current_line, current_column) is exactly the position of the end of the
//  generated text: line = number of line feeds written, column = UTF-16 length of the text after the last line feed -
//  so a segment recorded at that point lies inside the generated text, at the character that is written next.
//  The text appended by write(chunk) is the chunk with the current indentation in front of every non-empty line that
//  starts a generated line (spec fn indented).
#![feature(pattern, allocator_api)]
#![allow(unused)]
use vstd::prelude::*;
use vstd::std_specs::cmp::PartialEqSpec;
use lru::LruCache;
use std::num::NonZeroUsize;
verus! {
global size_of usize == 8;
//@ deps
//@ include stdlib_checker.rs
//@ include stdlib_repeat.rs
//@ include iterwrap.rs
//@ fragment indent_model.rs

/// A-LIMIT (trusted): a Rust String / str holds at most isize::MAX bytes and its UTF-16 length never exceeds its UTF-8
/// length, so both its char count and its UTF-16 length fit in isize.
#[verifier::external_body]
pub proof fn axiom_text_limit(s: Seq<char>)
    ensures s.len() <= isize::MAX, utf16(s) <= isize::MAX
{}
pub assume_specification [char::len_utf16] (c: char) -> (r: usize)
    ensures r == u16len(c);

pub open spec fn u16_seq(s: Seq<char>) -> Seq<usize> { Seq::new(s.len(), |i: int| u16len(s[i]) as usize) }
//@ lemma [C06.srcwriter.sum_is_utf16] lemma_sum_is_utf16
pub proof fn lemma_sum_is_utf16(s: Seq<char>)
    ensures sum_usize(u16_seq(s)) == utf16(s)
    decreases s.len()
{
    if s.len() > 0 {
        lemma_sum_is_utf16(s.drop_last());
        assert(u16_seq(s).drop_last() =~= u16_seq(s.drop_last()));
    }
}
//@ extract crates/sourcemap-writer/src/source_writer/utf16_len.rs :: fn utf16_len
//@   wrap_chain vx_chars_map_sum chars,map,sum
//@   ret r
//@   closure 0 |c: char| -> (n: usize) ;; ensures [C06.srcwriter.utf16_len.unit] n == crate::u16len(c)
//@   ensures [C06.srcwriter.utf16_len] r == utf16(s@)
//@   wrap 0 "crate::vx_chars_map_sum(s, |c| c.len_utf16())" :: [C06.srcwriter.utf16_len#sum] proof { crate::axiom_text_limit(s@); crate::lemma_sum_is_utf16(s@); assert(r__ == crate::sum_usize(crate::u16_seq(s@))); }
//@ end

//@ fragment lru_model.rs
//@ fragment spec_mapping.rs
// callees by contract only: add_entry is PROVED in unit mapping, map_name in unit names
//@ extract crates/sourcemap-writer/src/source_writer/mapping_writer.rs :: impl MappingWriter
//@   only new,add_entry
//@   fn new
//@   attr #[verifier::external_body]
//@   ret r
//@   ensures [assumed.mapping.new] r.out() == Seq::<char>::empty() && r.wf() && r.dec() == (Dec { line: 0, col: 0, src: 0, ol: 0, oc: 0, name: 0 })
//@ fragment contract_add_entry.rs
//@   attr #[verifier::external_body]
//@ end
//@ extract crates/sourcemap-writer/src/source_writer/name_mapper.rs :: impl NameMapper
//@   only new,map_name
//@   fn new
//@   attr #[verifier::external_body]
//@   ret r
//@   ensures [assumed.names.new] r.wf() && r.names() == Seq::<Seq<char>>::empty()
//@ fragment contract_map_name.rs
//@   attr #[verifier::external_body]
//@ end
/// A-LIMIT (trusted): a Vec<String> holds at most isize::MAX / 24 elements
#[verifier::external_body]
pub proof fn axiom_names_limit(v: &Vec<String>)
    ensures v@.len() <= isize::MAX
{}

//@ extract crates/ast/src/base.rs :: struct Pos
//@   derive_remove Debug,Hash,PartialEq,Eq
//@ end
//@ extract crates/ast/src/base.rs :: trait HasPos
//@   rewrite T4-ghost 1 "pub trait HasPos {" => "pub trait HasPos {\n    /* vx: ghost views inserted (T4); erased at compile time */ spec fn vpos(&self) -> Pos; spec fn vname(&self) -> Option<Seq<char>>;"
//@   fn position
//@   ret r
//@   ensures [assumed.haspos.position] *r == self.vpos()
//@   fn name
//@   ret r
//@   ensures [assumed.haspos.name] (r matches Some(n) ==> self.vname() == Some(n@)) && (r is None ==> self.vname() is None)
//@ end
//@ extract crates/sourcemap-writer/src/source_writer.rs :: struct SourceWriter
//@   pubfields
//@ end

impl SourceWriter {
    /// the position bookkeeping is consistent with the generated text
    pub open spec fn wf(&self) -> bool {
        &&& self.current_line == newlines(self.buffer@)
        &&& self.current_column == last_col(self.buffer@)
        &&& self.indent_str@ == spaces(self.indent as nat)
        &&& (self.has_indent_flag ==> last_col(self.buffer@) == 0)
    }
}

//@ extract crates/sourcemap-writer/src/source_writer.rs :: impl SourceWriter
//@   only new,flush_pending_indent
//@   fn new
//@   ret r
//@   ensures [C06.srcwriter.new] r.wf() && r.wf_map() && r.buffer@ == Seq::<char>::empty() && r.mapping.out() == Seq::<char>::empty() && r.name_mapper.names() == Seq::<Seq<char>>::empty() && !r.has_indent_flag && r.indent == 0 && r.file_index_mapper is None
//@   prefix proof { assert(spaces(0) =~= Seq::<char>::empty()); }
//@   fn flush_pending_indent
//@   requires [C06.srcwriter.flush.pre_wf] old(self).wf()
//@   ensures [C06.srcwriter.flush.wf] final(self).wf() && !final(self).has_indent_flag
//@   ensures [C06.srcwriter.flush.text] final(self).buffer@ == old(self).buffer@ + (if old(self).has_indent_flag { spaces(old(self).indent as nat) } else { Seq::<char>::empty() })
//@   ensures [C06.srcwriter.flush.frame] final(self).current_line == old(self).current_line && final(self).indent == old(self).indent && final(self).indent_str == old(self).indent_str && final(self).mapping == old(self).mapping && final(self).name_mapper == old(self).name_mapper && final(self).file_index_mapper == old(self).file_index_mapper
//@   prefix proof { crate::lemma_spaces(self.indent as nat); crate::lemma_geom_line(self.buffer@, spaces(self.indent as nat)); crate::axiom_text_limit(self.buffer@ + spaces(self.indent as nat)); crate::lemma_geom_bounds(self.buffer@ + spaces(self.indent as nat)); assert(self.buffer@ + Seq::<char>::empty() =~= self.buffer@); }
//@ end

//@ extract crates/sourcemap-writer/src/source_writer.rs :: impl SourceMapWriter for SourceWriter
//@   rewrite T19 1 "impl SourceMapWriter for SourceWriter" => "impl SourceWriter /* vx:T19 trait impl -> inherent impl (same bodies; `requires` is not allowed on trait impls) */"
//@   only write,indent,dedent
//@   wrap_chain vx_split_char split
//@   enumerate_for
//@   fn indent
//@   requires [C06.srcwriter.indent.pre_wf] old(self).wf()
//@   ensures [C06.srcwriter.indent.wf] final(self).wf() && final(self).indent == old(self).indent + 2
//@   ensures [C06.srcwriter.indent.frame] final(self).buffer == old(self).buffer && final(self).has_indent_flag == old(self).has_indent_flag && final(self).mapping == old(self).mapping && final(self).name_mapper == old(self).name_mapper && final(self).file_index_mapper == old(self).file_index_mapper
//@   prefix proof { crate::axiom_text_limit(self.indent_str@); reveal_strlit(" "); }
//@   suffix [C06.srcwriter.indent.wf#spaces] proof { assert(self.indent_str@ =~= spaces(self.indent as nat)); }
//@   fn dedent
//@   requires [C06.srcwriter.dedent.pre_wf] old(self).wf()
//@   ensures [C06.srcwriter.dedent.wf] final(self).wf() && final(self).indent == (if old(self).indent >= 2 { old(self).indent - 2 } else { 0 })
//@   ensures [C06.srcwriter.dedent.frame] final(self).buffer == old(self).buffer && final(self).has_indent_flag == old(self).has_indent_flag && final(self).mapping == old(self).mapping && final(self).name_mapper == old(self).name_mapper && final(self).file_index_mapper == old(self).file_index_mapper
//@   prefix proof { reveal_strlit(" "); }
//@   suffix [C06.srcwriter.dedent.wf#spaces] proof { assert(self.indent_str@ =~= spaces(self.indent as nat)); }
//@   fn write
//@   requires [C06.srcwriter.write.pre_wf] old(self).wf()
//@   ensures [C06.srcwriter.write.wf] final(self).wf()
//@   ensures [C06.srcwriter.write.text] final(self).buffer@ == old(self).buffer@ + indented(chunk@, old(self).indent as nat, old(self).has_indent_flag)
//@   ensures [C06.srcwriter.write.pending] final(self).has_indent_flag == pending_after(chunk@, old(self).has_indent_flag)
//@   ensures [C06.srcwriter.write.line_monotone] final(self).current_line >= old(self).current_line
//@   ensures [C06.srcwriter.write.frame] final(self).indent == old(self).indent && final(self).indent_str == old(self).indent_str && final(self).mapping == old(self).mapping && final(self).name_mapper == old(self).name_mapper && final(self).file_index_mapper == old(self).file_index_mapper
//@   loops 1
//@   loop 0 for_continue
//@   loop 0 iter_name it
//@   loop 0 invariant [C06.srcwriter.write.inv.pieces] crate::join_sep(crate::str_views(it.seq()), '\n') == chunk@ && (forall|i: int| 0 <= i < it.seq().len() ==> !(#[trigger] it.seq()[i])@.contains('\n')) && 0 <= it.index@ <= it.seq().len() && it.seq().len() >= 1 && it.seq().len() <= usize::MAX && idx__vx == it.index@
//@   loop 0 invariant [C06.srcwriter.write.inv.text] self.wf() && self.buffer@ == old(self).buffer@ + indented(crate::joined_upto(crate::str_views(it.seq()), '\n', it.index@ as int), old(self).indent as nat, old(self).has_indent_flag) && self.has_indent_flag == pending_after(crate::joined_upto(crate::str_views(it.seq()), '\n', it.index@ as int), old(self).has_indent_flag)
//@   loop 0 invariant [C06.srcwriter.write.inv.frame] self.current_line >= old(self).current_line && self.indent == old(self).indent && self.indent_str == old(self).indent_str && self.mapping == old(self).mapping && self.name_mapper == old(self).name_mapper && self.file_index_mapper == old(self).file_index_mapper
//@   loop 0 body_invariant [C06.srcwriter.write.body.pre] crate::join_sep(crate::str_views(it.seq()), '\n') == chunk@ && (forall|i: int| 0 <= i < it.seq().len() ==> !(#[trigger] it.seq()[i])@.contains('\n')) && 0 <= it.index@ < it.seq().len() && it.seq().len() <= usize::MAX && idx__vx == it.index@ && line == it.seq()[it.index@ as int] && self.wf() && self.buffer@ == old(self).buffer@ + indented(crate::joined_upto(crate::str_views(it.seq()), '\n', it.index@ as int), old(self).indent as nat, old(self).has_indent_flag) && self.has_indent_flag == pending_after(crate::joined_upto(crate::str_views(it.seq()), '\n', it.index@ as int), old(self).has_indent_flag) && self.current_line >= old(self).current_line && self.indent == old(self).indent && self.indent_str == old(self).indent_str && self.mapping == old(self).mapping && self.name_mapper == old(self).name_mapper && self.file_index_mapper == old(self).file_index_mapper
//@   loop 0 body_ensures [C06.srcwriter.write.body.step] idx__vx == it.index@ + 1 && self.wf() && self.buffer@ == old(self).buffer@ + indented(crate::joined_upto(crate::str_views(it.seq()), '\n', it.index@ as int + 1), old(self).indent as nat, old(self).has_indent_flag) && self.has_indent_flag == pending_after(crate::joined_upto(crate::str_views(it.seq()), '\n', it.index@ as int + 1), old(self).has_indent_flag) && self.current_line >= old(self).current_line && self.indent == old(self).indent && self.indent_str == old(self).indent_str && self.mapping == old(self).mapping && self.name_mapper == old(self).name_mapper && self.file_index_mapper == old(self).file_index_mapper
//@   loop 0 body_prefix let ghost k = it.index@ as int; let ghost p = crate::str_views(it.seq()); let ghost b0 = self.buffer@; let ghost pend0 = old(self).has_indent_flag; let ghost ind = old(self).indent as nat; proof { assert(p[k] == line@); crate::lemma_write_step(p, k, ind, pend0); crate::lemma_geom_push(b0, '\n'); crate::axiom_text_limit(b0.push('\n')); crate::lemma_geom_bounds(b0.push('\n')); assert(b0.push('\n') =~= b0 + seq!['\n']); }
//@   hint before 0 "self.flush_pending_indent();" :: [C06.srcwriter.write.body.step#mid] let ghost b1 = self.buffer@; proof { assert(b1 == if k > 0 { b0 + seq!['\n'] } else { b0 }); assert(self.has_indent_flag == (if k > 0 { true } else { pending_after(crate::joined_upto(p, '\n', k), pend0) })); }
//@   hint after 0 "self.buffer.push_str(line);" :: [C06.srcwriter.write.body.step#line] proof { let b2 = b1 + (if (if k > 0 { true } else { pending_after(crate::joined_upto(p, '\n', k), pend0) }) { spaces(ind) } else { Seq::<char>::empty() }); assert(b2 + Seq::<char>::empty() =~= b2); crate::lemma_geom_line(b2, line@); crate::axiom_text_limit(b2 + line@); crate::lemma_geom_bounds(b2 + line@); assert(self.buffer@ =~= old(self).buffer@ + indented(crate::joined_upto(p, '\n', k + 1), ind, pend0)); }
//@   suffix [C06.srcwriter.write.text#end] proof { }
//@ end

pub open spec fn dec_after(d: Dec, s: Seg) -> Dec { dec_apply(d, (s.line - d.line) as nat, fields_for(d, s)).0 }
/// the two segments of a mapped, named chunk: opening (at `start`, with the name) and closing (at the end of the chunk's
/// text, original column just past the name)
pub open spec fn named_entries(d: Dec, first: bool, start: Seq<char>, end: Seq<char>, src: int, ol: int, oc: int, name_len: int, idx: int) -> Seq<char> {
    let s1 = Seg { line: newlines(start) as int, col: last_col(start) as int, src, ol, oc, name: Some(idx) };
    let s2 = Seg { line: newlines(end) as int, col: last_col(end) as int, src, ol, oc: oc + name_len, name: None };
    enc_entry(d, first, s1) + enc_entry(dec_after(d, s1), false, s2)
}
pub open spec fn file_index_of(m: Option<Vec<usize>>, f: usize) -> int { match m { Some(v) => v@[f as int] as int, None => f as int } }
impl SourceWriter {
    /// the mapping / names side of the writer is consistent with the text side
    pub open spec fn wf_map(&self) -> bool {
        &&& self.mapping.wf() && self.name_mapper.wf()
        &&& self.mapping.last_generated_line <= self.current_line
    }
    /// the segment that opens a mapped chunk: generated position = where the next character is written
    pub open spec fn seg_here(&self, src: int, ol: int, oc: int, name: Option<int>) -> Seg {
        Seg { line: newlines(self.buffer@) as int, col: last_col(self.buffer@) as int, src, ol, oc, name }
    }
}
//@ lemma [C06.srcwriter.entry_nonempty] lemma_entry_nonempty
pub proof fn lemma_entry_nonempty(d: Dec, first: bool, s: Seg)
    ensures enc_entry(d, first, s).len() > 0
{
    let f = fields_for(d, s);
    assert(f.len() >= 4);
    assert(enc_fields(f).len() >= v(f[0]).len());
    assert(vlq_digits(f[0]).len() >= 1);
}

//@ extract crates/sourcemap-writer/src/source_writer.rs :: impl SourceMapWriter for SourceWriter
//@   rewrite T19 1 "impl SourceMapWriter for SourceWriter" => "impl SourceWriter /* vx:T19 trait impl -> inherent impl */"
//@   only write_for
//@   fn write_for
//@   requires [C06.srcwriter.write_for.pre_wf] old(self).wf() && old(self).wf_map()
//@   requires [C06.srcwriter.write_for.pre_file_index] !node.vpos().builtin ==> (old(self).file_index_mapper matches Some(m) ==> node.vpos().file < m@.len()) && crate::file_index_of(old(self).file_index_mapper, node.vpos().file) <= isize::MAX
//@   requires [C06.srcwriter.write_for.pre_pos_range] !node.vpos().builtin ==> node.vpos().line <= isize::MAX && node.vpos().column + (match node.vname() { Some(n) => utf16(n), None => 0 }) <= isize::MAX
//@   requires [C06.srcwriter.write_for.pre_not_first_on_line0] !node.vpos().builtin ==> old(self).current_line > old(self).mapping.last_generated_line || old(self).mapping.out().len() > 0
//@   ensures [C06.srcwriter.write_for.wf] final(self).wf() && final(self).wf_map()
//@   ensures [C06.srcwriter.write_for.text] final(self).buffer@ == old(self).buffer@ + (if !node.vpos().builtin && node.vname() is Some { (if old(self).has_indent_flag { spaces(old(self).indent as nat) } else { Seq::<char>::empty() }) + indented(chunk@, old(self).indent as nat, false) } else { indented(chunk@, old(self).indent as nat, old(self).has_indent_flag) })
//@   ensures [C06.srcwriter.write_for.builtin_unmapped] node.vpos().builtin ==> final(self).mapping == old(self).mapping && final(self).name_mapper == old(self).name_mapper
//@   ensures [C06.srcwriter.write_for.names_grow] crate::is_prefix(old(self).name_mapper.names(), final(self).name_mapper.names())
//@   ensures [C06.srcwriter.write_for.unnamed_segment] !node.vpos().builtin && node.vname() is None ==> final(self).name_mapper == old(self).name_mapper && final(self).mapping.out() == old(self).mapping.out() + enc_entry(old(self).mapping.dec(), old(self).mapping.out().len() == 0, old(self).seg_here(crate::file_index_of(old(self).file_index_mapper, node.vpos().file), node.vpos().line as int, node.vpos().column as int, None))
//@   ensures [C06.srcwriter.write_for.named_segments] !node.vpos().builtin && node.vname() is Some ==> exists|idx: int| 0 <= idx < final(self).name_mapper.names().len() && #[trigger] final(self).name_mapper.names()[idx] == node.vname()->Some_0 && final(self).mapping.out() == old(self).mapping.out() + crate::named_entries(old(self).mapping.dec(), old(self).mapping.out().len() == 0, old(self).buffer@ + (if old(self).has_indent_flag { spaces(old(self).indent as nat) } else { Seq::<char>::empty() }), final(self).buffer@, crate::file_index_of(old(self).file_index_mapper, node.vpos().file), node.vpos().line as int, node.vpos().column as int, utf16(node.vname()->Some_0) as int, idx)
//@   ensures [C06.srcwriter.write_for.line_monotone] final(self).current_line >= old(self).current_line
//@   ensures [C06.srcwriter.write_for.frame] final(self).indent == old(self).indent && final(self).indent_str == old(self).indent_str && final(self).file_index_mapper == old(self).file_index_mapper
//@   hint before 0 "self.mapping.add_entry(" :: [C06.srcwriter.write_for.named_segments#open] let ghost d0 = self.mapping.dec(); let ghost first0 = self.mapping.out().len() == 0; let ghost start = self.buffer@; proof { crate::axiom_text_limit(self.buffer@); crate::lemma_geom_bounds(self.buffer@); crate::axiom_names_limit(&self.name_mapper.all_list); }
//@   hint before 1 "self.mapping.add_entry(" :: [C06.srcwriter.write_for.named_segments#close] proof { crate::axiom_text_limit(self.buffer@); crate::lemma_geom_bounds(self.buffer@); crate::lemma_entry_nonempty(d0, first0, Seg { line: newlines(start) as int, col: last_col(start) as int, src: file_index as int, ol: original_pos.line as int, oc: original_pos.column as int, name: Some(original_name_idx as int) }); }
//@   hint before 2 "self.mapping.add_entry(" :: [C06.srcwriter.write_for.unnamed_segment#open] proof { crate::axiom_text_limit(self.buffer@); crate::lemma_geom_bounds(self.buffer@); }
//@   hint before 0 "} else {" :: [C06.srcwriter.write_for.named_segments#both] proof { let idx = original_name_idx as int; assert(self.name_mapper.names()[idx] == node.vname()->Some_0); assert(self.mapping.out() =~= old(self).mapping.out() + crate::named_entries(d0, first0, start, self.buffer@, file_index as int, original_pos.line as int, original_pos.column as int, utf16(original_name@) as int, idx)); }
//@   closure 0 |map: &Vec<usize>| -> (r: usize) ;; requires [C08.srcwriter.write_for.index_in_range] original_pos.file < map@.len() ;; ensures [C06.srcwriter.write_for.file_index] r == map@[original_pos.file as int]
//@ end

// reachability of the preconditions above (vacuity guard): a fresh writer can be written to, indented, and can map a chunk
fn vx_vacuity_srcwriter<N: HasPos>(node: &N, named: &N)
    requires node.vpos().builtin,
        !named.vpos().builtin && named.vpos().line == 3 && named.vpos().column == 4 && named.vpos().file == 0 && named.vname() == Some(seq!['a', 'b']),
{
    let mut w = SourceWriter::new();
    w.write("\n");
    proof { reveal_strlit("\n"); crate::lemma_indented_nl(0, false); assert("\n"@ =~= seq!['\n']); crate::lemma_geom_push(Seq::<char>::empty(), '\n'); assert(Seq::<char>::empty().push('\n') =~= seq!['\n']); assert(Seq::<char>::empty() + seq!['\n'] =~= seq!['\n']); assert(w.current_line == 1); }
    w.indent();
    w.write_for("a", node);
    w.dedent();
    proof { reveal_with_fuel(utf16, 3); assert(seq!['a', 'b'].drop_last() =~= seq!['a']); assert(seq!['a'].drop_last() =~= Seq::<char>::empty()); }
    w.write_for("b", named);
}

//@ canary
} // verus!
fn main() {}
