//@ unit tsdoc primary=C05 props=C05,C08
// Unit tsdoc: crates/checker/src/type_system_checker/mod.rs::check_type_system_document  (the schema `check` verdict)
//  C05: the returned diagnostic list is empty  <=>  EVERY definition of the document satisfies the rules of ITS kind
//  (each definition is dispatched to the checker of its own kind, none is skipped, nothing else adds a diagnostic).
#![feature(pattern, allocator_api)]
#![allow(unused)]
use vstd::prelude::*;
use vstd::std_specs::cmp::PartialEqSpec;
verus! {
//@ fragment checker_base.rs
//@ include strmodel.rs
//@ fragment schema_view.rs
//@ fragment seenlist.rs
//@ fragment checker_spec.rs
//@ fragment spec_inout.rs
//@ fragment spec_typesystem.rs
//@ fragment assumed_ts_checks.rs

/// the lookup tables built from the document (generate_definition_map: HashMap inserts + ast_to_type_system, not under contract)
pub uninterp spec fn defmap_of<'a>(doc: &TypeSystemDocument<'a>) -> DefinitionMap<'a>;
//@ contract nitrogql_semantics::definition_map ::fn generate_definition_map
//@   attr #[verifier::external_body]
//@   ret r
//@   ensures [assumed.defmap.functional] r == crate::defmap_of(document)
//@ end

//@ contract nitrogql_checker::type_system_checker ::fn check_type_system_document
//@   unexternal
//@   ret r
//@   requires [C05.tsdoc.pre_schema_wf] crate::schema_wf(&crate::defmap_of(document).type_system)
//@   ensures [C05.tsdoc.sound] r@.len() == 0 ==> crate::tsdoc_ok_upto(document, &crate::defmap_of(document), document.definitions@.len() as int)
//@   ensures [C05.tsdoc.complete] crate::tsdoc_ok_upto(document, &crate::defmap_of(document), document.definitions@.len() as int) ==> r@.len() == 0
//@   loops 1
//@   loop 0 iter_name it
//@   loop 0 invariant [C05.tsdoc.loop.iter] it.seq().len() == document.definitions@.len() && 0 <= it.index@ <= it.seq().len() && (forall|i: int| 0 <= i < it.seq().len() ==> *it.seq()[i] == document.definitions@[i])
//@   loop 0 invariant [C05.tsdoc.loop.exact] crate::schema_wf(&crate::defmap_of(document).type_system) && definition_map == crate::defmap_of(document) && ((result@.len() == 0) <==> crate::tsdoc_ok_upto(document, &definition_map, it.index@ as int))
//@   loop 0 prefix let ghost len0 = result@.len(); proof { assert(*def == document.definitions@[it.index@ as int]); }
//@   loop 0 suffix [C05.tsdoc.loop.exact#step] proof { let n = it.index@ as int; if len0 == 0 { assert((result@.len() == 0) <==> crate::tsdef_valid(document.definitions@[n], &definition_map)); } }
//@ end

//@ canary
} // verus!
fn main() {}
