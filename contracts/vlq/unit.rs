//@ unit vlq primary=C06 props=C06,C08
// Unit vlq: crates/sourcemap-writer/src/base64_vlq/mod.rs  (Source Map v3 base64 VLQ)
// Oracle: the Source Map v3 definition of a VLQ segment field: little-endian base-32 digits,
// bit 5 of each 6-bit digit = continuation, least significant bit of the value = sign.
#![allow(unused)]
use vstd::prelude::*;
verus! {

global size_of usize == 8;

//@ include stdlib_vlq.rs

//@ extract crates/sourcemap-writer/src/base64_vlq/mod.rs :: const BASE64_CHARS
//@   pub
//@ end

//@ include spec_vlq.rs

// ---- decoder side (what a Source Map consumer does)
pub open spec fn raw_value(d: Seq<nat>) -> nat
    decreases d.len()
{
    if d.len() == 0 { 0 } else { (d[0] % 32) + 32 * raw_value(d.drop_first()) }
}

/// a digit string is one complete VLQ number iff exactly its last digit has no continuation bit
pub open spec fn one_number(d: Seq<nat>) -> bool {
    d.len() > 0 && forall|i: int| 0 <= i < d.len() ==> (#[trigger] d[i]) < 64 && (d[i] >= 32 <==> i < d.len() - 1)
}

pub open spec fn vlq_decode_digits(d: Seq<nat>) -> int {
    let raw = raw_value(d);
    if raw % 2 == 1 { -((raw / 2) as int) } else { (raw / 2) as int }
}

/// the base64 alphabet is injective, so characters determine digits
pub open spec fn char_digit(c: char) -> nat {
    choose|d: nat| d < 64 && BASE64_CHARS@[d as int] == c
}

//@ lemma [C06.vlq.alphabet_injective] lemma_alphabet_injective
pub proof fn lemma_alphabet_injective()
    ensures
        forall|i: int, j: int| 0 <= i < 64 && 0 <= j < 64 && i != j ==> BASE64_CHARS@[i] != BASE64_CHARS@[j],
        forall|d: nat| d < 64 ==> char_digit(#[trigger] BASE64_CHARS@[d as int]) == d,
{
    assert(BASE64_CHARS@ =~= seq![
    'A', 'B', 'C', 'D', 'E', 'F', 'G', 'H', 'I', 'J', 'K', 'L', 'M', 'N', 'O', 'P', 'Q', 'R', 'S',
    'T', 'U', 'V', 'W', 'X', 'Y', 'Z', 'a', 'b', 'c', 'd', 'e', 'f', 'g', 'h', 'i', 'j', 'k', 'l',
    'm', 'n', 'o', 'p', 'q', 'r', 's', 't', 'u', 'v', 'w', 'x', 'y', 'z', '0', '1', '2', '3', '4',
    '5', '6', '7', '8', '9', '+', '/']);
    assert forall|i: int, j: int| 0 <= i < 64 && 0 <= j < 64 && i != j implies BASE64_CHARS@[i] != BASE64_CHARS@[j] by {
        // A-Z = 65..90, a-z = 97..122, 0-9 = 48..57, '+' = 43, '/' = 47 : strictly separated ranges
        assert(forall|k: int| 0 <= k < 26 ==> BASE64_CHARS@[k] as int == 65 + k);
        assert(forall|k: int| 26 <= k < 52 ==> BASE64_CHARS@[k] as int == 97 + (k - 26));
        assert(forall|k: int| 52 <= k < 62 ==> BASE64_CHARS@[k] as int == 48 + (k - 52));
        assert(BASE64_CHARS@[62] as int == 43);
        assert(BASE64_CHARS@[63] as int == 47);
    }
    assert forall|d: nat| d < 64 implies char_digit(#[trigger] BASE64_CHARS@[d as int]) == d by {
        let c = BASE64_CHARS@[d as int];
        let e = char_digit(c);
        assert(d < 64 && BASE64_CHARS@[d as int] == c);
    }
}

proof fn lemma_cont_digits(v: nat)
    ensures
        raw_value(cont_digits(v)) == v,
        forall|i: int| 0 <= i < cont_digits(v).len() ==> (#[trigger] cont_digits(v)[i]) < 64
            && (cont_digits(v)[i] >= 32 <==> i < cont_digits(v).len() - 1),
        v > 0 ==> cont_digits(v).len() > 0,
    decreases v
{
    if v > 0 {
        let rest = v / 32;
        lemma_cont_digits(rest);
        let d = (v % 32) + if rest > 0 { 32nat } else { 0nat };
        let s = seq![d] + cont_digits(rest);
        assert(s.drop_first() =~= cont_digits(rest));
        assert(s[0] == d);
        assert forall|i: int| 0 <= i < s.len() implies (#[trigger] s[i]) < 64 && (s[i] >= 32 <==> i < s.len() - 1) by {
            if i > 0 { assert(s[i] == cont_digits(rest)[i - 1]); }
        }
    }
}

/// C06 round trip for EVERY integer (the property samples [-2^22, 2^22] and the isize boundaries)
//@ lemma [C06.vlq.roundtrip] lemma_vlq_roundtrip
pub proof fn lemma_vlq_roundtrip(n: int)
    ensures
        one_number(vlq_digits(n)),
        vlq_decode_digits(vlq_digits(n)) == n,
{
    let sign: nat = if n < 0 { 1 } else { 0 };
    let mag: nat = if n < 0 { (-n) as nat } else { n as nat };
    if mag < 16 {
        let s = seq![sign + 2 * mag];
        assert(s.drop_first() =~= Seq::<nat>::empty());
        assert(raw_value(s.drop_first()) == 0);
        assert(raw_value(s) == sign + 2 * mag);
    } else {
        let first = (sign + 2 * (mag % 16) + 32) as nat;
        let s = seq![first] + cont_digits(mag / 16);
        lemma_cont_digits(mag / 16);
        assert(s.drop_first() =~= cont_digits(mag / 16));
        assert(s[0] == first);
        assert(raw_value(s) == (first % 32) + 32 * (mag / 16));
        assert(first % 32 == sign + 2 * (mag % 16));
        assert forall|i: int| 0 <= i < s.len() implies (#[trigger] s[i]) < 64 && (s[i] >= 32 <==> i < s.len() - 1) by {
            if i > 0 { assert(s[i] == cont_digits(mag / 16)[i - 1]); }
        }
    }
}

/// characters determine the digits: decoding the emitted text gives back n
//@ lemma [C06.vlq.roundtrip_chars] lemma_vlq_roundtrip_chars
pub proof fn lemma_vlq_roundtrip_chars(n: int)
    ensures
        chars_of(vlq_digits(n)).map_values(|c: char| char_digit(c)) == vlq_digits(n),
{
    lemma_vlq_roundtrip(n);
    lemma_alphabet_injective();
    let d = vlq_digits(n);
    assert forall|i: int| 0 <= i < d.len() implies char_digit(chars_of(d)[i]) == d[i] by {
        assert(d[i] < 64);
        assert(chars_of(d)[i] == BASE64_CHARS@[d[i] as int]);
    }
    assert(chars_of(d).map_values(|c: char| char_digit(c)) =~= d);
}

// ---------------------------------------------------------------- proof plumbing
broadcast proof fn lemma_chars_of_push(d: Seq<nat>, x: nat)
    requires x < 64
    ensures #[trigger] chars_of(d.push(x)) == chars_of(d).push(BASE64_CHARS@[x as int])
{
    assert(chars_of(d.push(x)) =~= chars_of(d).push(BASE64_CHARS@[x as int]));
}
broadcast proof fn lemma_chars_of_one(x: nat)
    requires x < 64
    ensures #[trigger] chars_of(seq![x]) == seq![BASE64_CHARS@[x as int]]
{
    assert(chars_of(seq![x]) =~= seq![BASE64_CHARS@[x as int]]);
}
broadcast proof fn lemma_and31(v: usize) ensures #[trigger] (v & 0b11111) == v % 32 { assert(v & 0b11111 == v % 32) by (bit_vector); }
broadcast proof fn lemma_shr5(v: usize) ensures #[trigger] (v >> 5) == v / 32 { assert(v >> 5 == v / 32) by (bit_vector); }
broadcast proof fn lemma_shr4(v: usize) ensures #[trigger] (v >> 4) == v / 16 { assert(v >> 4 == v / 16) by (bit_vector); }
broadcast proof fn lemma_and15(v: usize) ensures #[trigger] (v & 0b1111) == v % 16 { assert(v & 0b1111 == v % 16) by (bit_vector); }
broadcast proof fn lemma_or_small(s: usize, v: usize)
    requires s <= 1, v < 16
    ensures #[trigger] (s | (v << 1)) == s + 2 * v
{
    assert(s <= 1 && v < 16 ==> (s | (v << 1)) == s + 2 * v) by (bit_vector);
}
broadcast proof fn lemma_or_first(s: usize, v: usize)
    requires s <= 1, v < 16
    ensures #[trigger] (s | (v << 1) | 0b100000) == s + 2 * v + 32
{
    assert(s <= 1 && v < 16 ==> (s | (v << 1) | 0b100000) == s + 2 * v + 32) by (bit_vector);
}
broadcast proof fn lemma_or_cont(c: usize, v: usize)
    requires c == 0 || c == 32, v < 32
    ensures #[trigger] (c | v) == c + v
{
    assert((c == 0 || c == 32) && v < 32 ==> (c | v) == c + v) by (bit_vector);
}
broadcast proof fn lemma_chars_of_cons(x: nat, rest: Seq<nat>)
    requires x < 64
    ensures #[trigger] chars_of(seq![x] + rest) == seq![BASE64_CHARS@[x as int]] + chars_of(rest)
{
    assert(chars_of(seq![x] + rest) =~= seq![BASE64_CHARS@[x as int]] + chars_of(rest));
}
broadcast proof fn lemma_push_concat(a: Seq<char>, c: char, b: Seq<char>)
    ensures #[trigger] (a.push(c) + b) == a + (seq![c] + b)
{
    assert((a.push(c) + b) =~= a + (seq![c] + b));
}
broadcast proof fn lemma_chars_of_empty()
    ensures #[trigger] chars_of(Seq::<nat>::empty()) == Seq::<char>::empty()
{
    assert(chars_of(Seq::<nat>::empty()) =~= Seq::<char>::empty());
}
broadcast group g { lemma_chars_of_cons, lemma_push_concat, lemma_chars_of_empty, lemma_chars_of_push, lemma_chars_of_one, lemma_and31, lemma_shr5, lemma_shr4, lemma_and15, lemma_or_small, lemma_or_first, lemma_or_cont }

// ---------------------------------------------------------------- the real function, under contract
//@ extract crates/sourcemap-writer/src/base64_vlq/mod.rs :: fn base64_vlq
//@   ret result
//@   ensures [C06.vlq.digits] result@ == chars_of(vlq_digits(input as int))
//@   prefix broadcast use g;
//@   loops 1
//@   loop 0 invariant [C06.vlq.loop_inv] result@ + chars_of(cont_digits(value as nat)) == chars_of(vlq_digits(input as int))
//@   loop 0 decreases [C06.vlq.loop_dec] value
//@   loop 0 prefix broadcast use g;
//@ end

// vacuity guard: the contract has no precondition; a concrete call must be accepted
fn vx_vacuity_vlq() {
    let a = base64_vlq(-17);
    let b = base64_vlq(isize::MIN);
}

// ---------------------------------------------------------------- exec oracle for replay (proved equal to the spec)
pub fn vlq_oracle(n: isize) -> (r: Vec<char>)
    ensures r@ == chars_of(vlq_digits(n as int))
{
    broadcast use g;
    let sign: u128 = if n < 0 { 1 } else { 0 };
    let mag: u128 = if n < 0 { (-(n as i128)) as u128 } else { n as u128 };
    let mut r: Vec<char> = Vec::new();
    if mag < 16 {
        r.push(BASE64_CHARS[(sign + 2 * mag) as usize]);
        assert(r@ =~= seq![BASE64_CHARS@[(sign + 2 * mag) as int]]);
        return r;
    }
    r.push(BASE64_CHARS[(sign + 2 * (mag % 16) + 32) as usize]);
    assert(r@ =~= seq![BASE64_CHARS@[(sign + 2 * (mag % 16) + 32) as int]]);
    let mut v: u128 = mag / 16;
    while v > 0
        invariant r@ + chars_of(cont_digits(v as nat)) == chars_of(vlq_digits(n as int)),
        decreases v
    {
        broadcast use g;
        let rest = v / 32;
        let d = (v % 32) + if rest > 0 { 32 } else { 0 };
        r.push(BASE64_CHARS[d as usize]);
        v = rest;
    }
    r
}

//@ canary

} // verus!

//@ replay
// Replay driver (plain Rust, compiled only with `verus --compile`): runs the REAL extracted base64_vlq
// against the verified oracle.  argv: <clause-id> <seed> [<input>]
fn main() {
    let args: Vec<String> = std::env::args().collect();
    if args.len() < 3 { return; }
    let seed: u64 = args[2].parse().unwrap_or(0);
    let check = |n: isize| -> Option<String> {
        let got = std::panic::catch_unwind(|| base64_vlq(n));
        let exp: String = vlq_oracle(n).into_iter().collect();
        match got {
            Ok(s) if s == exp => None,
            Ok(s) => Some(format!("{{\"found\":true,\"input\":\"{}\",\"observed\":\"{}\",\"expected\":\"{}\"}}", n, s, exp)),
            Err(_) => Some(format!("{{\"found\":true,\"input\":\"{}\",\"observed\":\"panic\",\"expected\":\"{}\"}}", n, exp)),
        }
    };
    std::panic::set_hook(Box::new(|_| {}));
    if args.len() > 3 {
        let n: isize = args[3].parse().unwrap();
        match check(n) { Some(l) => println!("{}", l), None => println!("{{\"found\":false,\"input\":\"{}\"}}", n) }
        return;
    }
    let mut cands: Vec<isize> = (-70000..=70000).collect();
    for k in 0..63 { let p = 1isize << k; cands.extend([p - 1, p, p + 1, -p - 1, -p, -p + 1]); }
    cands.extend([isize::MAX, isize::MIN, isize::MIN + 1, isize::MAX - 1]);
    let mut x = seed.wrapping_mul(6364136223846793005).wrapping_add(1442695040888963407);
    for _ in 0..200000 { x ^= x << 13; x ^= x >> 7; x ^= x << 17; cands.push((x as isize) >> (x % 60)); }
    for n in cands { if let Some(l) = check(n) { println!("{}", l); return; } }
    println!("{{\"found\":false,\"searched\":\"[-70000,70000], +-2^k+-1, isize bounds, 200000 random\"}}");
}
