//@ unit args primary=C03 props=C03,C04,C05,C08
// Unit args: crates/checker/src/common.rs::check_arguments  (arguments of fields and directives)
// Oracle: GraphQL spec 5.4 Arguments (fragment spec_args.rs: args_valid):
//   5.4.1 Argument Names (every supplied argument is defined), 5.4.2.1 Required Arguments (a non-null argument without
//   default is supplied), 5.6.1 each supplied value is valid for the declared type (callee check_value, by contract).
//  C03/C05 (sound): no diagnostic ==> args_valid;   C04/C05 (complete): args_valid ==> no diagnostic.
// Precondition (the schema passed `check`, property C03's hypothesis): argument definition names are unique.
#![feature(pattern, allocator_api)]
#![allow(unused)]
use vstd::prelude::*;
use vstd::std_specs::cmp::PartialEqSpec;
verus! {
//@ fragment checker_base.rs
//@ include strmodel.rs
//@ fragment typesys_contracts.rs
//@ fragment schema_view.rs
//@ fragment seenlist.rs
//@ fragment checker_spec.rs


//@ contract graphql_type_system::r#type ::fn is_nonnull
//@   ret r
//@   ensures [C03+C04.args.is_nonnull] r == (self is NonNull)
//@ end
//@ fragment contract_check_value.rs
//@   attr #[verifier::external_body]
//@ end

/// ghost bookkeeping for the `seen_args` counter: the set of supplied-argument indices bound to the definitions seen so far
pub open spec fn used_ok<S>(used: Set<int>, sup: Seq<(Ident, Value)>, defs: Seq<InputValue<S, Pos>>, n: int) -> bool {
    &&& used.finite()
    &&& forall|x: int| used.contains(x) ==> 0 <= x < sup.len() && exists|j: int| 0 <= j < n && tv((#[trigger] defs[j]).name.inner) == sup[x].0.name@
}
pub proof fn lemma_used_insert<S>(used: Set<int>, sup: Seq<(Ident, Value)>, defs: Seq<InputValue<S, Pos>>, n: int, x: int)
    requires used_ok(used, sup, defs, n), 0 <= n < defs.len(), nodup(argdef_names(defs)), 0 <= x < sup.len(), sup[x].0.name@ == tv(defs[n].name.inner),
    ensures used_ok(used.insert(x), sup, defs, n + 1), !used.contains(x), used.insert(x).len() == used.len() + 1,
{
    if used.contains(x) {
        let j = choose|j: int| 0 <= j < n && tv((#[trigger] defs[j]).name.inner) == sup[x].0.name@;
        assert(argdef_names(defs)[j] == argdef_names(defs)[n]);
    }
    let u2 = used.insert(x);
    assert forall|y: int| u2.contains(y) implies 0 <= y < sup.len() && exists|j: int| 0 <= j < n + 1 && tv((#[trigger] defs[j]).name.inner) == sup[y].0.name@ by {
        if y == x { assert(tv(defs[n].name.inner) == sup[y].0.name@); }
        else {
            let j = choose|j: int| 0 <= j < n && tv((#[trigger] defs[j]).name.inner) == sup[y].0.name@;
            assert(tv(defs[j].name.inner) == sup[y].0.name@);
        }
    }
}
pub proof fn lemma_used_skip<S>(used: Set<int>, sup: Seq<(Ident, Value)>, defs: Seq<InputValue<S, Pos>>, n: int)
    requires used_ok(used, sup, defs, n), 0 <= n < defs.len(),
    ensures used_ok(used, sup, defs, n + 1),
{
    assert forall|y: int| used.contains(y) implies 0 <= y < sup.len() && exists|j: int| 0 <= j < n + 1 && tv((#[trigger] defs[j]).name.inner) == sup[y].0.name@ by {
        let j = choose|j: int| 0 <= j < n && tv((#[trigger] defs[j]).name.inner) == sup[y].0.name@;
        assert(tv(defs[j].name.inner) == sup[y].0.name@);
    }
}
/// the counting argument behind `if seen_args < arguments.len()`: when as many bound arguments as supplied ones have
/// been counted, every supplied argument is bound to (hence named like) some definition
pub proof fn lemma_all_used<S>(used: Set<int>, sup: Seq<(Ident, Value)>, defs: Seq<InputValue<S, Pos>>)
    requires used_ok(used, sup, defs, defs.len() as int), used.len() >= sup.len(),
    ensures supplied_defined_upto(sup, defs, sup.len() as int),
{
    let full = vstd::set_lib::set_int_range(0, sup.len() as int);
    vstd::set_lib::lemma_int_range(0, sup.len() as int);
    assert(used.subset_of(full));
    vstd::set_lib::lemma_len_subset(used, full);
    vstd::set_lib::lemma_subset_equality(used, full);
    assert forall|i: int| 0 <= i < sup.len() implies argdef_names(defs).contains((#[trigger] sup[i]).0.name@) by {
        assert(full.contains(i));
        assert(used.contains(i));
        let j = choose|j: int| 0 <= j < defs.len() && tv((#[trigger] defs[j]).name.inner) == sup[i].0.name@;
        assert(argdef_names(defs)[j] == sup[i].0.name@);
    }
}
pub proof fn lemma_satisfied_step<'src, S>(sch: &Schema<S, Pos>, vars: Option<&VariablesDefinition<'src>>, sup: Seq<(Ident<'src>, Value<'src>)>, defs: Seq<InputValue<S, Pos>>, n: int)
    requires 0 <= n < defs.len(),
    ensures argdefs_satisfied_upto(sch, vars, sup, defs, n + 1) == (argdefs_satisfied_upto(sch, vars, sup, defs, n) && argdef_satisfied(sch, vars, sup, defs[n])),
{
    if argdefs_satisfied_upto(sch, vars, sup, defs, n + 1) { assert(argdef_satisfied(sch, vars, sup, defs[n])); }
}
pub proof fn lemma_defined_step<'src, S>(sup: Seq<(Ident<'src>, Value<'src>)>, defs: Seq<InputValue<S, Pos>>, m: int)
    requires 0 <= m < sup.len(),
    ensures supplied_defined_upto(sup, defs, m + 1) == (supplied_defined_upto(sup, defs, m) && argdef_names(defs).contains(sup[m].0.name@)),
{
    if supplied_defined_upto(sup, defs, m + 1) { assert(argdef_names(defs).contains(sup[m].0.name@)); }
}

pub open spec fn args_view<'a, 'src>(v: Seq<&'a (Ident<'src>, Value<'src>)>, sup: Seq<(Ident<'src>, Value<'src>)>) -> bool {
    v.len() == sup.len() && forall|i: int| 0 <= i < v.len() ==> *(#[trigger] v[i]) == sup[i]
}

//@ fragment contract_check_arguments.rs
//@   unexternal
//@   prefix broadcast use crate::text_model; let ghost args0 = arguments; let ghost sup = crate::supplied(arguments); let ghost defs = arguments_definition@; let ghost len0 = result@.len(); proof { crate::axiom_text_obeys::<S>(); crate::axiom_text_obeys_str::<S>(); reveal(crate::args_valid); }
//@   loops 3
//@   closure 1 |p__: &&&(crate::nitrogql_ast::base::Ident<'src>, crate::nitrogql_ast::value::Value<'src>)| -> (b: bool) ;; ensures [C03+C04.args.cl_find] b == (crate::tv(arg_def.name.inner) == (***p__).0.name@)
//@   closure 2 |arg_def: &crate::graphql_type_system::definitions::InputValue<S, Pos>| -> (b: bool) ;; ensures [C03+C04.args.cl_all] b == (crate::tv(arg_def.name.inner) != arg_name.name@)
//@   hint before 0 "let mut seen_args = 0;" :: [C03+C04.args.h_used_init] let ghost mut bound: Set<int> = Set::empty(); proof { assert(crate::args_view(arguments@, sup)) by { match args0 { Some(a) => { let rem = a.arguments@.as_ref(); assert forall|i: int| 0 <= i < arguments@.len() implies *(#[trigger] arguments@[i]) == sup[i] by { assert(*rem[i] == sup[i]); } }, None => {} } } }
//@   loop 0 iter_name it
//@   loop 0 invariant [C03+C04.args.defs.iter] it.seq().len() == defs.len() && 0 <= it.index@ <= it.seq().len() && (forall|i: int| 0 <= i < it.seq().len() ==> *it.seq()[i] == defs[i]) && defs == arguments_definition@ && defs.len() > 0
//@   loop 0 invariant [C03+C04.args.defs.frame] crate::extends_errs(old(result)@, result@) && len0 == old(result)@.len() && crate::schema_wf(definitions)
//@   loop 0 invariant [C03+C04.args.defs.view] crate::args_view(arguments@, sup) && crate::nodup(crate::argdef_names(defs))
//@   loop 0 invariant [C03+C04.args.defs.used] crate::used_ok(bound, sup, defs, it.index@ as int) && bound.len() == seen_args && seen_args <= it.index@
//@   loop 0 invariant [C03+C04.args.defs.exact] (result@.len() == len0) <==> crate::argdefs_satisfied_upto(definitions, variables, sup, defs, it.index@ as int)
//@   loop 0 prefix broadcast use crate::text_model; let ghost mut n: int = 0; let ghost len_a = result@.len(); proof { n = it.index@ as int; crate::axiom_text_obeys::<S>(); crate::axiom_text_obeys_str::<S>(); crate::lemma_satisfied_step(definitions, variables, sup, defs, n); assert(*arg_def == defs[n]); }
//@   hint before 0 "match arg {" :: [C03+C04.args.h_find] let ghost name = crate::tv(arg_def.name.inner); let ghost rem = arguments@.as_ref(); let ghost mut fi: int = 0; proof { assert(rem.len() == arguments@.len()); assert(forall|i: int| 0 <= i < rem.len() ==> **(#[trigger] rem[i]) == sup[i]); if arg is None { assert(!crate::some_named(sup, name)) by { assert forall|i: int| 0 <= i < sup.len() implies (#[trigger] sup[i]).0.name@ != name by { assert(**rem[i] == sup[i]); } } crate::lemma_used_skip(bound, sup, defs, n); } else { assert(exists|i: int| 0 <= i < rem.len() && rem[i] == arg->Some_0 && forall|j: int| 0 <= j < i ==> (**(#[trigger] rem[j])).0.name@ != name); fi = choose|i: int| 0 <= i < rem.len() && rem[i] == arg->Some_0 && forall|j: int| 0 <= j < i ==> (**(#[trigger] rem[j])).0.name@ != name; assert(**rem[fi] == sup[fi]); assert(crate::is_first_named(sup, name, fi)) by { assert forall|k: int| 0 <= k < fi implies (#[trigger] sup[k]).0.name@ != name by { assert(**rem[k] == sup[k]); } } assert(crate::some_named(sup, name)); assert forall|i: int| crate::is_first_named(sup, name, i) implies i == fi by { if i < fi { assert(sup[i].0.name@ != name); } if fi < i { assert(sup[fi].0.name@ != name); } } crate::lemma_used_insert(bound, sup, defs, n, fi); } }
//@   hint before 0 "check_value(definitions, variables, arg_value, &arg_def.r#type, result);" :: [C03+C04.args.h_bound] proof { assert(*arg_value == sup[fi].1); bound = bound.insert(fi); vstd::set_lib::lemma_int_range(0, sup.len() as int); assert(bound.subset_of(vstd::set_lib::set_int_range(0, sup.len() as int))); vstd::set_lib::lemma_len_subset(bound, vstd::set_lib::set_int_range(0, sup.len() as int)); assert((seen_args as int) + 1 <= arguments@.len() as int); crate::axiom_vec_len_bound(&arguments); }
//@   hint before 0 "if seen_args" :: [C03+C05.args.sound#count] proof { if seen_args >= arguments.len() { crate::lemma_all_used(bound, sup, defs); } }
//@   loop 1 ensures [C03+C04.args.null_allowed] null_is_allowed == (!(arg_def.r#type is NonNull) || arg_def.default_value is Some)
//@   loop 2 iter_name it2
//@   loop 2 invariant [C03+C04.args.extra.iter] it2.seq().len() == sup.len() && 0 <= it2.index@ <= it2.seq().len() && (forall|i: int| 0 <= i < it2.seq().len() ==> *it2.seq()[i] == sup[i]) && defs == arguments_definition@
//@   loop 2 invariant [C03+C04.args.extra.frame] crate::extends_errs(old(result)@, result@) && len0 == old(result)@.len() && crate::schema_wf(definitions)
//@   loop 2 invariant [C03+C04.args.extra.exact] (result@.len() == len0) <==> (crate::argdefs_satisfied_upto(definitions, variables, sup, defs, defs.len() as int) && crate::supplied_defined_upto(sup, defs, it2.index@ as int))
//@   loop 2 prefix broadcast use crate::text_model; let ghost mut m: int = 0; proof { m = it2.index@ as int; crate::axiom_text_obeys::<S>(); crate::axiom_text_obeys_str::<S>(); crate::lemma_defined_step(sup, defs, m); }
//@   wrap 0 "arguments_definition .iter() .all(|arg_def| arg_def.name != arg_name.name)" :: [C03+C04.args.h_all] proof { let nm = arg_name.name@; let rem2 = arguments_definition@.as_ref(); assert(r__ == !crate::argdef_names(defs).contains(nm)) by { if r__ { assert forall|k: int| 0 <= k < defs.len() implies crate::argdef_names(defs)[k] != nm by { assert(*rem2[k] == defs[k]); } } else { let k = choose|k: int| 0 <= k < rem2.len() && crate::tv((*(#[trigger] rem2[k])).name.inner) == nm; assert(crate::argdef_names(defs)[k] == nm); } } assert(nm == sup[m].0.name@); }
//@ end

//@ canary
} // verus!
fn main() {}
