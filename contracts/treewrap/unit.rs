//@ unit treewrap primary=C01 props=C01,C02,C08
// Unit treewrap: crates/printer/src/operation_type_printer/selection_tree/to_ts.rs  map_to_tstype(_impl)
// The TypeScript type of a selected LEAF field: `| null` exactly where the schema type is nullable, at every
// list / non-null nesting depth (C01: every conformant value is admitted; C02: nothing else is).
#![feature(pattern, allocator_api)]
#![allow(unused)]
use vstd::prelude::*;
use vstd::std_specs::cmp::PartialEqSpec;
verus! {
//@ fragment printer_base.rs
//@ fragment typesys_contracts.rs

use crate::graphql_type_system::r#type::{Type, NamedType};
use crate::nitrogql_printer::ts_types::TSType;

// ---- assumed contract of ts_union (its body uses `chain`, which Verus cannot specify): the union of the items in order;
// ---- a single item is returned as is, no item gives `never`.  `items_of` abstracts `impl IntoIterator`.
pub uninterp spec fn items_of<I>(i: I) -> Seq<TSType>;
#[verifier::external_body]
pub broadcast proof fn axiom_items_of_vec(v: Vec<TSType>)
    ensures #[trigger] items_of(v) == v@
{}
//@ contract nitrogql_printer::ts_types::ts_types_util ::fn ts_union
//@   attr #[verifier::external_body]
//@   ret r
//@   ensures [C01+C02.treewrap.assumed_ts_union] ({ let s = crate::items_of(types); &&& (s.len() == 0 ==> r is Never) &&& (s.len() == 1 ==> r == s[0]) &&& (s.len() >= 2 ==> (r matches TSType::Union(v) && v@ == s)) })
//@ end

// ---------------------------------------------------------------- oracle (GraphQL spec 6.4.3 CompleteValue, wrappers)
pub open spec fn leaf_of<S, N>(t: Type<S, N>) -> NamedType<S, N>
    decreases t
{
    match t {
        Type::Named(n) => n,
        Type::List(li) => leaf_of(li.inner),
        Type::NonNull(n) => leaf_of(n.inner),
    }
}
pub open spec fn renders_outer<S, N>(res: TSType, t: Type<S, N>, leaf: TSType) -> bool
    decreases t, 1nat
{
    if t is NonNull {
        renders_inner(res, t, leaf)
    } else {
        res matches TSType::Union(v) && v@.len() == 2 && v@[1] is Null && renders_inner(v@[0], t, leaf)
    }
}
pub open spec fn renders_inner<S, N>(res: TSType, t: Type<S, N>, leaf: TSType) -> bool
    decreases t, 0nat
{
    match t {
        Type::Named(_) => res == leaf,
        Type::List(li) => res matches TSType::Array(b) && renders_outer(*b, li.inner, leaf),
        Type::NonNull(n) => renders_inner(res, n.inner, leaf),
    }
}

// ---- semantic reading: CompleteValue over a finite abstraction of JSON values
pub enum JV { Null, Arr(Seq<JV>), Atom(int) }
pub open spec fn plain_leaf(leaf: TSType) -> bool { !(leaf is Union) && !(leaf is Array) && !(leaf is Null) }
pub open spec fn ts_admits(t: TSType, leaf: TSType, leafset: spec_fn(JV) -> bool, v: JV) -> bool
    decreases t
{
    if t == leaf { leafset(v) }
    else {
        match t {
            TSType::Null => v is Null,
            TSType::Array(b) => v matches JV::Arr(xs) && forall|i: int| 0 <= i < xs.len() ==> ts_admits(*b, leaf, leafset, #[trigger] xs[i]),
            TSType::Union(ms) => exists|k: int| 0 <= k < ms@.len() && ts_admits(#[trigger] ms@[k], leaf, leafset, v),
            _ => false,
        }
    }
}
/// CompleteValue(fieldType, result): non-null -> completed inner and not null; null allowed otherwise;
/// list -> a list whose items are completed with the item type; leaf -> a coerced leaf value
pub open spec fn completes<S, N>(t: Type<S, N>, leafset: spec_fn(JV) -> bool, v: JV) -> bool
    decreases t
{
    match t {
        Type::Named(_) => v is Null || leafset(v),
        Type::List(li) => v is Null || (v matches JV::Arr(xs) && forall|i: int| 0 <= i < xs.len() ==> completes(li.inner, leafset, #[trigger] xs[i])),
        Type::NonNull(n) => !(v is Null) && completes(n.inner, leafset, v),
    }
}
//@ lemma [C01+C02.treewrap.semantics_inner] lemma_sem_inner
pub proof fn lemma_sem_inner<S, N>(res: TSType, t: Type<S, N>, leaf: TSType, leafset: spec_fn(JV) -> bool, v: JV)
    requires renders_inner(res, t, leaf), plain_leaf(leaf), forall|x: JV| #[trigger] leafset(x) ==> !(x is Null),
    ensures ts_admits(res, leaf, leafset, v) <==> (!(v is Null) && completes(t, leafset, v)),
    decreases t, 0nat, v
{
    match t {
        Type::Named(_) => {}
        Type::List(li) => {
            let b = res->Array_0;
            assert(res != leaf);
            if let JV::Arr(xs) = v {
                assert forall|i: int| 0 <= i < xs.len() implies
                    (ts_admits(*b, leaf, leafset, #[trigger] xs[i]) <==> completes(li.inner, leafset, xs[i])) by {
                    lemma_sem_outer(*b, li.inner, leaf, leafset, xs[i]);
                }
            }
        }
        Type::NonNull(n) => { lemma_sem_inner(res, n.inner, leaf, leafset, v); }
    }
}
/// C01 direction (==>right-to-left): every completed value is admitted; C02 direction: nothing else is.
//@ lemma [C01+C02.treewrap.semantics_outer] lemma_sem_outer
pub proof fn lemma_sem_outer<S, N>(res: TSType, t: Type<S, N>, leaf: TSType, leafset: spec_fn(JV) -> bool, v: JV)
    requires renders_outer(res, t, leaf), plain_leaf(leaf), forall|x: JV| #[trigger] leafset(x) ==> !(x is Null),
    ensures ts_admits(res, leaf, leafset, v) <==> completes(t, leafset, v),
    decreases t, 1nat, v
{
    if t is NonNull {
        lemma_sem_inner(res, t, leaf, leafset, v);
    } else {
        let ms = res->Union_0;
        assert(res != leaf);
        lemma_sem_inner(ms@[0], t, leaf, leafset, v);
        assert(ms@[1] != leaf);
        assert(ts_admits(ms@[1], leaf, leafset, v) <==> v is Null);
        if ts_admits(res, leaf, leafset, v) {
            let k = choose|k: int| 0 <= k < ms@.len() && ts_admits(#[trigger] ms@[k], leaf, leafset, v);
            assert(k == 0 || k == 1);
        }
        if completes(t, leafset, v) {
            if v is Null { assert(ts_admits(ms@[1], leaf, leafset, v)); } else { assert(ts_admits(ms@[0], leaf, leafset, v)); }
        }
    }
}

//@ contract nitrogql_printer::selection_tree::to_ts ::fn map_to_tstype
//@   ret out
//@   requires [C01+C02.treewrap.outer.pre_total] forall|n: &NamedType<Str, OriginalNode>| mapper.requires((n,))
//@   ensures [C01+C02.treewrap.outer.renders] exists|o: TSType| mapper.ensures((&crate::leaf_of(*ty),), o) && crate::renders_outer(out, *ty, o)
//@   decreases [C01+C02.treewrap.outer.terminates] *ty, 1nat
//@   prefix let ghost ty0 = *ty; broadcast use crate::axiom_items_of_vec;
//@   hint before 0 "if nullable {" :: [C01+C02.treewrap.outer.renders#nonnull] proof { let o = choose|o: TSType| mapper.ensures((&crate::leaf_of(ty0),), o) && crate::renders_inner(res, ty0, o); if !nullable { assert(crate::renders_outer(res, ty0, o)); } }
//@   wrap_tail 0 "if nullable {" :: [C01+C02.treewrap.outer.renders#union] proof { let o = choose|o: TSType| mapper.ensures((&crate::leaf_of(ty0),), o) && crate::renders_inner(res, ty0, o); let v = r__->Union_0; assert(v@.len() == 2 && v@[0] == res && v@[1] == TSType::Null); assert(crate::renders_outer(r__, ty0, o)); }
//@ end
//@ contract nitrogql_printer::selection_tree::to_ts ::fn map_to_tstype_impl
//@   ret out
//@   requires [C01+C02.treewrap.inner.pre_total] forall|n: &NamedType<Str, OriginalNode>| mapper.requires((n,))
//@   ensures [C01+C02.treewrap.inner.renders] exists|o: TSType| mapper.ensures((&crate::leaf_of(*ty),), o) && crate::renders_inner(out.0, *ty, o)
//@   ensures [C01+C02.treewrap.inner.flag] out.1 == !(*ty is NonNull)
//@   decreases [C01+C02.treewrap.inner.terminates] *ty, 0nat
//@   prefix let ghost ty0 = *ty;
//@   wrap_arm 0 0 :: [C01+C02.treewrap.inner.renders#named] proof { assert(crate::leaf_of(ty0) == *name); assert(mapper.ensures((&crate::leaf_of(ty0),), r__.0)); assert(crate::renders_inner(r__.0, ty0, r__.0)); }
//@   wrap_arm 0 1 :: [C01+C02.treewrap.inner.renders#list] proof { let b = *(r__.0->Array_0); let o = choose|o: TSType| mapper.ensures((&crate::leaf_of(inner.inner),), o) && crate::renders_outer(b, inner.inner, o); assert(crate::leaf_of(ty0) == crate::leaf_of(inner.inner)); assert(crate::renders_inner(r__.0, ty0, o)); }
//@   wrap_arm 0 2 :: [C01+C02.treewrap.inner.renders#nonnull] proof { let o = choose|o: TSType| mapper.ensures((&crate::leaf_of(inner.inner),), o) && crate::renders_inner(r__.0, inner.inner, o); assert(crate::leaf_of(ty0) == crate::leaf_of(inner.inner)); assert(crate::renders_inner(r__.0, ty0, o)); }
//@ end

//@ canary
} // verus!
fn main() {}
