//@ unit ts_object primary=C05 props=C05,C08
// Unit ts_object: crates/checker/src/type_system_checker/mod.rs::{check_object, check_interface}
// Oracle: GraphQL spec 3.6 Objects / 3.7 Interfaces "Type Validation" (fragment spec_typesystem.rs).
//  C05 (both directions): the function adds no diagnostic  <=>  the definition satisfies the rules
//  (IsValidImplementation itself is an assumed callee contract: check_valid_implementation is outside Verus' reach).
#![feature(pattern, allocator_api)]
#![allow(unused)]
use vstd::prelude::*;
use vstd::std_specs::cmp::PartialEqSpec;
verus! {
//@ fragment checker_base.rs
//@ include strmodel.rs
//@ fragment schema_view.rs
//@ fragment seenlist.rs
//@ fragment checker_spec.rs
//@ fragment spec_inout.rs
//@ fragment spec_typesystem.rs
//@ fragment assumed_checker_leafs.rs
//@ fragment contract_argsdef.rs
//@   attr #[verifier::external_body]
//@ end

//@ contract nitrogql_checker::type_system_checker::interfaces ::fn check_valid_implementation
//@   attr #[verifier::external_body]
//@   ensures [assumed.validimpl.frame] crate::extends_errs(old(result)@, final(result)@)
//@   ensures [assumed.validimpl.exact] (final(result)@.len() == old(result)@.len()) <==> crate::valid_implementation(definitions, *object_name, fields@, implements@, interface)
//@ end

pub open spec fn object_loop1(o: &crate::nitrogql_ast::type_system::ObjectTypeDefinition, d: &crate::nitrogql_semantics::definition_map::DefinitionMap, n: int) -> bool {
    object_head_ok(o, d) && fields_ok_upto(o.fields@, d, n)
}
pub open spec fn object_loop2(o: &crate::nitrogql_ast::type_system::ObjectTypeDefinition, d: &crate::nitrogql_semantics::definition_map::DefinitionMap, m: int) -> bool {
    object_loop1(o, d, o.fields@.len() as int) && forall|i: int| 0 <= i < m ==> #[trigger] implements_ok(d, o.name, o.fields@, o.implements@, i)
}

//@ fragment contract_check_object.rs
//@   unexternal
//@   prefix broadcast use crate::str_key_model;
//@   loops 2
//@   loop 0 iter_name it
//@   loop 0 invariant [C05.ts_object.fields.iter] it.seq().len() == object.fields@.len() && 0 <= it.index@ <= it.seq().len() && (forall|i: int| 0 <= i < it.seq().len() ==> *it.seq()[i] == object.fields@[i])
//@   loop 0 invariant [C05.ts_object.fields.frame] crate::extends_errs(old(result)@, result@) && crate::schema_wf(&definitions.type_system)
//@   loop 0 invariant [C05.ts_object.fields.seen] crate::seen_ok(crate::names_view(seen_fields), crate::field_names(object.fields@), it.index@ as int)
//@   loop 0 invariant [C05.ts_object.fields.exact] (result@.len() == old(result)@.len()) <==> crate::object_loop1(object, definitions, it.index@ as int)
//@   hint before 0 "let mut seen_fields = vec![];" :: [C05.ts_object.h_init] proof { crate::axiom_str_obeys(); crate::lemma_seen_init(crate::field_names(object.fields@)); }
//@   loop 0 prefix let ghost mut n: int = 0; let ghost names = crate::field_names(object.fields@); let ghost seen0 = seen_fields@; proof { n = it.index@ as int; crate::axiom_str_obeys(); crate::lemma_nodup_step(names, n); assert(*f == object.fields@[n]); assert(names[n] == f.name.name@); }
//@   hint after 0 "if seen_fields.contains(&f.name.name) {" :: [C05.ts_object.h_hit] proof { crate::lemma_vec_contains(seen_fields, f.name.name, true); crate::lemma_seen_hit(crate::names_view(seen_fields), names, n); }
//@   hint before 0 "seen_fields.push(f.name.name);" :: [C05.ts_object.h_miss] proof { crate::lemma_vec_contains(seen_fields, f.name.name, false); crate::lemma_seen_miss(crate::names_view(seen_fields), names, n); }
//@   hint after 0 "seen_fields.push(f.name.name);" :: [C05.ts_object.h_pushed] proof { crate::lemma_names_push(seen0, seen_fields, f.name.name); }
//@   closure 0 |k: crate::nitrogql_checker::types::TypeInOutKind| -> (b: bool) ;; ensures [C05.ts_object.cl] b == (k is Output || k is Both)
//@   loop 1 iter_name it2
//@   loop 1 for_continue
//@   loop 1 invariant [C05.ts_object.impl.iter] it2.seq().len() == object.implements@.len() && 0 <= it2.index@ <= it2.seq().len() && (forall|i: int| 0 <= i < it2.seq().len() ==> *it2.seq()[i] == object.implements@[i])
//@   loop 1 invariant [C05.ts_object.impl.frame] crate::extends_errs(old(result)@, result@) && crate::schema_wf(&definitions.type_system)
//@   loop 1 invariant [C05.ts_object.impl.exact] (result@.len() == old(result)@.len()) <==> crate::object_loop2(object, definitions, it2.index@ as int)
//@   loop 1 body_invariant [C05.ts_object.impl.body_pre] it2.seq().len() == object.implements@.len() && 0 <= it2.index@ < it2.seq().len() && *interface == object.implements@[it2.index@ as int] && crate::extends_errs(old(result)@, result@) && ((result@.len() == old(result)@.len()) <==> crate::object_loop2(object, definitions, it2.index@ as int)) && crate::schema_wf(&definitions.type_system)
//@   loop 1 body_ensures [C05.ts_object.impl.body_frame] crate::extends_errs(old(result)@, result@)
//@   loop 1 body_ensures [C05.ts_object.impl.body_step] (result@.len() == old(result)@.len()) <==> crate::object_loop2(object, definitions, it2.index@ as int + 1)
//@   loop 1 body_prefix broadcast use crate::str_key_model; proof { crate::axiom_str_obeys(); }
//@   hint after 0 "let Some(interface_def) = definitions.types.get(interface.name) else {" :: [C05.ts_object.impl.body_step#unknown] proof { assert(!crate::implements_ok(definitions, object.name, object.fields@, object.implements@, it2.index@ as int)); }
//@   hint after 0 "let TypeDefinition::Interface(def) = interface_def else {" :: [C05.ts_object.impl.body_step#notiface] proof { assert(!crate::implements_ok(definitions, object.name, object.fields@, object.implements@, it2.index@ as int)); }
//@   hint before 0 "check_valid_implementation(" :: [C05.ts_object.impl.body_step#pre] let ghost len_b = result@.len(); proof { assert(definitions.types@.contains_key(interface.name)); assert(**interface_def == *definitions.types@[interface.name]); assert(*def == definitions.types@[interface.name]->Interface_0); }
//@   hint after 0 "def, result, );" :: [C05.ts_object.impl.body_step#post] proof { let i = it2.index@ as int; assert((result@.len() == len_b) <==> crate::implements_ok(definitions, object.name, object.fields@, object.implements@, i)); }
//@ end

pub open spec fn iface_loop1(o: &crate::nitrogql_ast::type_system::InterfaceTypeDefinition, d: &crate::nitrogql_semantics::definition_map::DefinitionMap, n: int) -> bool {
    interface_head_ok(o, d) && fields_ok_upto(o.fields@, d, n)
}
pub open spec fn iface_loop2(o: &crate::nitrogql_ast::type_system::InterfaceTypeDefinition, d: &crate::nitrogql_semantics::definition_map::DefinitionMap, m: int) -> bool {
    iface_loop1(o, d, o.fields@.len() as int) && forall|i: int| 0 <= i < m ==> #[trigger] iface_implements_ok(o, d, i)
}

//@ fragment contract_check_interface.rs
//@   unexternal
//@   prefix broadcast use crate::str_key_model;
//@   loops 2
//@   loop 0 iter_name it
//@   loop 0 invariant [C05.ts_interface.fields.iter] it.seq().len() == interface.fields@.len() && 0 <= it.index@ <= it.seq().len() && (forall|i: int| 0 <= i < it.seq().len() ==> *it.seq()[i] == interface.fields@[i])
//@   loop 0 invariant [C05.ts_interface.fields.frame] crate::extends_errs(old(result)@, result@) && crate::schema_wf(&definitions.type_system)
//@   loop 0 invariant [C05.ts_interface.fields.seen] crate::seen_ok(crate::names_view(seen_fields), crate::field_names(interface.fields@), it.index@ as int)
//@   loop 0 invariant [C05.ts_interface.fields.exact] (result@.len() == old(result)@.len()) <==> crate::iface_loop1(interface, definitions, it.index@ as int)
//@   hint before 0 "let mut seen_fields = vec![];" :: [C05.ts_interface.h_init] proof { crate::axiom_str_obeys(); crate::lemma_seen_init(crate::field_names(interface.fields@)); }
//@   loop 0 prefix let ghost mut n: int = 0; let ghost names = crate::field_names(interface.fields@); let ghost seen0 = seen_fields@; proof { n = it.index@ as int; crate::axiom_str_obeys(); crate::lemma_nodup_step(names, n); assert(*f == interface.fields@[n]); assert(names[n] == f.name.name@); }
//@   hint after 0 "if seen_fields.contains(&f.name.name) {" :: [C05.ts_interface.h_hit] proof { crate::lemma_vec_contains(seen_fields, f.name.name, true); crate::lemma_seen_hit(crate::names_view(seen_fields), names, n); }
//@   hint before 0 "seen_fields.push(f.name.name);" :: [C05.ts_interface.h_miss] proof { crate::lemma_vec_contains(seen_fields, f.name.name, false); crate::lemma_seen_miss(crate::names_view(seen_fields), names, n); }
//@   hint after 0 "seen_fields.push(f.name.name);" :: [C05.ts_interface.h_pushed] proof { crate::lemma_names_push(seen0, seen_fields, f.name.name); }
//@   closure 0 |k: crate::nitrogql_checker::types::TypeInOutKind| -> (b: bool) ;; ensures [C05.ts_interface.cl] b == (k is Output || k is Both)
//@   loop 1 iter_name it2
//@   loop 1 for_continue
//@   loop 1 invariant [C05.ts_interface.impl.iter] it2.seq().len() == interface.implements@.len() && 0 <= it2.index@ <= it2.seq().len() && (forall|i: int| 0 <= i < it2.seq().len() ==> *it2.seq()[i] == interface.implements@[i])
//@   loop 1 invariant [C05.ts_interface.impl.frame] crate::extends_errs(old(result)@, result@) && crate::schema_wf(&definitions.type_system)
//@   loop 1 invariant [C05.ts_interface.impl.exact] (result@.len() == old(result)@.len()) <==> crate::iface_loop2(interface, definitions, it2.index@ as int)
//@   loop 1 body_invariant [C05.ts_interface.impl.body_pre] it2.seq().len() == interface.implements@.len() && 0 <= it2.index@ < it2.seq().len() && *other_interface == interface.implements@[it2.index@ as int] && crate::extends_errs(old(result)@, result@) && ((result@.len() == old(result)@.len()) <==> crate::iface_loop2(interface, definitions, it2.index@ as int)) && crate::schema_wf(&definitions.type_system)
//@   loop 1 body_ensures [C05.ts_interface.impl.body_frame] crate::extends_errs(old(result)@, result@)
//@   loop 1 body_ensures [C05.ts_interface.impl.body_step] (result@.len() == old(result)@.len()) <==> crate::iface_loop2(interface, definitions, it2.index@ as int + 1)
//@   loop 1 body_prefix broadcast use crate::str_key_model, crate::axiom_str_eq; proof { crate::axiom_str_obeys(); }
//@   hint after 0 "if interface.name.name == other_interface.name {" :: [C05.ts_interface.impl.body_step#self] proof { assert(!crate::iface_implements_ok(interface, definitions, it2.index@ as int)); }
//@   hint after 0 "let Some(interface_def) = definitions.types.get(other_interface.name) else {" :: [C05.ts_interface.impl.body_step#unknown] proof { assert(!crate::iface_implements_ok(interface, definitions, it2.index@ as int)); }
//@   hint after 0 "let TypeDefinition::Interface(def) = interface_def else {" :: [C05.ts_interface.impl.body_step#notiface] proof { assert(!crate::iface_implements_ok(interface, definitions, it2.index@ as int)); }
//@   hint before 0 "check_valid_implementation(" :: [C05.ts_interface.impl.body_step#pre] let ghost len_b = result@.len(); proof { assert(definitions.types@.contains_key(other_interface.name)); assert(**interface_def == *definitions.types@[other_interface.name]); assert(*def == definitions.types@[other_interface.name]->Interface_0); }
//@   hint after 0 "def, result, );" :: [C05.ts_interface.impl.body_step#post] proof { let i = it2.index@ as int; assert((result@.len() == len_b) <==> crate::iface_implements_ok(interface, definitions, i)); }
//@ end

//@ canary
} // verus!
fn main() {}
