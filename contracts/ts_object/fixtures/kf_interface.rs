// Demonstration for the defects found by /verif unit ts_object (property C05) in check_interface.
use graphql_builtins::generate_builtins;
use nitrogql_checker::check_type_system_document;
use nitrogql_parser::parse_type_system_document;
use nitrogql_semantics::resolve_schema_extensions;

fn errors_of(source: &str) -> Vec<String> {
    let mut doc = parse_type_system_document(source).unwrap();
    doc.extend(generate_builtins());
    let doc = resolve_schema_extensions(doc).unwrap();
    check_type_system_document(&doc).into_iter().map(|e| format!("{:?}", e.message)).collect()
}

// D1a (C05 complete): a valid schema - @deprecated is declared `on FIELD_DEFINITION | ...` and is applied to an
// interface FIELD DEFINITION - must produce no diagnostic.  The same directive on an object field is accepted.
#[test]
fn deprecated_on_interface_field_is_valid() {
    let on_object = errors_of("type Query { a: Int @deprecated }");
    assert!(on_object.is_empty(), "object: {:?}", on_object);
    let on_interface = errors_of("interface Node { a: Int @deprecated } type Query { a: Int }");
    assert!(on_interface.is_empty(), "interface: {:?}", on_interface);
}

// D1b (C05 sound): a directive declared only for executable location FIELD must be rejected on an interface field
// definition, as it is on an object field definition.
#[test]
fn field_only_directive_on_interface_field_is_rejected() {
    let on_object = errors_of("directive @x on FIELD type Query { a: Int @x }");
    assert!(!on_object.is_empty());
    let on_interface = errors_of("directive @x on FIELD interface Node { a: Int @x } type Query { a: Int }");
    assert!(!on_interface.is_empty(), "directive declared `on FIELD` accepted on an interface field definition");
}

// D2 (C05 sound): a field whose type is not defined must be reported, as it is for object fields.
#[test]
fn unknown_interface_field_type_is_reported() {
    let on_object = errors_of("type Query { a: Nope }");
    assert!(!on_object.is_empty());
    let on_interface = errors_of("interface Node { a: Nope } type Query { a: Int }");
    assert!(!on_interface.is_empty(), "interface field of undefined type accepted");
}
