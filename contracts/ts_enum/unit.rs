//@ unit ts_enum primary=C05 props=C05,C08
// Unit ts_enum: crates/checker/src/type_system_checker/mod.rs::check_enum
// Oracle: GraphQL spec 3.9 Enums "Type Validation" + reserved names + directive rules at ENUM / ENUM_VALUE.
//  C05 (both directions): check_enum adds no diagnostic  <=>  the enum definition satisfies those rules.
#![feature(pattern, allocator_api)]
#![allow(unused)]
use vstd::prelude::*;
use vstd::std_specs::cmp::PartialEqSpec;
verus! {
//@ fragment checker_base.rs
//@ include strmodel.rs
//@ fragment schema_view.rs
//@ fragment seenlist.rs
//@ fragment checker_spec.rs
//@ fragment spec_inout.rs
//@ fragment spec_typesystem.rs
//@ fragment contract_check_directives.rs
//@   attr #[verifier::external_body]
//@ end
//@ fragment contract_reserved.rs
//@   attr #[verifier::external_body]
//@ end

//@ fragment contract_check_enum.rs
//@   unexternal
//@   loops 1
//@   loop 0 iter_name it
//@   loop 0 invariant [C05.ts_enum.loop.iter] it.seq().len() == enum_def.values@.len() && 0 <= it.index@ <= it.seq().len() && (forall|i: int| 0 <= i < it.seq().len() ==> *it.seq()[i] == enum_def.values@[i])
//@   loop 0 invariant [C05.ts_enum.loop.frame] crate::extends_errs(old(result)@, result@) && crate::schema_wf(&definitions.type_system)
//@   loop 0 invariant [C05.ts_enum.loop.seen] crate::seen_ok(crate::names_view(seen_values), crate::enum_names(enum_def), it.index@ as int)
//@   loop 0 invariant [C05.ts_enum.loop.exact] (result@.len() == old(result)@.len()) <==> crate::enum_ok_upto(enum_def, definitions, it.index@ as int)
//@   hint before 0 "let mut seen_values = vec![];" :: [C05.ts_enum.h_init] proof { crate::axiom_str_obeys(); crate::lemma_seen_init(crate::enum_names(enum_def)); }
//@   loop 0 prefix let ghost mut n: int = 0; let ghost names = crate::enum_names(enum_def); let ghost seen0 = seen_values@; proof { n = it.index@ as int; crate::axiom_str_obeys(); crate::lemma_nodup_step(names, n); assert(*v == enum_def.values@[n]); assert(names[n] == v.name.name@); }
//@   hint before 0 "if seen_values.contains(&v.name.name) {" :: [C05.ts_enum.h_contains] let ghost len1 = result@.len();
//@   hint after 0 "if seen_values.contains(&v.name.name) {" :: [C05.ts_enum.h_hit] proof { crate::lemma_vec_contains(seen_values, v.name.name, true); crate::lemma_seen_hit(crate::names_view(seen_values), names, n); }
//@   hint before 0 "seen_values.push(v.name.name);" :: [C05.ts_enum.h_miss] proof { crate::lemma_vec_contains(seen_values, v.name.name, false); crate::lemma_seen_miss(crate::names_view(seen_values), names, n); }
//@   hint after 0 "seen_values.push(v.name.name);" :: [C05.ts_enum.h_pushed] proof { crate::lemma_names_push(seen0, seen_values, v.name.name); assert(crate::names_view(seen_values) =~= Seq::new(seen0.len(), |i: int| seen0[i]@).push(names[n])); assert(Seq::new(seen0.len(), |i: int| seen0[i]@) =~= Seq::new(seen0.len(), |i: int| seen0[i]@)); }
//@   suffix [C05.ts_enum.h_exit] proof { assert(enum_def.values@.len() == enum_def.values@.len()); }
//@ end

//@ canary
} // verus!
fn main() {}
