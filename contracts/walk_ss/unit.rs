//@ unit walk_ss primary=C03 props=C03,C04,C08
// Unit walk_ss: crates/checker/src/operation_checker/mod.rs::check_selection_set   (one step of the selection-set walk)
// Oracle: GraphQL spec 5.3 - a selection set may only be applied to a type that has fields (object, interface, union),
// and EVERY selection in it is checked against that type by the checker of its kind (field / fragment spread / inline
// fragment), none skipped.   v_ss(args) <==> def_ss(args)
#![feature(pattern, allocator_api)]
#![allow(unused)]
use vstd::prelude::*;
use vstd::std_specs::cmp::PartialEqSpec;
verus! {
//@ fragment checker_ops_base.rs
//@ include strmodel.rs
//@ fragment typesys_contracts.rs
//@ fragment schema_view.rs
//@ fragment seenlist.rs
//@ fragment checker_spec.rs
//@ fragment spec_walk.rs
//@ fragment contract_walk_field.rs
//@   attr #[verifier::external_body]
//@ end
//@ fragment contract_walk_spread.rs
//@   attr #[verifier::external_body]
//@ end
//@ fragment contract_walk_inline.rs
//@   attr #[verifier::external_body]
//@ end

//@ contract nitrogql_semantics::direct_fields_of_output_type ::fn direct_fields_of_output_type
//@   attr #[verifier::external_body]
//@   ret r
//@   ensures [assumed.direct_fields] match r { Some(v) => crate::selectable_fields(*ty) == Some(crate::borrowed_fields::<std::borrow::Cow<'b, crate::graphql_type_system::definitions::Field<S, Pos>>, S>(v@)), None => crate::selectable_fields(*ty) is None }
//@   ensures [assumed.direct_fields.argdefs] r is Some ==> forall|k: int| 0 <= k < r->Some_0@.len() ==> crate::type_fields_args_unique(*ty) ==> crate::nodup(crate::argdef_names((#[trigger] crate::borrowed_fields::<std::borrow::Cow<'b, crate::graphql_type_system::definitions::Field<S, Pos>>, S>(r->Some_0@)[k]).arguments@))
//@ end
/// the one-step rule
pub open spec fn sel_verdict<'a, 'src, S>(fm: &FragmentMap<'a, 'src>, seen: Seq<Seq<char>>, vars: Option<&VariablesDefinition<'src>>, root: TyNode<S>, fields: Seq<TsField<S, Pos>>, s: Selection<'src>, sch: &Schema<S, Pos>) -> bool {
    match s {
        Selection::Field(f) => v_field(fm, seen, vars, tv(type_def_name(root.inner)), fields, f, sch),
        Selection::FragmentSpread(sp) => v_spread(fm, seen, vars, root, sp, sch),
        Selection::InlineFragment(inl) => v_inline(fm, seen, vars, root, inl, sch),
    }
}
pub open spec fn def_ss_upto<'a, 'src, S>(fm: &FragmentMap<'a, 'src>, seen: Seq<Seq<char>>, vars: Option<&VariablesDefinition<'src>>, root: TyNode<S>, ss: SelectionSet<'src>, sch: &Schema<S, Pos>, n: int) -> bool {
    selectable_fields(root.inner) is Some
    && forall|i: int| 0 <= i < n ==> sel_verdict(fm, seen, vars, root, selectable_fields(root.inner)->Some_0, #[trigger] ss.selections@[i], sch)
}

//@ contract graphql_type_system::definitions ::fn name#0
//@   ret r
//@   ensures [C03+C04.walk.typedef_name] *r == crate::type_def_name(*self)
//@ end

//@ contract nitrogql_checker::operation_checker ::fn check_selection_set
//@   unexternal
//@   requires [C03+C04.walk.ss.pre_schema_wf] crate::schema_wf(context.definitions)
//@   requires [C03+C04.walk.ss.pre_root_wf] crate::type_fields_args_unique(root_type.inner)
//@   ensures [C03+C04.walk.ss.frame] crate::extends_errs(old(result)@, final(result)@)
//@   ensures [C03+C04.walk.ss.one_step] (final(result)@.len() == old(result)@.len()) <==> crate::def_ss_upto(fragment_map, crate::seen_view(seen_fragments@), variables, *root_type, *selection_set, context.definitions, selection_set.selections@.len() as int)
//@   prefix broadcast use crate::text_model, crate::axiom_selectable_composite; proof { crate::axiom_text_obeys::<S>(); }
//@   loops 1
//@   loop 0 iter_name it
//@   loop 0 invariant [C03+C04.walk.ss.loop.iter] it.seq().len() == selection_set.selections@.len() && 0 <= it.index@ <= it.seq().len() && (forall|i: int| 0 <= i < it.seq().len() ==> *it.seq()[i] == selection_set.selections@[i])
//@   loop 0 invariant [C03+C04.walk.ss.loop.frame] crate::extends_errs(old(result)@, result@) && crate::schema_wf(context.definitions) && crate::type_fields_args_unique(root_type.inner) && (forall|k: int| 0 <= k < root_fields@.len() ==> crate::nodup(crate::argdef_names((#[trigger] crate::borrowed_fields::<std::borrow::Cow<'_, crate::graphql_type_system::definitions::Field<S, Pos>>, S>(root_fields@)[k]).arguments@)))
//@   loop 0 invariant [C03+C04.walk.ss.loop.ctx] crate::selectable_fields(root_type.inner) == Some(crate::borrowed_fields::<std::borrow::Cow<'_, crate::graphql_type_system::definitions::Field<S, Pos>>, S>(root_fields@)) && *root_type_name == crate::type_def_name(root_type.inner)
//@   loop 0 invariant [C03+C04.walk.ss.loop.exact] (result@.len() == old(result)@.len()) <==> crate::def_ss_upto(fragment_map, crate::seen_view(seen_fragments@), variables, *root_type, *selection_set, context.definitions, it.index@ as int)
//@   loop 0 prefix broadcast use crate::text_model; let ghost len_a = result@.len(); proof { crate::axiom_text_obeys::<S>(); assert(*selection == selection_set.selections@[it.index@ as int]); }
//@   loop 0 suffix [C03+C04.walk.ss.loop.exact#step] proof { let n = it.index@ as int; if len_a == old(result)@.len() { assert((result@.len() == len_a) <==> crate::sel_verdict(fragment_map, crate::seen_view(seen_fragments@), variables, *root_type, crate::selectable_fields(root_type.inner)->Some_0, selection_set.selections@[n], context.definitions)); } }
//@ end

//@ canary
} // verus!
fn main() {}
