//@ unit dirs primary=C03 props=C03,C04,C05,C08
// Unit dirs: crates/checker/src/common.rs::check_directives  (every directive application, in schemas and operations)
// Oracle: GraphQL spec 5.7 Directives (fragment checker_spec.rs: dir_valid_at):
//   5.7.1 defined, 5.7.2 allowed at this location, 5.7.3 unique per location unless repeatable, 5.4 arguments valid.
//  C03/C05 (sound): no diagnostic  ==> every directive satisfies the rules;  C04/C05 (complete): the converse.
#![feature(pattern, allocator_api)]
#![allow(unused)]
use vstd::prelude::*;
use vstd::std_specs::cmp::PartialEqSpec;
verus! {
//@ fragment checker_base.rs
//@ include strmodel.rs
//@ fragment typesys_contracts.rs
//@ fragment schema_view.rs
//@ fragment seenlist.rs
//@ fragment checker_spec.rs
//@ fragment contract_check_arguments.rs
//@   attr #[verifier::external_body]
//@ end

/// names of the directive applications, in order
pub open spec fn dir_names(ds: Seq<Directive>) -> Seq<Seq<char>> { Seq::new(ds.len(), |k: int| ds[k].name.name@) }
/// the seen-list of check_directives only records names of DEFINED directives
pub open spec fn seen_defined<S>(seen: Seq<Seq<char>>, sch: &Schema<S, Pos>, ds: Seq<Directive>, n: int) -> bool {
    &&& 0 <= n <= ds.len()
    &&& forall|k: int| 0 <= k < n && schema_directives(sch).contains_key(ds[k].name.name@) ==> seen.contains(#[trigger] dir_names(ds)[k])
    &&& forall|m: int| 0 <= m < seen.len() ==> dir_names(ds).take(n).contains(#[trigger] seen[m])
}
pub proof fn lemma_take_mono(names: Seq<Seq<char>>, n: int, x: Seq<char>)
    requires 0 <= n < names.len(), names.take(n).contains(x),
    ensures names.take(n + 1).contains(x),
{
    let k = choose|k: int| 0 <= k < names.take(n).len() && names.take(n)[k] == x;
    assert(names.take(n + 1)[k] == x);
}
pub proof fn lemma_seen_defined_hit<S>(seen: Seq<Seq<char>>, sch: &Schema<S, Pos>, ds: Seq<Directive>, n: int)
    requires seen_defined(seen, sch, ds, n), n < ds.len(), seen.contains(ds[n].name.name@),
    ensures exists|j: int| 0 <= j < n && (#[trigger] ds[j]).name.name@ == ds[n].name.name@, seen_defined(seen, sch, ds, n + 1),
{
    let names = dir_names(ds);
    let m = choose|m: int| 0 <= m < seen.len() && seen[m] == ds[n].name.name@;
    assert(names.take(n).contains(seen[m]));
    let k = choose|k: int| 0 <= k < names.take(n).len() && names.take(n)[k] == seen[m];
    assert(ds[k].name.name@ == ds[n].name.name@);
    assert(names[n] == ds[n].name.name@);
    assert forall|m2: int| 0 <= m2 < seen.len() implies names.take(n + 1).contains(#[trigger] seen[m2]) by {
        lemma_take_mono(names, n, seen[m2]);
    }
}
pub proof fn lemma_seen_defined_miss<S>(seen: Seq<Seq<char>>, sch: &Schema<S, Pos>, ds: Seq<Directive>, n: int)
    requires seen_defined(seen, sch, ds, n), n < ds.len(), !seen.contains(ds[n].name.name@), schema_directives(sch).contains_key(ds[n].name.name@),
    ensures forall|j: int| 0 <= j < n ==> (#[trigger] ds[j]).name.name@ != ds[n].name.name@, seen_defined(seen.push(ds[n].name.name@), sch, ds, n + 1),
{
    let names = dir_names(ds);
    assert forall|j: int| 0 <= j < n implies (#[trigger] ds[j]).name.name@ != ds[n].name.name@ by {
        if ds[j].name.name@ == ds[n].name.name@ { assert(seen.contains(names[j])); }
    }
    let s2 = seen.push(ds[n].name.name@);
    assert forall|k: int| 0 <= k < n + 1 && schema_directives(sch).contains_key(ds[k].name.name@) implies s2.contains(#[trigger] names[k]) by {
        if k < n {
            assert(seen.contains(names[k]));
            let m = choose|m: int| 0 <= m < seen.len() && seen[m] == names[k];
            assert(s2[m] == names[k]);
        } else { assert(s2[seen.len() as int] == names[n]); }
    }
    assert forall|m: int| 0 <= m < s2.len() implies names.take(n + 1).contains(#[trigger] s2[m]) by {
        if m < seen.len() { assert(s2[m] == seen[m]); lemma_take_mono(names, n, seen[m]); }
        else { assert(names.take(n + 1)[n] == s2[m]); }
    }
}
/// an undefined directive does not change the seen-list
pub proof fn lemma_seen_defined_skip<S>(seen: Seq<Seq<char>>, sch: &Schema<S, Pos>, ds: Seq<Directive>, n: int)
    requires seen_defined(seen, sch, ds, n), n < ds.len(), !schema_directives(sch).contains_key(ds[n].name.name@),
    ensures seen_defined(seen, sch, ds, n + 1),
{
    let names = dir_names(ds);
    assert forall|m: int| 0 <= m < seen.len() implies names.take(n + 1).contains(#[trigger] seen[m]) by {
        lemma_take_mono(names, n, seen[m]);
    }
}
pub proof fn lemma_upto_step<'src, S>(sch: &Schema<S, Pos>, vars: Option<&VariablesDefinition<'src>>, ds: Seq<Directive<'src>>, loc: Seq<char>, n: int)
    requires 0 <= n < ds.len(),
    ensures dirs_valid_upto(sch, vars, ds, loc, n + 1) == (dirs_valid_upto(sch, vars, ds, loc, n) && dir_valid_at(sch, vars, ds, loc, n)),
{
    if dirs_valid_upto(sch, vars, ds, loc, n + 1) { assert(dir_valid_at(sch, vars, ds, loc, n)); }
}

//@ fragment contract_check_directives.rs
//@   unexternal
//@   prefix broadcast use crate::text_model; proof { crate::axiom_text_obeys::<S>(); crate::axiom_text_obeys_str::<S>(); crate::axiom_str_obeys(); }
//@   loops 1
//@   loop 0 iter_name it
//@   loop 0 invariant [C03+C04+C05.dirs.loop.iter] it.seq().len() == directives@.len() && 0 <= it.index@ <= it.seq().len() && (forall|i: int| 0 <= i < it.seq().len() ==> *it.seq()[i] == directives@[i])
//@   loop 0 invariant [C03+C04+C05.dirs.loop.frame] crate::extends_errs(old(result)@, result@) && crate::schema_wf(definitions)
//@   loop 0 invariant [C03+C04+C05.dirs.loop.seen] crate::seen_defined(crate::names_view(seen_directives), definitions, directives@, it.index@ as int)
//@   loop 0 invariant [C03+C04+C05.dirs.loop.exact] (result@.len() == old(result)@.len()) <==> crate::dirs_valid_upto(definitions, variables, directives@, current_position@, it.index@ as int)
//@   loop 0 prefix broadcast use crate::text_model; let ghost mut n: int = 0; let ghost seen0 = seen_directives@; let ghost len_a = result@.len(); proof { n = it.index@ as int; crate::axiom_text_obeys::<S>(); crate::axiom_text_obeys_str::<S>(); crate::axiom_str_obeys(); crate::lemma_upto_step(definitions, variables, directives@, current_position@, n); assert(*d == directives@[n]); }
//@   closure 0 |loc: &crate::graphql_type_system::node::Node<S, Pos>| -> (b: bool) ;; ensures [C03+C04+C05.dirs.cl_loc] b == (crate::tv(loc.inner) != current_position@)
//@   loop 0 suffix [C03+C04+C05.dirs.h_undefined] proof { if !crate::schema_directives(definitions).contains_key(d.name.name@) { crate::lemma_seen_defined_skip(crate::names_view(seen_directives), definitions, directives@, n); } }
//@   hint before 0 "if seen_directives.contains(&d.name.name) {" :: [C03+C04+C05.dirs.h_loc] let ghost len_b = result@.len(); proof { let locs = def.inner.locations@; let rem = locs.as_ref(); assert((len_b == len_a) <==> (exists|k: int| 0 <= k < locs.len() && crate::tv(#[trigger] locs[k].inner) == current_position@)) by { if len_b == len_a { } else { assert forall|k: int| 0 <= k < locs.len() implies crate::tv(#[trigger] locs[k].inner) != current_position@ by { assert(*rem[k] == locs[k]); } } } }
//@   hint after 0 "if seen_directives.contains(&d.name.name) {" :: [C03+C04+C05.dirs.h_hit] proof { crate::lemma_vec_contains(seen_directives, d.name.name, true); crate::lemma_seen_defined_hit(crate::names_view(seen_directives), definitions, directives@, n); }
//@   hint before 0 "seen_directives.push(d.name.name);" :: [C03+C04+C05.dirs.h_miss] proof { crate::lemma_vec_contains(seen_directives, d.name.name, false); crate::lemma_seen_defined_miss(crate::names_view(seen_directives), definitions, directives@, n); }
//@   hint after 0 "seen_directives.push(d.name.name);" :: [C03+C04+C05.dirs.h_pushed] proof { crate::lemma_names_push(seen0, seen_directives, d.name.name); }
//@   suffix [C03+C04+C05.dirs.h_exit] proof { reveal(crate::dirs_valid); }
//@ end

//@ canary
} // verus!
fn main() {}
