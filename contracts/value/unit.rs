//@ unit value primary=C03 props=C03,C04,C05,C08
// Unit value: crates/checker/src/common.rs::{check_value, is_value_compatible_type_def, get_variable_definition}
// (every literal / variable at an argument, input field or list item position, in operations and in schema directives)
// Oracle: GraphQL spec 5.6 Values of Correct Type with the input coercion rules of section 3 (fragment spec_value.rs):
//   non-null positions reject null; list positions take null, a list of valid items or ONE valid item; scalars follow
//   the literal coercion table (Int literal for Float/ID allowed); enum values must be members; input objects: every
//   field defined (5.6.2), required fields present (5.6.4), field values valid; variables defined (5.8.3) and their
//   usage allowed (5.8.5).
//  C03/C05 (sound): no diagnostic ==> value_ok(.., strict = false) [the spec's rule];
//  C04/C05 (complete): value_ok(.., strict = true) ==> no diagnostic [strict differs from the spec only on KF-C04-1].
#![feature(pattern, allocator_api)]
#![allow(unused)]
use vstd::prelude::*;
use vstd::std_specs::cmp::PartialEqSpec;
verus! {
//@ fragment checker_base.rs
//@ include strmodel.rs
//@ fragment typesys_contracts.rs
//@ fragment schema_view.rs
//@ fragment seenlist.rs
//@ fragment checker_spec.rs
//@ fragment spec_tycompat.rs
//@ fragment contract_tycompat.rs
//@   attr #[verifier::external_body]
//@ end

//@ contract graphql_type_system::r#type ::fn is_nonnull
//@   ret r
//@   ensures [C03+C04.value.is_nonnull] r == (self is NonNull)
//@ end

//@ fragment contract_convert_type.rs
//@   attr #[verifier::external_body]
//@ end

pub proof fn lemma_compat_ast<'a, S: crate::graphql_type_system::text::Text<'a>>(c: Type<S, Pos>, vt: AstType, loc: Type<S, Pos>)
    requires type_matches(c, vt),
    ensures are_types_compatible(c, loc) == ast_compat(vt, loc),
    decreases vt, loc
{
    broadcast use crate::text_model;
    crate::axiom_text_obeys::<S>();
    if let Type::NonNull(li) = loc {
        if let AstType::NonNull(vi) = vt { lemma_compat_ast(c->NonNull_0.inner, vi.r#type, li.inner); }
    } else if let AstType::NonNull(vi) = vt {
        lemma_compat_ast(c->NonNull_0.inner, vi.r#type, loc);
    } else if let Type::List(li) = loc {
        if let AstType::List(vi) = vt { lemma_compat_ast(c->List_0.inner, vi.r#type, li.inner); }
    } else if let AstType::List(_) = vt {
    } else {
    }
}
/// the strict rule implies the specification's rule (they differ only where the spec is MORE permissive)
pub proof fn lemma_usage_strict_implies_spec<S>(vd: VariableDefinition, loc: Type<S, Pos>)
    requires usage_allowed(vd, loc, true),
    ensures usage_allowed(vd, loc, false),
{
    // when loc is NonNull and the variable type is not, ast_compat(vt, loc) is false, so the strict premise is absurd
}

//@ contract nitrogql_checker::common ::fn get_variable_definition
//@   ret r
//@   ensures [C03+C04.value.getvar] match r { Some(d) => variables is Some && exists|i: int| crate::is_first_var(variables->Some_0.definitions@, variable.name@, i) && *d == #[trigger] variables->Some_0.definitions@[i], None => variables is None || forall|i: int| 0 <= i < variables->Some_0.definitions@.len() ==> (#[trigger] variables->Some_0.definitions@[i]).name.name@ != variable.name@ }
//@   prefix broadcast use crate::axiom_str_eq; proof { crate::axiom_str_obeys(); }
//@   closure 0 |variables: &'a VariablesDefinition<'src>| -> (o: Option<&'a VariableDefinition<'src>>) ;; ensures [C03+C04.value.getvar.cl0] match o { Some(d) => exists|i: int| crate::is_first_var(variables.definitions@, variable.name@, i) && *d == #[trigger] variables.definitions@[i], None => forall|i: int| 0 <= i < variables.definitions@.len() ==> (#[trigger] variables.definitions@[i]).name.name@ != variable.name@ }
//@   closure 1 |def: &&'a VariableDefinition<'src>| -> (b: bool) ;; ensures [C03+C04.value.getvar.cl1] b == ((**def).name.name@ == variable.name@)
//@   wrap 0 "variables .definitions .iter() .find(|def| def.name.name == variable.name)" :: [C03+C04.value.getvar.cl0#find] proof { let vs = variables.definitions@; let rem = vs.as_ref(); assert(rem.len() == vs.len()); assert(forall|i: int| 0 <= i < rem.len() ==> *(#[trigger] rem[i]) == vs[i]); if r__ is None { assert forall|i: int| 0 <= i < vs.len() implies (#[trigger] vs[i]).name.name@ != variable.name@ by { assert(*rem[i] == vs[i]); } } else { assert(exists|i: int| 0 <= i < rem.len() && rem[i] == r__->Some_0 && forall|j: int| 0 <= j < i ==> (*(#[trigger] rem[j])).name.name@ != variable.name@); let fi = choose|i: int| 0 <= i < rem.len() && rem[i] == r__->Some_0 && forall|j: int| 0 <= j < i ==> (*(#[trigger] rem[j])).name.name@ != variable.name@; assert(*rem[fi] == vs[fi]); assert(crate::is_first_var(vs, variable.name@, fi)) by { assert forall|k: int| 0 <= k < fi implies (#[trigger] vs[k]).name.name@ != variable.name@ by { assert(*rem[k] == vs[k]); } } } }
//@ end

/// strict ==> spec, for whole values (induction over the value, then the type)
//@ lemma [C03.value.strict_implies_spec] lemma_value_strict_implies_spec
pub proof fn lemma_value_strict_implies_spec<'src, S>(sch: &Schema<S, Pos>, vars: Option<&VariablesDefinition<'src>>, v: Value<'src>, t: Type<S, Pos>)
    requires value_ok(sch, vars, v, t, true),
    ensures value_ok(sch, vars, v, t, false),
    decreases v, 2nat, t
{
    if let Value::Variable(var) = v {
        let i = choose|i: int| is_first_var(vars->Some_0.definitions@, var.name@, i) && usage_allowed(#[trigger] vars->Some_0.definitions@[i], t, true);
        lemma_usage_strict_implies_spec(vars->Some_0.definitions@[i], t);
    } else {
        match t {
            Type::NonNull(inner) => { lemma_value_strict_implies_spec(sch, vars, v, inner.inner); },
            Type::List(inner) => match v {
                Value::NullValue(_) => {},
                Value::ListValue(l) => {
                    assert forall|i: int| 0 <= i < l.values@.len() implies value_ok(sch, vars, #[trigger] l.values@[i], inner.inner, false) by {
                        lemma_value_strict_implies_spec(sch, vars, l.values@[i], inner.inner);
                    }
                },
                _ => { lemma_value_strict_implies_spec(sch, vars, v, inner.inner); },
            },
            Type::Named(n) => { lemma_named_strict_implies_spec(sch, vars, v, schema_types(sch)[tv(n.name.inner)].inner); },
        }
    }
}
pub proof fn lemma_named_strict_implies_spec<'src, S>(sch: &Schema<S, Pos>, vars: Option<&VariablesDefinition<'src>>, v: Value<'src>, def: TypeDefinition<S, Pos>)
    requires named_ok(sch, vars, v, def, true),
    ensures named_ok(sch, vars, v, def, false),
    decreases v, 1nat
{
    if let TypeDefinition::InputObject(o) = def {
        if v is ObjectValue {
            assert forall|j: int| 0 <= j < o.fields@.len() implies field_ok(sch, vars, v, #[trigger] o.fields@[j], false) by {
                lemma_field_strict_implies_spec(sch, vars, v, o.fields@[j]);
            }
        }
    }
}
pub proof fn lemma_field_strict_implies_spec<'src, S>(sch: &Schema<S, Pos>, vars: Option<&VariablesDefinition<'src>>, v: Value<'src>, d: InputValue<S, Pos>)
    requires field_ok(sch, vars, v, d, true),
    ensures field_ok(sch, vars, v, d, false),
    decreases v, 0nat
{
    if v is ObjectValue {
        let sup = v->ObjectValue_0.fields@;
        if some_named(sup, tv(d.name.inner)) {
            assert forall|i: int| is_first_named(sup, tv(d.name.inner), i) implies value_ok(sch, vars, (#[trigger] sup[i]).1, d.r#type, false) by {
                lemma_value_strict_implies_spec(sch, vars, sup[i].1, d.r#type);
            }
        }
    }
}
pub open spec fn items_ok_upto<'src, S>(sch: &Schema<S, Pos>, vars: Option<&VariablesDefinition<'src>>, items: Seq<Value<'src>>, t: Type<S, Pos>, n: int) -> bool {
    forall|i: int| 0 <= i < n ==> value_ok(sch, vars, #[trigger] items[i], t, true)
}

/// ghost bookkeeping for `seen_fields`: exactly the indices of the supplied fields that are the FIRST field named like
/// one of the first n field definitions
pub open spec fn bound_ok<S>(bound: Set<int>, sup: Seq<(Ident, Value)>, defs: Seq<InputValue<S, Pos>>, n: int) -> bool {
    &&& forall|x: int| bound.contains(x) ==> 0 <= x < sup.len() && exists|j: int| 0 <= j < n && is_first_named(sup, tv((#[trigger] defs[j]).name.inner), x)
    &&& forall|j: int, x: int| 0 <= j < n && #[trigger] is_first_named(sup, tv(defs[j].name.inner), x) ==> bound.contains(x)
}
pub proof fn lemma_bound_insert<S>(bound: Set<int>, sup: Seq<(Ident, Value)>, defs: Seq<InputValue<S, Pos>>, n: int, x: int)
    requires bound_ok(bound, sup, defs, n), 0 <= n < defs.len(), nodup(argdef_names(defs)), is_first_named(sup, tv(defs[n].name.inner), x),
    ensures bound_ok(bound.insert(x), sup, defs, n + 1), !bound.contains(x), bound.insert(x).len() == bound.len() + 1,
{
    if bound.contains(x) {
        let j = choose|j: int| 0 <= j < n && is_first_named(sup, tv((#[trigger] defs[j]).name.inner), x);
        assert(argdef_names(defs)[j] == argdef_names(defs)[n]);
    }
    let b2 = bound.insert(x);
    assert forall|y: int| b2.contains(y) implies 0 <= y < sup.len() && exists|j: int| 0 <= j < n + 1 && is_first_named(sup, tv((#[trigger] defs[j]).name.inner), y) by {
        if y == x { assert(is_first_named(sup, tv(defs[n].name.inner), y)); }
        else {
            let j = choose|j: int| 0 <= j < n && is_first_named(sup, tv((#[trigger] defs[j]).name.inner), y);
            assert(is_first_named(sup, tv(defs[j].name.inner), y));
        }
    }
    assert forall|j: int, y: int| 0 <= j < n + 1 && #[trigger] is_first_named(sup, tv(defs[j].name.inner), y) implies b2.contains(y) by {
        if j == n { if y < x { assert(sup[y].0.name@ != tv(defs[n].name.inner)); } if x < y { assert(sup[x].0.name@ != tv(defs[n].name.inner)); } }
    }
}
pub proof fn lemma_bound_skip<S>(bound: Set<int>, sup: Seq<(Ident, Value)>, defs: Seq<InputValue<S, Pos>>, n: int)
    requires bound_ok(bound, sup, defs, n), 0 <= n < defs.len(), !some_named(sup, tv(defs[n].name.inner)),
    ensures bound_ok(bound, sup, defs, n + 1),
{
    assert forall|y: int| bound.contains(y) implies 0 <= y < sup.len() && exists|j: int| 0 <= j < n + 1 && is_first_named(sup, tv((#[trigger] defs[j]).name.inner), y) by {
        let j = choose|j: int| 0 <= j < n && is_first_named(sup, tv((#[trigger] defs[j]).name.inner), y);
        assert(is_first_named(sup, tv(defs[j].name.inner), y));
    }
    assert forall|j: int, y: int| 0 <= j < n + 1 && #[trigger] is_first_named(sup, tv(defs[j].name.inner), y) implies bound.contains(y) by {
        if j == n { assert(sup[y].0.name@ == tv(defs[n].name.inner)); }
    }
}
pub open spec fn fields_all_defined<S>(sup: Seq<(Ident, Value)>, defs: Seq<InputValue<S, Pos>>) -> bool {
    forall|i: int| 0 <= i < sup.len() ==> argdef_names(defs).contains((#[trigger] sup[i]).0.name@)
}
/// the counting argument behind `seen_fields < value.fields.len()`
pub proof fn lemma_bound_count<S>(bound: Set<int>, sup: Seq<(Ident, Value)>, defs: Seq<InputValue<S, Pos>>)
    requires bound_ok(bound, sup, defs, defs.len() as int),
    ensures (bound.len() >= sup.len()) <==> (nodup(sup_names(sup)) && fields_all_defined(sup, defs)),
{
    let full = vstd::set_lib::set_int_range(0, sup.len() as int);
    vstd::set_lib::lemma_int_range(0, sup.len() as int);
    assert(bound.subset_of(full));
    vstd::set_lib::lemma_len_subset(bound, full);
    if bound.len() >= sup.len() {
        vstd::set_lib::lemma_subset_equality(bound, full);
        assert forall|i: int| 0 <= i < sup.len() implies argdef_names(defs).contains((#[trigger] sup[i]).0.name@) by {
            assert(full.contains(i)); assert(bound.contains(i));
            let j = choose|j: int| 0 <= j < defs.len() && is_first_named(sup, tv((#[trigger] defs[j]).name.inner), i);
            assert(argdef_names(defs)[j] == sup[i].0.name@);
        }
        assert forall|x: int, y: int| 0 <= x < y < sup.len() implies sup_names(sup)[x] != sup_names(sup)[y] by {
            assert(full.contains(y)); assert(bound.contains(y));
            let j = choose|j: int| 0 <= j < defs.len() && is_first_named(sup, tv((#[trigger] defs[j]).name.inner), y);
            assert(sup[x].0.name@ != tv(defs[j].name.inner));
        }
    }
    if nodup(sup_names(sup)) && fields_all_defined(sup, defs) {
        assert forall|i: int| full.contains(i) implies bound.contains(i) by {
            assert(argdef_names(defs).contains(sup[i].0.name@));
            let j = choose|j: int| 0 <= j < argdef_names(defs).len() && argdef_names(defs)[j] == sup[i].0.name@;
            assert(is_first_named(sup, tv(defs[j].name.inner), i)) by {
                assert forall|k: int| 0 <= k < i implies (#[trigger] sup[k]).0.name@ != tv(defs[j].name.inner) by { assert(sup_names(sup)[k] != sup_names(sup)[i]); }
            }
        }
        assert(full.subset_of(bound));
        vstd::set_lib::lemma_len_subset(full, bound);
    }
}
pub open spec fn fields_ok_upto<'src, S>(sch: &Schema<S, Pos>, vars: Option<&VariablesDefinition<'src>>, v: Value<'src>, defs: Seq<InputValue<S, Pos>>, n: int) -> bool {
    forall|j: int| 0 <= j < n ==> field_ok(sch, vars, v, #[trigger] defs[j], true)
}
pub proof fn lemma_fields_step<'src, S>(sch: &Schema<S, Pos>, vars: Option<&VariablesDefinition<'src>>, v: Value<'src>, defs: Seq<InputValue<S, Pos>>, n: int)
    requires 0 <= n < defs.len(),
    ensures fields_ok_upto(sch, vars, v, defs, n + 1) == (fields_ok_upto(sch, vars, v, defs, n) && field_ok(sch, vars, v, defs[n], true)),
{
    if fields_ok_upto(sch, vars, v, defs, n + 1) { assert(field_ok(sch, vars, v, defs[n], true)); }
}

//@ contract nitrogql_checker::common ::fn is_value_compatible_type_def
//@   unexternal
//@   ret r
//@   requires [C03+C04+C05.value.named.pre_schema_wf] crate::schema_wf(definitions)
//@   requires [C03+C04+C05.value.named.pre_not_variable] !(value is Variable)
//@   requires [C03+C04+C05.value.named.pre_unique_fields] expected_type is InputObject ==> crate::nodup(crate::argdef_names(expected_type->InputObject_0.fields@))
//@   ensures [C03+C04+C05.value.named.frame] crate::extends_errs(old(result)@, final(result)@)
//@   ensures [C03+C04+C05.value.named.exact_strict] (r.0 && final(result)@.len() == old(result)@.len()) <==> crate::named_ok(definitions, variables, *value, *expected_type, true)
//@   decreases [C03+C04+C05.value.named.terminates] *value, 1nat
//@   prefix broadcast use crate::text_model; let ghost v0 = *value; let ghost len0 = result@.len(); proof { crate::axiom_text_obeys::<S>(); crate::axiom_text_obeys_str::<S>(); }
//@   loops 2
//@   closure 0 |v: &crate::graphql_type_system::definitions::EnumMember<S, Pos>| -> (b: bool) ;; ensures [C03+C04+C05.value.named.cl_enum] b == (crate::tv(v.name.inner) != enum_name@)
//@   closure 1 |p__: &&(crate::nitrogql_ast::base::Ident<'src>, Value<'src>)| -> (b: bool) ;; ensures [C03+C04+C05.value.named.cl_find] b == (crate::tv(expected_field.name.inner) == (**p__).0.name@)
//@   hint before 0 "let mut seen_fields = 0;" :: [C03+C04+C05.value.named.h_init] let ghost mut bound: Set<int> = Set::empty(); let ghost sup = value__obj.fields@; let ghost defs = object_def.fields@; proof { assert(v0 == Value::ObjectValue(*value__obj)); crate::axiom_vec_len_bound(&value__obj.fields); }
//@   loop 0 iter_name it
//@   loop 0 invariant [C03+C04+C05.value.fields.iter] it.seq().len() == defs.len() && 0 <= it.index@ <= it.seq().len() && (forall|i: int| 0 <= i < it.seq().len() ==> *it.seq()[i] == defs[i]) && defs == object_def.fields@ && sup == value__obj.fields@ && *value == Value::ObjectValue(*value__obj) && v0 == *value && sup.len() <= usize::MAX
//@   loop 0 invariant [C03+C04+C05.value.fields.frame] crate::extends_errs(old(result)@, result@) && len0 == old(result)@.len() && crate::schema_wf(definitions) && crate::nodup(crate::argdef_names(defs))
//@   loop 0 invariant [C03+C04+C05.value.fields.bound] crate::bound_ok(bound, sup, defs, it.index@ as int) && bound.len() == seen_fields && seen_fields <= it.index@
//@   loop 0 invariant [C03+C04+C05.value.fields.exact] (res && result@.len() == len0) <==> crate::fields_ok_upto(definitions, variables, v0, defs, it.index@ as int)
//@   loop 0 prefix broadcast use crate::text_model; broadcast use vstd::std_specs::vec::axiom_vec_index_decreases; let ghost mut n: int = 0; proof { n = it.index@ as int; crate::axiom_text_obeys::<S>(); crate::axiom_text_obeys_str::<S>(); crate::lemma_fields_step(definitions, variables, v0, defs, n); assert(*expected_field == defs[n]); }
//@   hint before 0 "match value_field {" :: [C03+C04+C05.value.named.h_find] let ghost name = crate::tv(expected_field.name.inner); let ghost rem = value__obj.fields@.as_ref(); let ghost mut fi: int = 0; proof { assert(rem.len() == sup.len()); assert(forall|i: int| 0 <= i < rem.len() ==> *(#[trigger] rem[i]) == sup[i]); if value_field is None { assert(!crate::some_named(sup, name)) by { assert forall|i: int| 0 <= i < sup.len() implies (#[trigger] sup[i]).0.name@ != name by { assert(*rem[i] == sup[i]); } } crate::lemma_bound_skip(bound, sup, defs, n); } else { assert(exists|i: int| 0 <= i < rem.len() && rem[i] == value_field->Some_0 && forall|j: int| 0 <= j < i ==> (*(#[trigger] rem[j])).0.name@ != name); fi = choose|i: int| 0 <= i < rem.len() && rem[i] == value_field->Some_0 && forall|j: int| 0 <= j < i ==> (*(#[trigger] rem[j])).0.name@ != name; assert(*rem[fi] == sup[fi]); assert(crate::is_first_named(sup, name, fi)) by { assert forall|k: int| 0 <= k < fi implies (#[trigger] sup[k]).0.name@ != name by { assert(*rem[k] == sup[k]); } } assert(crate::some_named(sup, name)); assert forall|i: int| crate::is_first_named(sup, name, i) implies i == fi by { if i < fi { assert(sup[i].0.name@ != name); } if fi < i { assert(sup[fi].0.name@ != name); } } crate::lemma_bound_insert(bound, sup, defs, n, fi); } }
//@   hint before 0 "check_value( definitions, variables, value, &expected_field.r#type, result, );" :: [C03+C04+C05.value.named.h_bound] proof { assert(*value == sup[fi].1); bound = bound.insert(fi); vstd::set_lib::lemma_int_range(0, sup.len() as int); assert(bound.subset_of(vstd::set_lib::set_int_range(0, sup.len() as int))); vstd::set_lib::lemma_len_subset(bound, vstd::set_lib::set_int_range(0, sup.len() as int)); assert(decreases_to!(v0 => v0->ObjectValue_0)); let ov = v0->ObjectValue_0; assert(ov.fields@ == sup); assert(0 <= fi < ov.fields@.len()); assert(ov.fields@[fi].1 == *value); assert(decreases_to!(ov => ov.fields)); assert(decreases_to!(ov.fields => ov.fields@[fi])); assert(decreases_to!(ov.fields@[fi] => ov.fields@[fi].1)); }
//@   hint before 0 "if seen_fields" :: [C03+C04+C05.value.named.h_count] proof { crate::lemma_bound_count(bound, sup, defs); }
//@   wrap 0 "scalar_def.name.inner_ref().as_ref()" as &str :: [C03+C04+C05.value.named.exact_strict#scalar] proof { assert(r__@ == crate::tv(scalar_def.name.inner)); reveal_strlit("Boolean"); reveal_strlit("Int"); reveal_strlit("Float"); reveal_strlit("String"); reveal_strlit("ID"); crate::axiom_str_ext(r__, "Boolean"); crate::axiom_str_ext(r__, "Int"); crate::axiom_str_ext(r__, "Float"); crate::axiom_str_ext(r__, "String"); crate::axiom_str_ext(r__, "ID"); }
//@   wrap 0 "enum_def.members.iter().all(|v| v.name != enum_name)" :: [C03+C04+C05.value.named.exact_strict#enum] proof { let ms = enum_def.members@; let rem = ms.as_ref(); assert(r__ == !(exists|k: int| 0 <= k < ms.len() && crate::tv((#[trigger] ms[k]).name.inner) == enum_name@)) by { if r__ { assert forall|k: int| 0 <= k < ms.len() implies crate::tv((#[trigger] ms[k]).name.inner) != enum_name@ by { assert(*rem[k] == ms[k]); } } else { let k = choose|k: int| 0 <= k < rem.len() && crate::tv((*(#[trigger] rem[k])).name.inner) == enum_name@; assert(*rem[k] == ms[k]); } } }
//@   loop 1 invariant [C03+C04+C05.value.extra.inv] res == false && result@.len() == len0 + (result@.len() - len0) && crate::extends_errs(old(result)@, result@)
//@ end
//@ fragment contract_check_value.rs
//@   unexternal
//@   ensures [C03+C05.value.sound] final(result)@.len() == old(result)@.len() ==> crate::value_valid_spec(definitions, variables, *value, *expected_type)
//@   ensures [C04+C05.value.complete] crate::value_valid(definitions, variables, *value, *expected_type) ==> final(result)@.len() == old(result)@.len()
//@   decreases [C03+C04+C05.value.terminates] *value, 2nat, *expected_type
//@   prefix broadcast use crate::text_model; proof { crate::axiom_text_obeys::<S>(); crate::axiom_text_obeys_str::<S>(); if crate::value_ok(definitions, variables, *value, *expected_type, true) { crate::lemma_value_strict_implies_spec(definitions, variables, *value, *expected_type); } }
//@   loops 2
//@   loop 0 invariant_except_break [C03+C04+C05.value.block.pre] result@ == old(result)@ && crate::schema_wf(definitions)
//@   loop 0 ensures [C03+C04+C05.value.block.frame] crate::extends_errs(old(result)@, result@)
//@   loop 0 ensures [C03+C04+C05.value.block.exact] (!is_mismatch && result@.len() == old(result)@.len()) <==> crate::value_ok(definitions, variables, *value, *expected_type, true)
//@   loop 0 prefix broadcast use crate::text_model; proof { crate::axiom_text_obeys::<S>(); crate::axiom_text_obeys_str::<S>(); }
//@   loop 1 iter_name it
//@   loop 1 invariant [C03+C04+C05.value.items.iter] it.seq().len() == inner.values@.len() && 0 <= it.index@ <= it.seq().len() && (forall|i: int| 0 <= i < it.seq().len() ==> *it.seq()[i] == inner.values@[i])
//@   loop 1 invariant [C03+C04+C05.value.items.frame] crate::extends_errs(old(result)@, result@) && crate::schema_wf(definitions) && *value == Value::ListValue(*inner) && *expected_type == Type::List(*expected_inner)
//@   loop 1 invariant [C03+C04+C05.value.items.exact] (result@.len() == old(result)@.len()) <==> crate::items_ok_upto(definitions, variables, inner.values@, expected_inner.inner, it.index@ as int)
//@   loop 1 prefix broadcast use vstd::std_specs::vec::axiom_vec_index_decreases; let ghost len_a = result@.len(); proof { assert(*elem == inner.values@[it.index@ as int]); assert(value->ListValue_0 == *inner); assert(decreases_to!(*value => value->ListValue_0)); assert(decreases_to!(*inner => inner.values)); assert(decreases_to!(inner.values => inner.values@[it.index@ as int])); }
//@   loop 1 suffix [C03+C04+C05.value.items.exact#step] proof { let n = it.index@ as int; if len_a == old(result)@.len() { assert((result@.len() == len_a) <==> crate::value_ok(definitions, variables, inner.values@[n], expected_inner.inner, true)); } else { } }
//@   wrap 0 "convert_type(&v_def.r#type)" :: [C03+C04+C05.value.block.exact#var] proof { crate::lemma_compat_ast(r__, v_def.r#type, *expected_type); let vs = variables->Some_0.definitions@; let i0 = choose|i: int| crate::is_first_var(vs, variable.name@, i) && *v_def == #[trigger] vs[i]; assert(crate::is_first_var(vs, variable.name@, i0)); assert forall|i: int| crate::is_first_var(vs, variable.name@, i) implies i == i0 by { if i < i0 { assert(vs[i].name.name@ != variable.name@); } if i0 < i { assert(vs[i0].name.name@ != variable.name@); } } }
//@ end

//@ canary
} // verus!
fn main() {}
