//@ unit value primary=C03 props=C03,C04,C05,C08 disabled
// Unit value: crates/checker/src/common.rs::{check_value, is_value_compatible_type_def, get_variable_definition}
// (every literal / variable at an argument, input field or list item position, in operations and in schema directives)
// Oracle: GraphQL spec 5.6 Values of Correct Type with the input coercion rules of section 3 (fragment spec_value.rs):
//   non-null positions reject null; list positions take null, a list of valid items or ONE valid item; scalars follow
//   the literal coercion table (Int literal for Float/ID allowed); enum values must be members; input objects: every
//   field defined (5.6.2), required fields present (5.6.4), field values valid; variables defined (5.8.3) and their
//   usage allowed (5.8.5).
//  C03/C05 (sound): no diagnostic ==> value_ok(.., strict = false) [the spec's rule];
//  C04/C05 (complete): value_ok(.., strict = true) ==> no diagnostic [strict differs from the spec only on KF-C04-1].
#![feature(pattern, allocator_api)]
#![allow(unused)]
use vstd::prelude::*;
use vstd::std_specs::cmp::PartialEqSpec;
verus! {
//@ fragment checker_base.rs
//@ include strmodel.rs
//@ fragment typesys_contracts.rs
//@ fragment schema_view.rs
//@ fragment seenlist.rs
//@ fragment checker_spec.rs
//@ fragment spec_tycompat.rs
//@ fragment contract_tycompat.rs
//@   attr #[verifier::external_body]
//@ end

//@ contract graphql_type_system::r#type ::fn is_nonnull
//@   ret r
//@   ensures [C03+C04.value.is_nonnull] r == (self is NonNull)
//@ end

/// structural correspondence between an AST type reference and its type-system form (semantics::convert_type)
pub open spec fn type_matches<S>(t: Type<S, Pos>, a: AstType) -> bool
    decreases a
{
    match a {
        AstType::Named(n) => t is Named && tv(t->Named_0.name.inner) == n.name.name@,
        AstType::List(l) => t is List && type_matches(t->List_0.inner, l.r#type),
        AstType::NonNull(l) => t is NonNull && type_matches(t->NonNull_0.inner, l.r#type),
    }
}
//@ contract nitrogql_semantics::type_system_utils ::fn convert_type
//@   attr #[verifier::external_body]
//@   ret r
//@   ensures [assumed.convert_type.matches] crate::type_matches(r, *ty)
//@ end

pub proof fn lemma_compat_ast<'a, S: crate::graphql_type_system::text::Text<'a>>(c: Type<S, Pos>, vt: AstType, loc: Type<S, Pos>)
    requires type_matches(c, vt),
    ensures are_types_compatible(c, loc) == ast_compat(vt, loc),
    decreases vt, loc
{
    broadcast use crate::text_model;
    crate::axiom_text_obeys::<S>();
    if let Type::NonNull(li) = loc {
        if let AstType::NonNull(vi) = vt { lemma_compat_ast(c->NonNull_0.inner, vi.r#type, li.inner); }
    } else if let AstType::NonNull(vi) = vt {
        lemma_compat_ast(c->NonNull_0.inner, vi.r#type, loc);
    } else if let Type::List(li) = loc {
        if let AstType::List(vi) = vt { lemma_compat_ast(c->List_0.inner, vi.r#type, li.inner); }
    } else if let AstType::List(_) = vt {
    } else {
    }
}
/// the strict rule implies the specification's rule (they differ only where the spec is MORE permissive)
pub proof fn lemma_usage_strict_implies_spec<S>(vd: VariableDefinition, loc: Type<S, Pos>)
    requires usage_allowed(vd, loc, true),
    ensures usage_allowed(vd, loc, false),
{
    // when loc is NonNull and the variable type is not, ast_compat(vt, loc) is false, so the strict premise is absurd
}

//@ contract nitrogql_checker::common ::fn get_variable_definition
//@   ret r
//@   ensures [C03+C04.value.getvar] match r { Some(d) => variables is Some && exists|i: int| crate::is_first_var(variables->Some_0.definitions@, variable.name@, i) && *d == #[trigger] variables->Some_0.definitions@[i], None => variables is None || forall|i: int| 0 <= i < variables->Some_0.definitions@.len() ==> (#[trigger] variables->Some_0.definitions@[i]).name.name@ != variable.name@ }
//@   prefix broadcast use crate::axiom_str_eq; proof { crate::axiom_str_obeys(); }
//@   closure 0 |variables: &'a VariablesDefinition<'src>| -> (o: Option<&'a VariableDefinition<'src>>) ;; ensures [C03+C04.value.getvar.cl0] match o { Some(d) => exists|i: int| crate::is_first_var(variables.definitions@, variable.name@, i) && *d == #[trigger] variables.definitions@[i], None => forall|i: int| 0 <= i < variables.definitions@.len() ==> (#[trigger] variables.definitions@[i]).name.name@ != variable.name@ }
//@   closure 1 |def: &&'a VariableDefinition<'src>| -> (b: bool) ;; ensures [C03+C04.value.getvar.cl1] b == ((**def).name.name@ == variable.name@)
//@   wrap 0 "variables .definitions .iter() .find(|def| def.name.name == variable.name)" :: [C03+C04.value.getvar.cl0#find] proof { let vs = variables.definitions@; let rem = vs.as_ref(); assert(rem.len() == vs.len()); assert(forall|i: int| 0 <= i < rem.len() ==> *(#[trigger] rem[i]) == vs[i]); if r__ is None { assert forall|i: int| 0 <= i < vs.len() implies (#[trigger] vs[i]).name.name@ != variable.name@ by { assert(*rem[i] == vs[i]); } } else { assert(exists|i: int| 0 <= i < rem.len() && rem[i] == r__->Some_0 && forall|j: int| 0 <= j < i ==> (*(#[trigger] rem[j])).name.name@ != variable.name@); let fi = choose|i: int| 0 <= i < rem.len() && rem[i] == r__->Some_0 && forall|j: int| 0 <= j < i ==> (*(#[trigger] rem[j])).name.name@ != variable.name@; assert(*rem[fi] == vs[fi]); assert(crate::is_first_var(vs, variable.name@, fi)) by { assert forall|k: int| 0 <= k < fi implies (#[trigger] vs[k]).name.name@ != variable.name@ by { assert(*rem[k] == vs[k]); } } } }
//@ end

/// strict ==> spec, for whole values (induction over the value, then the type)
pub proof fn lemma_value_strict_implies_spec<'src, S>(sch: &Schema<S, Pos>, vars: Option<&VariablesDefinition<'src>>, v: Value<'src>, t: Type<S, Pos>)
    requires value_ok(sch, vars, v, t, true),
    ensures value_ok(sch, vars, v, t, false),
    decreases v, 2nat, t
{
    if let Value::Variable(var) = v {
        let i = choose|i: int| is_first_var(vars->Some_0.definitions@, var.name@, i) && usage_allowed(#[trigger] vars->Some_0.definitions@[i], t, true);
        lemma_usage_strict_implies_spec(vars->Some_0.definitions@[i], t);
    } else {
        match t {
            Type::NonNull(inner) => { lemma_value_strict_implies_spec(sch, vars, v, inner.inner); },
            Type::List(inner) => match v {
                Value::NullValue(_) => {},
                Value::ListValue(l) => {
                    assert forall|i: int| 0 <= i < l.values@.len() implies value_ok(sch, vars, #[trigger] l.values@[i], inner.inner, false) by {
                        lemma_value_strict_implies_spec(sch, vars, l.values@[i], inner.inner);
                    }
                },
                _ => { lemma_value_strict_implies_spec(sch, vars, v, inner.inner); },
            },
            Type::Named(n) => { lemma_named_strict_implies_spec(sch, vars, v, schema_types(sch)[tv(n.name.inner)].inner); },
        }
    }
}
pub proof fn lemma_named_strict_implies_spec<'src, S>(sch: &Schema<S, Pos>, vars: Option<&VariablesDefinition<'src>>, v: Value<'src>, def: TypeDefinition<S, Pos>)
    requires named_ok(sch, vars, v, def, true),
    ensures named_ok(sch, vars, v, def, false),
    decreases v, 1nat
{
    if let TypeDefinition::InputObject(o) = def {
        if v is ObjectValue {
            assert forall|j: int| 0 <= j < o.fields@.len() implies field_ok(sch, vars, v, #[trigger] o.fields@[j], false) by {
                lemma_field_strict_implies_spec(sch, vars, v, o.fields@[j]);
            }
        }
    }
}
pub proof fn lemma_field_strict_implies_spec<'src, S>(sch: &Schema<S, Pos>, vars: Option<&VariablesDefinition<'src>>, v: Value<'src>, d: InputValue<S, Pos>)
    requires field_ok(sch, vars, v, d, true),
    ensures field_ok(sch, vars, v, d, false),
    decreases v, 0nat
{
    if v is ObjectValue {
        let sup = v->ObjectValue_0.fields@;
        if some_named(sup, tv(d.name.inner)) {
            assert forall|i: int| is_first_named(sup, tv(d.name.inner), i) implies value_ok(sch, vars, (#[trigger] sup[i]).1, d.r#type, false) by {
                lemma_value_strict_implies_spec(sch, vars, sup[i].1, d.r#type);
            }
        }
    }
}
pub open spec fn items_ok_upto<'src, S>(sch: &Schema<S, Pos>, vars: Option<&VariablesDefinition<'src>>, items: Seq<Value<'src>>, t: Type<S, Pos>, n: int) -> bool {
    forall|i: int| 0 <= i < n ==> value_ok(sch, vars, #[trigger] items[i], t, true)
}

//@ contract nitrogql_checker::common ::fn is_value_compatible_type_def
//@   attr #[verifier::external_body]
//@   ret r
//@   requires [C03+C04+C05.value.named.pre_schema_wf] crate::schema_wf(definitions)
//@   requires [C03+C04+C05.value.named.pre_not_variable] !(value is Variable)
//@   ensures [C03+C04+C05.value.named.frame] crate::extends_errs(old(result)@, final(result)@)
//@   ensures [C03+C04+C05.value.named.exact_strict] (r.0 && final(result)@.len() == old(result)@.len()) <==> crate::named_ok(definitions, variables, *value, *expected_type, true)
//@   decreases [C03+C04+C05.value.named.terminates] *value, 1nat
//@ end
//@ contract nitrogql_checker::common ::fn check_value
//@   unexternal
//@   requires [C03+C04+C05.value.pre_schema_wf] crate::schema_wf(definitions)
//@   ensures [C03+C04+C05.value.frame] crate::extends_errs(old(result)@, final(result)@)
//@   ensures [C03+C04+C05.value.exact_strict] (final(result)@.len() == old(result)@.len()) <==> crate::value_ok(definitions, variables, *value, *expected_type, true)
//@   ensures [C03+C05.value.sound] final(result)@.len() == old(result)@.len() ==> crate::value_ok(definitions, variables, *value, *expected_type, false)
//@   ensures [C04+C05.value.complete] crate::value_ok(definitions, variables, *value, *expected_type, true) ==> final(result)@.len() == old(result)@.len()
//@   decreases [C03+C04+C05.value.terminates] *value, 2nat, *expected_type
//@   prefix broadcast use crate::text_model; proof { crate::axiom_text_obeys::<S>(); crate::axiom_text_obeys_str::<S>(); if crate::value_ok(definitions, variables, *value, *expected_type, true) { crate::lemma_value_strict_implies_spec(definitions, variables, *value, *expected_type); } }
//@   loops 2
//@   loop 0 invariant_except_break [C03+C04+C05.value.block.pre] result@ == old(result)@ && crate::schema_wf(definitions)
//@   loop 0 ensures [C03+C04+C05.value.block.frame] crate::extends_errs(old(result)@, result@)
//@   loop 0 ensures [C03+C04+C05.value.block.exact] (!is_mismatch && result@.len() == old(result)@.len()) <==> crate::value_ok(definitions, variables, *value, *expected_type, true)
//@   loop 0 prefix broadcast use crate::text_model; proof { crate::axiom_text_obeys::<S>(); crate::axiom_text_obeys_str::<S>(); }
//@   loop 1 iter_name it
//@   loop 1 invariant [C03+C04+C05.value.items.iter] it.seq().len() == inner.values@.len() && 0 <= it.index@ <= it.seq().len() && (forall|i: int| 0 <= i < it.seq().len() ==> *it.seq()[i] == inner.values@[i])
//@   loop 1 invariant [C03+C04+C05.value.items.frame] crate::extends_errs(old(result)@, result@) && crate::schema_wf(definitions) && *value == Value::ListValue(*inner) && *expected_type == Type::List(*expected_inner)
//@   loop 1 invariant [C03+C04+C05.value.items.exact] (result@.len() == old(result)@.len()) <==> crate::items_ok_upto(definitions, variables, inner.values@, expected_inner.inner, it.index@ as int)
//@   loop 1 prefix broadcast use vstd::std_specs::vec::axiom_vec_index_decreases; let ghost len_a = result@.len(); proof { assert(*elem == inner.values@[it.index@ as int]); assert(value->ListValue_0 == *inner); assert(decreases_to!(*value => value->ListValue_0)); assert(decreases_to!(*inner => inner.values)); assert(decreases_to!(inner.values => inner.values@[it.index@ as int])); }
//@   loop 1 suffix [C03+C04+C05.value.items.exact#step] proof { let n = it.index@ as int; if len_a == old(result)@.len() { assert((result@.len() == len_a) <==> crate::value_ok(definitions, variables, inner.values@[n], expected_inner.inner, true)); } else { } }
//@   wrap 0 "convert_type(&v_def.r#type)" :: [C03+C04+C05.value.block.exact#var] proof { crate::lemma_compat_ast(r__, v_def.r#type, *expected_type); let vs = variables->Some_0.definitions@; let i0 = choose|i: int| crate::is_first_var(vs, variable.name@, i) && *v_def == #[trigger] vs[i]; assert(crate::is_first_var(vs, variable.name@, i0)); assert forall|i: int| crate::is_first_var(vs, variable.name@, i) implies i == i0 by { if i < i0 { assert(vs[i].name.name@ != variable.name@); } if i0 < i { assert(vs[i0].name.name@ != variable.name@); } } }
//@ end

//@ canary
} // verus!
fn main() {}
