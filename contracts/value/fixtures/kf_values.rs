// Demonstration for the defects found by /verif unit `value` (properties C03 / C04) in check_value /
// is_value_compatible_type_def.
use std::borrow::Cow;

use graphql_builtins::generate_builtins;
use graphql_type_system::Schema;
use nitrogql_ast::base::Pos;
use nitrogql_checker::{OperationCheckContext, check_operation_document};
use nitrogql_parser::{parse_operation_document, parse_type_system_document};
use nitrogql_semantics::{ast_to_type_system, resolve_operation_extensions, resolve_schema_extensions};

const SCHEMA: &str = "
    input Point { x: Int, y: Int }
    type Query {
        list(xs: [Int]): Int
        float(f: Float): Int
        id(id: ID): Int
        point(p: Point): Int
        int(i: Int): Int
    }
";

fn errors_of(operation: &str) -> Vec<String> {
    let mut doc = parse_type_system_document(SCHEMA).unwrap();
    doc.extend(generate_builtins());
    let doc = resolve_schema_extensions(doc).unwrap();
    let schema: Schema<Cow<'_, str>, Pos> = ast_to_type_system(&doc);
    let op = parse_operation_document(operation).unwrap();
    let (op, _) = resolve_operation_extensions(op).unwrap();
    let context = OperationCheckContext::new(&schema);
    check_operation_document(&op, &context).into_iter().map(|e| format!("{:?}", e.message)).collect()
}

// F1a (C04): `null` is a valid value for a nullable list argument (it is accepted for every nullable named type).
#[test]
fn null_for_nullable_list_is_valid() {
    assert!(errors_of("query { int(i: null) }").is_empty());
    let e = errors_of("query { list(xs: null) }");
    assert!(e.is_empty(), "{:?}", e);
}
// F1b (C04): spec 3.11 List input coercion: a single value is coerced to a list of one item.
#[test]
fn single_value_coerces_to_list() {
    let e = errors_of("query { list(xs: 1) }");
    assert!(e.is_empty(), "{:?}", e);
    // ... and the item is still type checked
    assert!(!errors_of("query { list(xs: \"a\") }").is_empty());
}
// F2 (C04): spec 3.5.2 / 3.5.5: an Int literal is valid input for Float and for ID.
#[test]
fn int_literal_for_float_and_id() {
    let e = errors_of("query { float(f: 1) }");
    assert!(e.is_empty(), "float: {:?}", e);
    let e = errors_of("query { id(id: 1) }");
    assert!(e.is_empty(), "id: {:?}", e);
}
// F3 (C03): spec 5.6.2 Input Object Field Names: a field that the input type does not define must be reported.
// It is when no optional field is omitted ...
#[test]
fn unknown_input_field_is_reported() {
    assert!(!errors_of("query { point(p: { x: 1, y: 2, z: 3 }) }").is_empty());
    // ... but not when the literal omits as many optional fields as it adds unknown ones
    let e = errors_of("query { point(p: { z: 3 }) }");
    assert!(!e.is_empty(), "unknown input field `z` accepted");
}
