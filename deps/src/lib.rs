// deps-only crate: third-party crates built with Verus' toolchain so single-file verus can --extern them
