use vstd::prelude::*;
use std::collections::HashMap;
verus! {

#[verifier::external_body]
pub struct Task { x: *mut u8 }

/// Set of tasks.
pub struct Tasks {
    pub next_task_id: usize,
    pub tasks: HashMap<usize, Task>,
}

impl Tasks {
    pub open spec fn view(&self) -> Map<usize, Task> { self.tasks@ }
    pub open spec fn wf(&self) -> bool {
        &&& self.next_task_id >= 1
        &&& forall|k: usize| self.tasks@.contains_key(k) ==> 1 <= k < self.next_task_id
    }

    /// Creates a new set of tasks.
    pub fn new() -> (r: Self)
        ensures r.wf(), r@ == Map::<usize, Task>::empty()
    {
        Self {
            next_task_id: 1,
            tasks: HashMap::new(),
        }
    }

    /// Add a new task.
    pub fn add_task(&mut self, task: Task) -> (task_id: usize)
        requires old(self).wf(), old(self).next_task_id < usize::MAX
        ensures final(self).wf(), task_id != 0, !old(self)@.contains_key(task_id),
            final(self)@ == old(self)@.insert(task_id, task),
    {
        let task_id = self.next_task_id;
        self.next_task_id += 1;
        self.tasks.insert(task_id, task);
        task_id
    }

    /// Get a task.
    pub fn get_task(&self, task_id: usize) -> (r: Option<&Task>)
        ensures r.is_some() == self@.contains_key(task_id),
            r.is_some() ==> *r.unwrap() == self@[task_id]
    {
        self.tasks.get(&task_id)
    }

    /// Remove a task.
    pub fn remove_task(&mut self, task_id: usize) -> (r: Option<Task>)
        requires old(self).wf()
        ensures final(self).wf(), final(self)@ == old(self)@.remove(task_id),
            r.is_some() == old(self)@.contains_key(task_id)
    {
        self.tasks.remove(&task_id)
    }
}

} // verus!
fn main() {}
