use vstd::prelude::*;
verus! {
pub assume_specification<T, F: FnOnce(T) -> bool> [Option::<T>::is_some_and] (o: Option<T>, f: F) -> (r: bool)
    ensures
        o is None ==> !r,
        o is Some ==> f.ensures((o->0,), r);
fn h(x: Option<u8>) -> (r: bool) 
   ensures r == (x is Some && x->0 > 3)
{ x.is_some_and(|k: u8| -> (b: bool) ensures b == (k > 3) { k > 3 }) }
fn h2(x: Option<u8>) -> (r: bool) 
   ensures r == (x is Some && x->0 > 3)
{ x.is_some_and(|k| k > 3) }
} // verus!
fn main() {}
