#![allow(unused)]
use vstd::prelude::*;
use std::fmt::Display;
use std::ops::Deref;
use std::cell::Cell;
verus! {

// ===== base.rs =====



/// Position in source file.
#[derive(Copy, Clone, Hash, PartialEq, Eq)]
pub struct Pos {
    /// 0-based line
    pub line: usize,
    /// 0-base column
    pub column: usize,
    /// file (specified by index)
    pub file: usize,
    /// Flag that indicates that this Pos is not from parsed document, but is a built-in structure.
    pub builtin: bool,
}

impl Pos {
    /// Generates a non-built-in Pos.
    pub fn new(line: usize, column: usize) -> Self {
        Pos {
            line,
            column,
            file: get_current_file_of_pos(),
            builtin: false,
        }
    }

    /// Generates a built-in Pos.
    pub fn builtin() -> Self {
        Pos {
            line: 0,
            column: 0,
            file: 0,
            builtin: true,
        }
    }
}

impl Default for Pos {
    fn default() -> Self {
        Self::builtin()
    }
}

impl Ord for Pos {
    fn cmp(&self, other: &Self) -> std::cmp::Ordering {
        self.line
            .cmp(&other.line)
            .then(self.column.cmp(&other.column))
    }
}

impl PartialOrd for Pos {
    fn partial_cmp(&self, other: &Self) -> Option<std::cmp::Ordering> {
        Some(self.cmp(other))
    }
}

/// Knows its start position.
pub trait HasPos {
    fn position(&self) -> &Pos;
    fn name(&self) -> Option<&str>;
}

/// Knows its start and content.
pub trait HasSpan {
    fn position(&self) -> &Pos;
    fn name(&self) -> &str;
}

impl<T: HasSpan> HasPos for T {
    fn position(&self) -> &Pos {
        self.position()
    }
    fn name(&self) -> Option<&str> {
        Some(self.name())
    }
}

/// Carrier of name and pos
pub struct NamePos<'a> {
    pub name: Option<&'a str>,
    pub pos: Pos,
}

impl HasPos for NamePos<'_> {
    fn name(&self) -> Option<&str> {
        self.name
    }
    fn position(&self) -> &Pos {
        &self.pos
    }
}

/// Punctuation token.
#[derive(Copy, Clone)]
pub struct Punc<'a> {
    pub position: Pos,
    pub token: &'a str,
}

impl HasPos for Punc<'_> {
    fn name(&self) -> Option<&str> {
        None
    }
    fn position(&self) -> &Pos {
        &self.position
    }
}

/// Keyword token.
#[derive(Copy, Clone, Hash, PartialEq, Eq)]
pub struct Keyword<'a> {
    pub name: &'a str,
    pub position: Pos,
}

impl HasPos for Keyword<'_> {
    fn position(&self) -> &Pos {
        &self.position
    }
    fn name(&self) -> Option<&str> {
        Some(self.name)
    }
}

/// identifier token.
#[derive(Copy, Clone, Hash, PartialEq, Eq)]
pub struct Ident<'a> {
    pub name: &'a str,
    pub position: Pos,
}

impl HasPos for Ident<'_> {
    fn position(&self) -> &Pos {
        &self.position
    }
    fn name(&self) -> Option<&str> {
        Some(self.name)
    }
}

#[verifier::external]
impl Display for Ident<'_> {
    fn fmt(&self, f: &mut std::fmt::Formatter<'_>) -> std::fmt::Result {
        write!(f, "{}", self.name)
    }
}

// ===== current_file.rs =====

#[verifier::external]
thread_local! {
    /// Current file to be used when generating Pos.
    static CURRENT_FILE_OF_POS: Cell<usize> = const { Cell::new(0) };
}

pub fn get_current_file_of_pos() -> usize {
    CURRENT_FILE_OF_POS.with(|v| v.get())
}

/// Set current file number to be used when generating Pos.
pub fn set_current_file_of_pos(file: usize) {
    CURRENT_FILE_OF_POS.with(|cell| cell.set(file));
}

// ===== directive.rs =====

/// One application of a directive.
#[derive(Clone)]
pub struct Directive<'a> {
    pub position: Pos,
    /// Name of directive (does not include '@')
    pub name: Ident<'a>,
    pub arguments: Option<Arguments<'a>>,
}

impl HasPos for Directive<'_> {
    fn name(&self) -> Option<&str> {
        Some(self.name.name)
    }
    fn position(&self) -> &Pos {
        &self.position
    }
}

// ===== value.rs =====



/// A GraphQL Value.
#[derive(Clone)]
pub enum Value<'a> {
    Variable(Variable<'a>),
    IntValue(IntValue<'a>),
    FloatValue(FloatValue<'a>),
    StringValue(StringValue),
    BooleanValue(BooleanValue<'a>),
    NullValue(NullValue<'a>),
    EnumValue(EnumValue<'a>),
    ListValue(ListValue<'a>),
    ObjectValue(ObjectValue<'a>),
}

impl Value<'_> {
    pub fn is_null(&self) -> bool {
        matches!(self, Value::NullValue(_))
    }
    pub fn as_string(&self) -> Option<&StringValue> {
        match self {
            Value::StringValue(s) => Some(s),
            _ => None,
        }
    }
}

impl HasPos for Value<'_> {
    fn name(&self) -> Option<&str> {
        match self {
            Value::Variable(v) => Some(v.name),
            Value::EnumValue(v) => Some(v.value),
            _ => None,
        }
    }
    fn position(&self) -> &Pos {
        match self {
            Value::Variable(v) => v.position(),
            Value::BooleanValue(v) => &v.position,
            Value::IntValue(v) => &v.position,
            Value::FloatValue(v) => &v.position,
            Value::StringValue(v) => &v.position,
            Value::NullValue(v) => &v.position,
            Value::EnumValue(v) => &v.position,
            Value::ListValue(v) => &v.position,
            Value::ObjectValue(v) => &v.position,
        }
    }
}

#[verifier::external]
impl Display for Value<'_> {
    fn fmt(&self, f: &mut std::fmt::Formatter<'_>) -> std::fmt::Result {
        match self {
            Value::BooleanValue(b) => {
                if b.value {
                    write!(f, "true")
                } else {
                    write!(f, "false")
                }
            }
            Value::IntValue(i) => write!(f, "{}", i.value),
            Value::FloatValue(i) => write!(f, "{}", i.value),
            // TODO: escaping not implemented for ease
            Value::StringValue(i) => write!(f, "\"{}\"", i.value),
            Value::EnumValue(i) => write!(f, "{}", i.value),
            Value::NullValue(_) => write!(f, "null"),
            Value::Variable(v) => write!(f, "${}", v.name),
            Value::ListValue(l) => {
                write!(f, "[")?;
                for (idx, v) in l.values.iter().enumerate() {
                    if idx > 0 {
                        write!(f, ",")?;
                    }
                    write!(f, "{v}")?;
                }
                write!(f, "]")
            }
            Value::ObjectValue(l) => {
                write!(f, "{{")?;
                for (idx, (key, value)) in l.fields.iter().enumerate() {
                    if idx > 0 {
                        write!(f, ",")?;
                    }
                    write!(f, "{}: {}", key.name, value)?;
                }
                write!(f, "}}")
            }
        }
    }
}
#[derive(Copy, Clone)]
pub struct IntValue<'a> {
    pub position: Pos,
    pub value: &'a str,
}
#[derive(Copy, Clone)]
pub struct FloatValue<'a> {
    pub position: Pos,
    pub value: &'a str,
}
#[derive(Clone)]
pub struct StringValue {
    pub position: Pos,
    /// Parsed value of string literal
    pub value: String,
}

impl Deref for StringValue {
    type Target = str;
    fn deref(&self) -> &Self::Target {
        &self.value
    }
}
#[derive(Copy, Clone)]
pub struct BooleanValue<'a> {
    pub position: Pos,
    pub keyword: &'a str,
    pub value: bool,
}
#[derive(Copy, Clone)]
pub struct NullValue<'a> {
    pub position: Pos,
    pub keyword: &'a str,
}
#[derive(Copy, Clone)]
pub struct EnumValue<'a> {
    pub position: Pos,
    pub value: &'a str,
}
#[derive(Clone)]
pub struct ListValue<'a> {
    pub position: Pos,
    pub values: Vec<Value<'a>>,
}
#[derive(Clone)]
pub struct ObjectValue<'a> {
    pub position: Pos,
    pub fields: Vec<(Ident<'a>, Value<'a>)>,
}
#[derive(Clone)]
pub struct Arguments<'a> {
    pub position: Pos,
    pub arguments: Vec<(Ident<'a>, Value<'a>)>,
}

impl<'a> IntoIterator for Arguments<'a> {
    type Item = (Ident<'a>, Value<'a>);
    type IntoIter = std::vec::IntoIter<Self::Item>;
    fn into_iter(self) -> Self::IntoIter {
        self.arguments.into_iter()
    }
}

impl<'a, 'b> IntoIterator for &'b Arguments<'a> {
    type Item = &'b (Ident<'a>, Value<'a>);
    type IntoIter = std::slice::Iter<'b, (Ident<'a>, Value<'a>)>;
    fn into_iter(self) -> Self::IntoIter {
        self.arguments.iter()
    }
}

// ===== variable.rs =====

/// Variable token.
#[derive(Copy, Clone)]
pub struct Variable<'a> {
    /// Variable name that does not include '$'
    pub name: &'a str,
    /// Position of '$'
    pub position: Pos,
}

impl HasPos for Variable<'_> {
    fn position(&self) -> &Pos {
        &self.position
    }
    fn name(&self) -> Option<&str> {
        Some(self.name)
    }
}
#[derive(Clone)]
pub struct VariablesDefinition<'a> {
    pub position: Pos,
    pub definitions: Vec<VariableDefinition<'a>>,
}
#[derive(Clone)]
pub struct VariableDefinition<'a> {
    pub pos: Pos,
    pub name: Variable<'a>,
    pub r#type: Type<'a>,
    pub default_value: Option<Value<'a>>,
    pub directives: Vec<Directive<'a>>,
}

// ===== type.rs =====
#[derive(Clone)]
pub enum Type<'a> {
    Named(NamedType<'a>),
    NonNull(Box<NonNullType<'a>>),
    List(Box<ListType<'a>>),
}

impl HasPos for Type<'_> {
    fn name(&self) -> Option<&str> {
        match self {
            Type::Named(name) => Some(name.name.name),
            Type::NonNull(_) => None,
            Type::List(_) => None,
        }
    }
    fn position(&self) -> &Pos {
        match self {
            Type::Named(name) => name.name.position(),
            Type::NonNull(non_null) => non_null.r#type.position(),
            Type::List(list) => &list.position,
        }
    }
}

impl Type<'_> {
    /// Returns a reference to the unwrapped type of self.
    pub fn unwrapped_type(&self) -> &NamedType {
        match self {
            Type::Named(name) => name,
            Type::NonNull(inner) => inner.r#type.unwrapped_type(),
            Type::List(inner) => inner.r#type.unwrapped_type(),
        }
    }
    /// Checks whether given type is the same type (invariant) as self.  
    pub fn is_same(&self, other: &Type) -> bool {
        match (self, other) {
            (Type::Named(self_name), Type::Named(other_name)) => {
                self_name.name.name == other_name.name.name
            }
            (Type::NonNull(self_inner), Type::NonNull(other_inner)) => {
                (self_inner.r#type).is_same(&other_inner.r#type)
            }
            (Type::List(self_inner), Type::List(other_inner)) => {
                self_inner.r#type.is_same(&other_inner.r#type)
            }
            _ => false,
        }
    }
    /// Returns if self is a non-nullable type.
    pub fn is_nonnull(&self) -> bool {
        matches!(self, Type::NonNull(_))
    }
}

#[verifier::external]
impl Display for Type<'_> {
    fn fmt(&self, f: &mut std::fmt::Formatter<'_>) -> std::fmt::Result {
        match self {
            Type::NonNull(inner) => write!(f, "{}!", &inner.r#type),
            Type::List(inner) => write!(f, "[{}]", &inner.r#type),
            Type::Named(name) => write!(f, "{}", name.name.name),
        }
    }
}
#[derive(Copy, Clone)]
pub struct NamedType<'a> {
    pub name: Ident<'a>,
}
#[derive(Clone)]
pub struct NonNullType<'a> {
    pub r#type: Type<'a>,
}
#[derive(Clone)]
pub struct ListType<'a> {
    pub position: Pos,
    pub r#type: Type<'a>,
}

// ===== selection_set.rs =====
#[derive(Clone)]
pub struct SelectionSet<'a> {
    pub position: Pos,
    pub selections: Vec<Selection<'a>>,
}

impl HasPos for SelectionSet<'_> {
    fn position(&self) -> &Pos {
        &self.position
    }
    fn name(&self) -> Option<&str> {
        None
    }
}
#[derive(Clone)]
pub enum Selection<'a> {
    Field(Field<'a>),
    FragmentSpread(FragmentSpread<'a>),
    InlineFragment(InlineFragment<'a>),
}

impl<'a> Selection<'a> {
    pub fn directives(&self) -> &[Directive<'a>] {
        match self {
            Selection::Field(field) => &field.directives,
            Selection::FragmentSpread(fragment_spread) => &fragment_spread.directives,
            Selection::InlineFragment(inline_fragment) => &inline_fragment.directives,
        }
    }
}
#[derive(Clone)]
pub struct Field<'a> {
    pub alias: Option<Ident<'a>>,
    pub name: Ident<'a>,
    pub arguments: Option<Arguments<'a>>,
    pub directives: Vec<Directive<'a>>,
    pub selection_set: Option<SelectionSet<'a>>,
}
#[derive(Clone)]
pub struct FragmentSpread<'a> {
    pub position: Pos,
    pub fragment_name: Ident<'a>,
    pub directives: Vec<Directive<'a>>,
}
#[derive(Clone)]
pub struct InlineFragment<'a> {
    pub position: Pos,
    pub type_condition: Option<Ident<'a>>,
    pub directives: Vec<Directive<'a>>,
    pub selection_set: SelectionSet<'a>,
}

// ===== operation.rs =====
#[derive(Copy, Clone, PartialEq, Eq)]
pub enum OperationType {
    Query,
    Mutation,
    Subscription,
}

impl OperationType {
    pub fn as_str(&self) -> &'static str {
        match self {
            OperationType::Query => "query",
            OperationType::Mutation => "mutation",
            OperationType::Subscription => "subscription",
        }
    }
}
#[derive(Clone)]
pub enum ExecutableDefinition<'a> {
    OperationDefinition(OperationDefinition<'a>),
    FragmentDefinition(FragmentDefinition<'a>),
}

impl HasPos for ExecutableDefinition<'_> {
    fn name(&self) -> Option<&str> {
        match self {
            ExecutableDefinition::OperationDefinition(def) => def.name(),
            ExecutableDefinition::FragmentDefinition(def) => def.name(),
        }
    }
    fn position(&self) -> &Pos {
        match self {
            ExecutableDefinition::OperationDefinition(def) => def.position(),
            ExecutableDefinition::FragmentDefinition(def) => def.position(),
        }
    }
}
#[derive(Clone)]
pub struct OperationDefinition<'a> {
    pub position: Pos,
    pub operation_type: OperationType,
    pub name: Option<Ident<'a>>,
    pub variables_definition: Option<VariablesDefinition<'a>>,
    pub directives: Vec<Directive<'a>>,
    pub selection_set: SelectionSet<'a>,
}

impl HasPos for OperationDefinition<'_> {
    fn position(&self) -> &Pos {
        &self.position
    }
    fn name(&self) -> Option<&str> {
        self.name.map(|name| name.name)
    }
}

impl OperationDefinition<'_> {
    /// Returns Pos for its name.
    pub fn name_pos(&self) -> NamePos {
        match self.name {
            None => NamePos {
                pos: *self.position(),
                name: None,
            },
            Some(ref name) => NamePos {
                pos: *name.position(),
                name: Some(name.name),
            },
        }
    }
}
#[derive(Clone)]
pub struct FragmentDefinition<'a> {
    pub position: Pos,
    pub name: Ident<'a>,
    pub type_condition: Ident<'a>,
    pub directives: Vec<Directive<'a>>,
    pub selection_set: SelectionSet<'a>,
}

impl HasPos for FragmentDefinition<'_> {
    fn name(&self) -> Option<&str> {
        Some(self.name.name)
    }
    fn position(&self) -> &Pos {
        &self.position
    }
}
#[derive(Clone)]
pub struct OperationDocument<'a> {
    /// Position of document. This is the position of the first character of the document.
    /// Mainly useful for knowing the file index.
    pub position: Pos,
    pub definitions: Vec<ExecutableDefinition<'a>>,
}

// ===== operation_ext.rs =====
#[derive(Clone)]
pub struct OperationDocumentExt<'a> {
    pub position: Pos,
    pub definitions: Vec<ExecutableDefinitionExt<'a>>,
}
#[derive(Clone)]
pub enum ExecutableDefinitionExt<'a> {
    OperationDefinition(OperationDefinition<'a>),
    FragmentDefinition(FragmentDefinition<'a>),
    Import(ImportDefinition<'a>),
}
#[derive(Clone)]
pub struct ImportDefinition<'a> {
    pub position: Pos,
    pub targets: Vec<ImportTarget<'a>>,
    pub path: StringValue,
}

impl HasPos for ImportDefinition<'_> {
    fn position(&self) -> &Pos {
        &self.position
    }
    fn name(&self) -> Option<&str> {
        None
    }
}
#[derive(Clone)]
pub enum ImportTarget<'a> {
    Wildcard,
    Name(Ident<'a>),
}

// ===== type_system.rs =====
#[derive(Clone)]
pub enum TypeSystemDefinition<'a> {
    SchemaDefinition(SchemaDefinition<'a>),
    TypeDefinition(TypeDefinition<'a>),
    DirectiveDefinition(DirectiveDefinition<'a>),
}

impl HasPos for TypeSystemDefinition<'_> {
    fn name(&self) -> Option<&str> {
        match self {
            TypeSystemDefinition::SchemaDefinition(def) => def.name(),
            TypeSystemDefinition::TypeDefinition(def) => HasPos::name(def),
            TypeSystemDefinition::DirectiveDefinition(def) => def.name(),
        }
    }
    fn position(&self) -> &Pos {
        match self {
            TypeSystemDefinition::SchemaDefinition(def) => def.position(),
            TypeSystemDefinition::TypeDefinition(def) => def.position(),
            TypeSystemDefinition::DirectiveDefinition(def) => def.position(),
        }
    }
}
#[derive(Clone)]
pub enum TypeSystemDefinitionOrExtension<'a> {
    SchemaDefinition(SchemaDefinition<'a>),
    TypeDefinition(TypeDefinition<'a>),
    DirectiveDefinition(DirectiveDefinition<'a>),
    SchemaExtension(SchemaExtension<'a>),
    TypeExtension(TypeExtension<'a>),
}
#[derive(Clone)]
pub struct SchemaDefinition<'a> {
    pub description: Option<StringValue>,
    pub position: Pos,
    pub directives: Vec<Directive<'a>>,
    pub definitions: Vec<(OperationType, Ident<'a>)>,
}

impl HasPos for SchemaDefinition<'_> {
    fn position(&self) -> &Pos {
        &self.position
    }
    fn name(&self) -> Option<&str> {
        None
    }
}
#[derive(Clone)]
pub enum TypeDefinition<'a> {
    Scalar(ScalarTypeDefinition<'a>),
    Object(ObjectTypeDefinition<'a>),
    Interface(InterfaceTypeDefinition<'a>),
    Union(UnionTypeDefinition<'a>),
    Enum(EnumTypeDefinition<'a>),
    InputObject(InputObjectTypeDefinition<'a>),
}

impl TypeDefinition<'_> {
    pub fn name(&self) -> &Ident {
        match self {
            TypeDefinition::Scalar(def) => &def.name,
            TypeDefinition::Object(def) => &def.name,
            TypeDefinition::Interface(def) => &def.name,
            TypeDefinition::Union(def) => &def.name,
            TypeDefinition::Enum(def) => &def.name,
            TypeDefinition::InputObject(def) => &def.name,
        }
    }
}

impl HasPos for TypeDefinition<'_> {
    fn name(&self) -> Option<&str> {
        Some(self.name().name)
    }
    fn position(&self) -> &Pos {
        match self {
            TypeDefinition::Scalar(def) => def.position(),
            TypeDefinition::Object(def) => def.position(),
            TypeDefinition::Interface(def) => def.position(),
            TypeDefinition::Union(def) => def.position(),
            TypeDefinition::Enum(def) => def.position(),
            TypeDefinition::InputObject(def) => def.position(),
        }
    }
}
#[derive(Clone)]
pub struct ScalarTypeDefinition<'a> {
    pub description: Option<StringValue>,
    pub position: Pos,
    pub name: Ident<'a>,
    pub directives: Vec<Directive<'a>>,
    // keywords & punctuations
    pub scalar_keyword: Keyword<'a>,
}

impl HasPos for ScalarTypeDefinition<'_> {
    fn name(&self) -> Option<&str> {
        Some(self.name.name)
    }
    fn position(&self) -> &Pos {
        &self.position
    }
}
#[derive(Clone)]
pub struct ObjectTypeDefinition<'a> {
    pub description: Option<StringValue>,
    pub position: Pos,
    pub name: Ident<'a>,
    pub implements: Vec<Ident<'a>>,
    pub directives: Vec<Directive<'a>>,
    pub fields: Vec<FieldDefinition<'a>>,
    // keywords & punctuations
    pub type_keyword: Keyword<'a>,
}

impl HasPos for ObjectTypeDefinition<'_> {
    fn name(&self) -> Option<&str> {
        Some(self.name.name)
    }
    fn position(&self) -> &Pos {
        &self.position
    }
}
#[derive(Clone)]
pub struct FieldDefinition<'a> {
    pub description: Option<StringValue>,
    pub name: Ident<'a>,
    pub arguments: Option<ArgumentsDefinition<'a>>,
    pub r#type: Type<'a>,
    pub directives: Vec<Directive<'a>>,
}
#[derive(Clone)]
pub struct InterfaceTypeDefinition<'a> {
    pub description: Option<StringValue>,
    pub position: Pos,
    pub name: Ident<'a>,
    pub implements: Vec<Ident<'a>>,
    pub directives: Vec<Directive<'a>>,
    pub fields: Vec<FieldDefinition<'a>>,
    // keywords & punctuations
    pub interface_keyword: Keyword<'a>,
}

impl HasPos for InterfaceTypeDefinition<'_> {
    fn name(&self) -> Option<&str> {
        Some(self.name.name)
    }
    fn position(&self) -> &Pos {
        &self.position
    }
}
#[derive(Clone)]
pub struct UnionTypeDefinition<'a> {
    pub description: Option<StringValue>,
    pub position: Pos,
    pub name: Ident<'a>,
    pub directives: Vec<Directive<'a>>,
    pub members: Vec<Ident<'a>>,
    // keywords & punctuations
    pub union_keyword: Keyword<'a>,
}

impl HasPos for UnionTypeDefinition<'_> {
    fn name(&self) -> Option<&str> {
        Some(self.name.name)
    }
    fn position(&self) -> &Pos {
        &self.position
    }
}
#[derive(Clone)]
pub struct DirectiveDefinition<'a> {
    pub description: Option<StringValue>,
    pub position: Pos,
    pub name: Ident<'a>,
    pub arguments: Option<ArgumentsDefinition<'a>>,
    pub repeatable: Option<Ident<'a>>,
    pub locations: Vec<Ident<'a>>,
    // keywords & punctuations
    pub directive_keyword: Keyword<'a>,
}

impl HasPos for DirectiveDefinition<'_> {
    fn name(&self) -> Option<&str> {
        Some(self.name.name)
    }
    fn position(&self) -> &Pos {
        &self.position
    }
}
#[derive(Clone)]
pub struct ArgumentsDefinition<'a> {
    pub input_values: Vec<InputValueDefinition<'a>>,
}
#[derive(Clone)]
pub struct InputValueDefinition<'a> {
    pub description: Option<StringValue>,
    pub position: Pos,
    pub name: Ident<'a>,
    pub r#type: Type<'a>,
    pub default_value: Option<Value<'a>>,
    pub directives: Vec<Directive<'a>>,
}

impl HasPos for InputValueDefinition<'_> {
    fn name(&self) -> Option<&str> {
        Some(self.name.name)
    }
    fn position(&self) -> &Pos {
        &self.position
    }
}
#[derive(Clone)]
pub struct EnumTypeDefinition<'a> {
    pub description: Option<StringValue>,
    pub position: Pos,
    pub name: Ident<'a>,
    pub directives: Vec<Directive<'a>>,
    pub values: Vec<EnumValueDefinition<'a>>,
    // keywords & punctuations
    pub enum_keyword: Keyword<'a>,
}

impl HasPos for EnumTypeDefinition<'_> {
    fn name(&self) -> Option<&str> {
        Some(self.name.name)
    }
    fn position(&self) -> &Pos {
        &self.position
    }
}
#[derive(Clone)]
pub struct EnumValueDefinition<'a> {
    pub description: Option<StringValue>,
    pub name: Ident<'a>,
    pub directives: Vec<Directive<'a>>,
}
#[derive(Clone)]
pub struct InputObjectTypeDefinition<'a> {
    pub description: Option<StringValue>,
    pub position: Pos,
    pub name: Ident<'a>,
    pub directives: Vec<Directive<'a>>,
    pub fields: Vec<InputValueDefinition<'a>>,
    // keywords & punctuations
    pub input_keyword: Keyword<'a>,
}

impl HasPos for InputObjectTypeDefinition<'_> {
    fn name(&self) -> Option<&str> {
        Some(self.name.name)
    }
    fn position(&self) -> &Pos {
        &self.position
    }
}
#[derive(Clone)]
pub struct SchemaExtension<'a> {
    pub position: Pos,
    pub directives: Vec<Directive<'a>>,
    pub definitions: Vec<(OperationType, Ident<'a>)>,
}

impl HasPos for SchemaExtension<'_> {
    fn name(&self) -> Option<&str> {
        None
    }
    fn position(&self) -> &Pos {
        &self.position
    }
}
#[derive(Clone)]
pub enum TypeExtension<'a> {
    Scalar(ScalarTypeExtension<'a>),
    Object(ObjectTypeExtension<'a>),
    Interface(InterfaceTypeExtension<'a>),
    Union(UnionTypeExtension<'a>),
    Enum(EnumTypeExtension<'a>),
    InputObject(InputObjectTypeExtension<'a>),
}
#[derive(Clone)]
pub struct ScalarTypeExtension<'a> {
    pub position: Pos,
    pub name: Ident<'a>,
    pub directives: Vec<Directive<'a>>,
}

impl HasPos for ScalarTypeExtension<'_> {
    fn name(&self) -> Option<&str> {
        Some(self.name.name)
    }
    fn position(&self) -> &Pos {
        &self.position
    }
}
#[derive(Clone)]
pub struct ObjectTypeExtension<'a> {
    pub position: Pos,
    pub name: Ident<'a>,
    pub implements: Vec<Ident<'a>>,
    pub directives: Vec<Directive<'a>>,
    pub fields: Vec<FieldDefinition<'a>>,
}

impl HasPos for ObjectTypeExtension<'_> {
    fn name(&self) -> Option<&str> {
        Some(self.name.name)
    }
    fn position(&self) -> &Pos {
        &self.position
    }
}
#[derive(Clone)]
pub struct InterfaceTypeExtension<'a> {
    pub position: Pos,
    pub name: Ident<'a>,
    pub implements: Vec<Ident<'a>>,
    pub directives: Vec<Directive<'a>>,
    pub fields: Vec<FieldDefinition<'a>>,
}

impl HasPos for InterfaceTypeExtension<'_> {
    fn name(&self) -> Option<&str> {
        Some(self.name.name)
    }
    fn position(&self) -> &Pos {
        &self.position
    }
}
#[derive(Clone)]
pub struct UnionTypeExtension<'a> {
    pub position: Pos,
    pub name: Ident<'a>,
    pub directives: Vec<Directive<'a>>,
    pub members: Vec<Ident<'a>>,
}

impl HasPos for UnionTypeExtension<'_> {
    fn name(&self) -> Option<&str> {
        Some(self.name.name)
    }
    fn position(&self) -> &Pos {
        &self.position
    }
}
#[derive(Clone)]
pub struct EnumTypeExtension<'a> {
    pub position: Pos,
    pub name: Ident<'a>,
    pub directives: Vec<Directive<'a>>,
    pub values: Vec<EnumValueDefinition<'a>>,
}

impl HasPos for EnumTypeExtension<'_> {
    fn name(&self) -> Option<&str> {
        Some(self.name.name)
    }
    fn position(&self) -> &Pos {
        &self.position
    }
}
#[derive(Clone)]
pub struct InputObjectTypeExtension<'a> {
    pub position: Pos,
    pub name: Ident<'a>,
    pub directives: Vec<Directive<'a>>,
    pub fields: Vec<InputValueDefinition<'a>>,
}

impl HasPos for InputObjectTypeExtension<'_> {
    fn name(&self) -> Option<&str> {
        Some(self.name.name)
    }
    fn position(&self) -> &Pos {
        &self.position
    }
}
#[derive(Clone)]
pub struct TypeSystemOrExtensionDocument<'a> {
    pub definitions: Vec<TypeSystemDefinitionOrExtension<'a>>,
}

impl<'a> Extend<TypeSystemDefinitionOrExtension<'a>> for TypeSystemOrExtensionDocument<'a> {
    fn extend<T: IntoIterator<Item = TypeSystemDefinitionOrExtension<'a>>>(&mut self, iter: T) {
        self.definitions.extend(iter)
    }
}

impl TypeSystemOrExtensionDocument<'_> {
    /// Merges multiple documents into one.
    pub fn merge(docs: impl IntoIterator<Item = Self>) -> Self {
        TypeSystemOrExtensionDocument {
            definitions: docs.into_iter().flat_map(|doc| doc.definitions).collect(),
        }
    }
}
#[derive(Clone, Default)]
pub struct TypeSystemDocument<'a> {
    pub definitions: Vec<TypeSystemDefinition<'a>>,
}

impl TypeSystemDocument<'_> {
    pub fn new() -> Self {
        Self::default()
    }
}

} // verus!
fn main(){}
