use vstd::prelude::*;
use vstd::std_specs::cmp::PartialEqSpec;
use vstd::std_specs::iter::IteratorSpec;
use std::{
    borrow::{Borrow, Cow},
    fmt::{Debug, Display},
    hash::Hash,
    ops::{Deref, DerefMut},
};
verus! {

pub struct Pos {
    pub line: usize,
    pub column: usize,
    pub file: usize,
    pub builtin: bool,
}

/// Trait that expresses owned or borrowed text.
pub trait Text<'a>:
    PartialEq<Self>
    + PartialEq<&'a str>
    + PartialEq<String>
    + Eq
    + Clone
    + Hash
    + Borrow<str>
    + From<&'a str>
    + Deref<Target = str>
    + Debug
    + Display
{
}

pub struct Node<T, OriginalNode> {
    pub inner: T,
    pub original_node: OriginalNode,
}

impl<T, OriginalNode> Node<T, OriginalNode> {
    /// Returns a reference to the inner value.
    pub fn inner_ref(&self) -> (r: &T)
        ensures r == &self.inner
    {
        &self.inner
    }
}

impl<T, OriginalNode> Deref for Node<T, OriginalNode> {
    type Target = T;
    fn deref(&self) -> (r: &Self::Target)
        ensures r == &self.inner
    {
        self.inner_ref()
    }
}

impl<Other, T: PartialEq<Other>, OriginalNode> vstd::std_specs::cmp::PartialEqSpecImpl<Other> for Node<T, OriginalNode> {
    open spec fn obeys_eq_spec() -> bool { <T as PartialEqSpec<Other>>::obeys_eq_spec() }
    open spec fn eq_spec(&self, other: &Other) -> bool { self.inner.eq_spec(other) }
}
// Note: equality between Node does not take OriginalNode in consideration.
impl<Other, T: PartialEq<Other>, OriginalNode> PartialEq<Other> for Node<T, OriginalNode> {
    fn eq(&self, other: &Other) -> (r: bool)
    {
        self.inner == *other
    }
}

pub enum Type<Str, OriginalNode> {
    Named(NamedType<Str, OriginalNode>),
    List(Box<ListType<Str, OriginalNode>>),
    NonNull(Box<NonNullType<Str, OriginalNode>>),
}

pub struct NamedType<Str, OriginalNode> {
    pub name: Node<Str, OriginalNode>,
}

impl<Str, OriginalNode> Deref for NamedType<Str, OriginalNode> {
    type Target = Node<Str, OriginalNode>;
    fn deref(&self) -> (r: &Self::Target)
        ensures r == &self.name
    {
        &self.name
    }
}

pub struct ListType<Str, OriginalNode> {
    pub inner: Type<Str, OriginalNode>,
}
impl<Str, OriginalNode> ListType<Str, OriginalNode> {
    pub fn as_inner(&self) -> (r: &Type<Str, OriginalNode>)
        ensures r == &self.inner
    {
        &self.inner
    }
}
impl<Str, OriginalNode> Deref for ListType<Str, OriginalNode> {
    type Target = Type<Str, OriginalNode>;
    fn deref(&self) -> (r: &Self::Target)
        ensures r == &self.inner
    {
        self.as_inner()
    }
}

pub struct NonNullType<Str, OriginalNode> {
    pub inner: Type<Str, OriginalNode>,
}
impl<Str, OriginalNode> NonNullType<Str, OriginalNode> {
    pub fn as_inner(&self) -> (r: &Type<Str, OriginalNode>)
        ensures r == &self.inner
    {
        &self.inner
    }
}
impl<Str, OriginalNode> Deref for NonNullType<Str, OriginalNode> {
    type Target = Type<Str, OriginalNode>;
    fn deref(&self) -> (r: &Self::Target)
        ensures r == &self.inner
    {
        self.as_inner()
    }
}


pub open spec fn compat<S: PartialEq>(v: Type<S, Pos>, e: Type<S, Pos>) -> bool
    decreases v, e
{
    match (e, v) {
        (Type::NonNull(ei), Type::NonNull(vi)) => compat(vi.inner, ei.inner),
        (_, Type::NonNull(vi)) => compat(vi.inner, e),
        (Type::NonNull(_), _) => false,
        (Type::List(ei), Type::List(vi)) => compat(vi.inner, ei.inner),
        (Type::List(_), _) => false,
        (_, Type::List(_)) => false,
        (Type::Named(en), Type::Named(vn)) => en.name.inner.eq_spec(&vn.name.inner),
    }
}

// ---- strmodel for the Text trait (trusted) ----
pub uninterp spec fn tv<S>(s: S) -> Seq<char>;

#[verifier::external_body]
pub broadcast proof fn axiom_text_eq_str<'a, S: Text<'a>>(s: S, x: &'a str)
    ensures #[trigger] s.eq_spec(&x) == (tv(s) == x@)
{}
#[verifier::external_body]
pub proof fn axiom_text_obeys<'a, S: Text<'a>>()
    ensures <S as PartialEqSpec<&'a str>>::obeys_eq_spec(), <S as PartialEqSpec<S>>::obeys_eq_spec(),
{}

pub open spec fn loc_allowed<S>(locs: Seq<Node<S, Pos>>, cur: Seq<char>) -> bool {
    exists|i: int| 0 <= i < locs.len() && tv(#[trigger] locs[i].inner) == cur
}

// verbatim expression from check_directives: def.locations.iter().all(|loc| **loc != current_position)
fn location_not_allowed<'src, S: Text<'src>>(locations: &Vec<Node<S, Pos>>, current_position: &'static str) -> (r: bool)
    ensures r == !loc_allowed(locations@, current_position@)
{
    proof { axiom_text_obeys::<S>(); }
    broadcast use axiom_text_eq_str;
    let ghost rem0 = locations@.as_ref();
    assert(rem0.len() == locations@.len());
    assert(forall|i: int| 0 <= i < rem0.len() ==> *rem0[i] == locations@[i]);
    let r__ = locations.iter().all(|loc: &Node<S, Pos>| -> (b: bool)
        ensures b == (tv(loc.inner) != current_position@)
        { **loc != current_position });
    proof {
        if r__ {
            assert forall|i: int| 0 <= i < locations@.len() implies tv(#[trigger] locations@[i].inner) != current_position@ by {
                assert(*rem0[i] == locations@[i]);
            }
        }
    }
    r__
}

/// Returns true if `value_type` is assignable to `expected_type`.
fn check_type_compatibility<'src, S: Text<'src>>(
    value_type: &Type<S, Pos>,
    expected_type: &Type<S, Pos>,
) -> (r: bool)
    requires <S as PartialEqSpec<S>>::obeys_eq_spec(),
    ensures r == compat(*value_type, *expected_type),
    decreases *value_type, *expected_type
{
    // https://spec.graphql.org/draft/#AreTypesCompatible()
    match (expected_type, value_type) {
        (Type::NonNull(expected_inner), Type::NonNull(value_inner)) => {
            check_type_compatibility(value_inner, expected_inner)
        }
        (_, Type::NonNull(value_inner)) => check_type_compatibility(value_inner, expected_type),
        (Type::NonNull(_), _) => false,
        (Type::List(expected_inner), Type::List(value_inner)) => {
            check_type_compatibility(value_inner, expected_inner)
        }
        (Type::List(_), _) => false,
        (_, Type::List(_)) => false,
        (Type::Named(expected_name), Type::Named(value_inner)) => **expected_name == ***value_inner,
    }
}

} // verus!
fn main() {}
