use vstd::prelude::*;
verus! {
fn double(x: u32) -> (r: u32)
    requires x < 1000
    ensures r == 2 * x
{ x + x }
} // verus!
fn main() { println!("{}", double(21)); }
