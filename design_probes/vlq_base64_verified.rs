use vstd::prelude::*;
verus! {

global size_of usize == 8;

pub assume_specification [isize::unsigned_abs] (x: isize) -> (r: usize)
    ensures r as int == if x < 0 { -(x as int) } else { x as int };
pub assume_specification [<String as core::convert::From<char>>::from] (c: char) -> (s: String)
    ensures s@ == seq![c];

const BASE64_CHARS: [char; 64] = [
    'A', 'B', 'C', 'D', 'E', 'F', 'G', 'H', 'I', 'J', 'K', 'L', 'M', 'N', 'O', 'P', 'Q', 'R', 'S',
    'T', 'U', 'V', 'W', 'X', 'Y', 'Z', 'a', 'b', 'c', 'd', 'e', 'f', 'g', 'h', 'i', 'j', 'k', 'l',
    'm', 'n', 'o', 'p', 'q', 'r', 's', 't', 'u', 'v', 'w', 'x', 'y', 'z', '0', '1', '2', '3', '4',
    '5', '6', '7', '8', '9', '+', '/',
];

pub open spec fn cont_digits(v: nat) -> Seq<nat>
    decreases v
{
    if v == 0 { seq![] } else {
        let rest = v / 32;
        let d = (v % 32) + if rest > 0 { 32nat } else { 0nat };
        seq![d] + cont_digits(rest)
    }
}

pub open spec fn vlq_digits(n: int) -> Seq<nat> {
    let sign: nat = if n < 0 { 1 } else { 0 };
    let mag: nat = if n < 0 { (-n) as nat } else { n as nat };
    if mag < 16 { seq![sign + 2 * mag] }
    else { seq![(sign + 2 * (mag % 16) + 32) as nat] + cont_digits(mag / 16) }
}

pub closed spec fn chars_of(d: Seq<nat>) -> Seq<char> {
    Seq::new(d.len(), |i: int| BASE64_CHARS@[d[i] as int])
}

broadcast proof fn lemma_chars_of_push(d: Seq<nat>, x: nat)
    requires x < 64
    ensures #[trigger] chars_of(d.push(x)) == chars_of(d).push(BASE64_CHARS@[x as int])
{
    assert(chars_of(d.push(x)) =~= chars_of(d).push(BASE64_CHARS@[x as int]));
}
broadcast proof fn lemma_chars_of_one(x: nat)
    requires x < 64
    ensures #[trigger] chars_of(seq![x]) == seq![BASE64_CHARS@[x as int]]
{
    assert(chars_of(seq![x]) =~= seq![BASE64_CHARS@[x as int]]);
}

broadcast proof fn lemma_and31(v: usize) ensures #[trigger] (v & 0b11111) == v % 32 { assert(v & 0b11111 == v % 32) by (bit_vector); }
broadcast proof fn lemma_shr5(v: usize) ensures #[trigger] (v >> 5) == v / 32 { assert(v >> 5 == v / 32) by (bit_vector); }
broadcast proof fn lemma_shr4(v: usize) ensures #[trigger] (v >> 4) == v / 16 { assert(v >> 4 == v / 16) by (bit_vector); }
broadcast proof fn lemma_and15(v: usize) ensures #[trigger] (v & 0b1111) == v % 16 { assert(v & 0b1111 == v % 16) by (bit_vector); }
broadcast proof fn lemma_or_small(s: usize, v: usize)
    requires s <= 1, v < 16
    ensures #[trigger] (s | (v << 1)) == s + 2 * v
{
    assert(s <= 1 && v < 16 ==> (s | (v << 1)) == s + 2 * v) by (bit_vector);
}
broadcast proof fn lemma_or_first(s: usize, v: usize)
    requires s <= 1, v < 16
    ensures #[trigger] (s | (v << 1) | 0b100000) == s + 2 * v + 32
{
    assert(s <= 1 && v < 16 ==> (s | (v << 1) | 0b100000) == s + 2 * v + 32) by (bit_vector);
}
broadcast proof fn lemma_or_cont(c: usize, v: usize)
    requires c == 0 || c == 32, v < 32
    ensures #[trigger] (c | v) == c + v
{
    assert((c == 0 || c == 32) && v < 32 ==> (c | v) == c + v) by (bit_vector);
}

broadcast proof fn lemma_chars_of_cons(x: nat, rest: Seq<nat>)
    requires x < 64
    ensures #[trigger] chars_of(seq![x] + rest) == seq![BASE64_CHARS@[x as int]] + chars_of(rest)
{
    assert(chars_of(seq![x] + rest) =~= seq![BASE64_CHARS@[x as int]] + chars_of(rest));
}
broadcast proof fn lemma_push_concat(a: Seq<char>, c: char, b: Seq<char>)
    ensures #[trigger] (a.push(c) + b) == a + (seq![c] + b)
{
    assert((a.push(c) + b) =~= a + (seq![c] + b));
}
broadcast proof fn lemma_chars_of_empty()
    ensures #[trigger] chars_of(Seq::<nat>::empty()) == Seq::<char>::empty()
{
    assert(chars_of(Seq::<nat>::empty()) =~= Seq::<char>::empty());
}
broadcast group g { lemma_chars_of_cons, lemma_push_concat, lemma_chars_of_empty,  lemma_chars_of_push, lemma_chars_of_one, lemma_and31, lemma_shr5, lemma_shr4, lemma_and15, lemma_or_small, lemma_or_first, lemma_or_cont }

pub fn base64_vlq(input: isize) -> (result: String)
    ensures result@ == chars_of(vlq_digits(input as int)),
{
    broadcast use g;
    let sign_bit = input < 0;
    let mut value = input.unsigned_abs();

    if value < 16 {
        // one char exception (first character has 4 bit value space)
        let base64_code = (sign_bit as usize) | (value << 1);
        return BASE64_CHARS[base64_code].into();
    }

    let first_byte_code = (sign_bit as usize) | ((value & 0b1111) << 1) | 0b100000;
    let mut result: String = BASE64_CHARS[first_byte_code].into();
    value >>= 4;

    while value > 0 
        invariant
            result@ + chars_of(cont_digits(value as nat)) == chars_of(vlq_digits(input as int)),
        decreases value
    {
        broadcast use g;
        let this_char_value = value & 0b11111;
        value >>= 5;
        let continuation_bit = if value > 0 { 0b100000 } else { 0 };
        let byte_code = continuation_bit | this_char_value;
        result.push(BASE64_CHARS[byte_code]);
    }
    result
}

} // verus!
fn main() {}
