use vstd::prelude::*;
verus! {

pub trait SourceMapWriter {
    fn write(&mut self, chunk: &str);
}

/// Print string in the GraphQL string literal format.
pub fn print_string(s: &str, writer: &mut impl SourceMapWriter) {
    let mut result = String::with_capacity(s.len());
    let is_multiline = s.find('\n').is_some();
    if is_multiline {
        // print as multiline string
        result.push_str("\"\"\"");
        let mut dq_count: usize = 0;
        for c in s.chars() {
            if c != '"' {
                if dq_count > 0 {
                    result.push_str(&"\"".repeat(dq_count));
                    dq_count = 0;
                }
                result.push(c);
                continue;
            }
            dq_count += 1;
            if dq_count == 3 {
                // """ in string
                result.push_str("\\\"\"\"");
                dq_count = 0;
            }
        }
        if dq_count > 0 {
            result.push_str(&"\"".repeat(dq_count));
        }
        result.push_str("\"\"\"");
        writer.write(&result);
    } else {
        // single line string
        result.push('"');
        for c in s.chars() {
            match c {
                '\r' => result.push_str("\\r"),
                '\n' => result.push_str("\\n"),
                c if c.is_control() => {
                    result.push_str(&format!("\\u{{{:x}}}", c as u32));
                }
                c => result.push(c),
            }
        }
        result.push('"');
        writer.write(&result);
    }
}

} // verus!
fn main() {}
