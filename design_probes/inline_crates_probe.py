#!/usr/bin/env python3
"""Design-phase probe: inline workspace crates as modules into one verus! file.
Not framework code; prototype to learn what Verus rejects in the checker crates."""
import re, os, sys

REPO = '/repo/crates'

CRATES = {
    'nitrogql_ast': ('ast/src', ['base', 'current_file', 'directive', 'operation', 'operation_ext',
                                 'selection_set', 'r#type:type', 'type_system', 'value', 'variable']),
    'graphql_type_system': ('type-system/src', ['builder', 'cloning_utils', 'definitions', 'node',
                                                'root_types', 'schema', 'text', 'r#type:type']),
}

UNSUPPORTED = re.compile(r"\.chain\(|\.enumerate\(|\.flatten\(|\.flat_map\(|\.filter_map\(|\.find_map\(|"
                         r"\.take_while\(|\.skip_while\(|\.try_fold\(|\.peekable\(|\.partition|\.unique\(|"
                         r"cartesian_product|\.fold\(|\.unzip\(|'[a-z]\w*: \{|\.extend\(|\.then\(|write!\(|"
                         r"\.sort_by|\.cloned\(\)\s*\.|Box::leak|thread_local|\.with\(\||\.borrow\(\)")


def strip_noise(src):
    src = '\n'.join(l for l in src.split('\n') if not l.lstrip().startswith('//!'))
    # derives
    def fix(m):
        items = [x.strip() for x in m.group(2).split(',') if x.strip()]
        items = [x for x in items if x not in ('Debug', 'Error')]
        extra = ''
        if 'Clone' in items and 'Copy' not in items:
            items.remove('Clone')
            # synthesize trusted Clone impl from the following item header
            hdr = re.match(r'\s*pub (?:struct|enum) (\w+)(<[^>{(]*>)?', src[m.end():])
            if hdr:
                name, gen = hdr.group(1), hdr.group(2) or ''
                params = [g.strip() for g in gen.strip('<>').split(',') if g.strip()]
                names = ', '.join(p.split(':')[0].strip() for p in params)
                bounds = ', '.join((p if p.startswith("'") else p.split(':')[0].strip() + ': Clone') for p in params)
                extra = ('%simpl%s Clone for %s%s { #[verifier::external_body] fn clone(&self) -> Self { unimplemented!() } }\n'
                         % (m.group(1), ('<' + bounds + '>') if params else '', name, ('<' + names + '>') if params else ''))
        return extra + ((m.group(1) + '#[derive(%s)]\n' % ', '.join(items)) if items else '')
    src = re.sub(r'(?m)^(\s*)#\[derive\(([^\]]*)\)\]\n', fix, src)
    # thiserror attrs (possibly multi-line)
    src = re.sub(r'(?ms)^\s*#\[error\(.*?\)\]\n', '', src)
    # clippy allows
    src = re.sub(r'(?m)^\s*#\[allow\([^\]]*\)\]\n', '', src)
    # log macros as statements
    src = re.sub(r'(?ms)^\s*(debug|info|warn)!\(.*?\);\n', '', src)
    src = re.sub(r'(?m)^use (thiserror|log|anyhow|insta)::[^;]*;\n', '', src)
    # cfg(test) mod decls
    src = re.sub(r'(?m)^#\[cfg\(test\)\]\nmod tests;\n', '', src)
    src = re.sub(r'(?m)^mod tests;\n', '', src)
    return src


def find_block_end(src, open_idx):
    """given index of '{', return index of matching '}' (string/char/comment aware, roughly)."""
    depth = 0
    i = open_idx
    n = len(src)
    while i < n:
        c = src[i]
        if c == '/' and src[i:i+2] == '//':
            i = src.index('\n', i)
            continue
        if c == '"':
            i += 1
            while src[i] != '"':
                if src[i] == '\\':
                    i += 1
                i += 1
        elif c == "'":
            # char literal or lifetime
            m = re.match(r"'(\\.|[^\\'])'", src[i:])
            if m:
                i += m.end() - 1
        elif c == '{':
            depth += 1
        elif c == '}':
            depth -= 1
            if depth == 0:
                return i
        i += 1
    raise ValueError('unbalanced')


FN_RE = re.compile(r'(?m)^(\s*)((?:pub(?:\([a-z]+\))? )?(?:const )?(?:unsafe )?(?:extern "C" )?fn (\w+))')


def mark_external(src, report, modname):
    """add #[verifier::external_body] to fns whose body uses unsupported constructs"""
    out = []
    pos = 0
    for m in FN_RE.finditer(src):
        if m.start() < pos:
            continue
        # find body open brace: first '{' after signature end at depth 0 of parens
        i = m.end()
        par = 0
        ang = 0
        while True:
            c = src[i]
            if c == '(':
                par += 1
            elif c == ')':
                par -= 1
            elif c == ';' and par == 0:
                i = None
                break
            elif c == '{' and par == 0:
                break
            i += 1
        if i is None:
            continue
        end = find_block_end(src, i)
        body = src[i:end+1]
        if UNSUPPORTED.search(body):
            out.append(src[pos:m.start()])
            out.append(m.group(1) + '#[verifier::external_body]\n')
            pos = m.start()
            report.append(f'{modname}::{m.group(3)}')
        # do not skip nested fns
    out.append(src[pos:])
    return ''.join(out)


def hoist_closure_patterns(src):
    """T5: |(a, _)| expr  ->  |p__| { let (a, _) = p__; expr }  (expression or block bodies)"""
    out = []
    i = 0
    pat = re.compile(r'\|(\((?:[^|()]|\([^()]*\))*\))\|\s*')
    while True:
        m = pat.search(src, i)
        if not m:
            out.append(src[i:])
            break
        out.append(src[i:m.start()])
        j = m.end()
        # body extent
        if src[j] == '{':
            e = find_block_end(src, j)
            body = src[j:e+1]
            k = e + 1
        else:
            depth = 0
            k = j
            while True:
                c = src[k]
                if c in '([{':
                    depth += 1
                elif c in ')]}':
                    if depth == 0:
                        break
                    depth -= 1
                elif c == ',' and depth == 0:
                    break
                k += 1
            body = src[j:k]
        out.append('|p__| { let %s = p__; %s }' % (m.group(1), body.strip()))
        i = k
    return ''.join(out)


def reroot_uses(src, this_crate, all_crates):
    for c in all_crates:
        src = re.sub(r'\b(?<!crate::)%s::' % c, 'crate::%s::' % c, src)
    src = re.sub(r'\bcrate::(?!(%s)::)' % '|'.join(all_crates), 'crate::%s::' % this_crate, src)
    return src


def build_crate(name, rel, mods, all_crates, report, extra_files=None):
    parts = []
    libp = os.path.join(REPO, rel, 'lib.rs')
    lib = open(libp).read() if os.path.exists(libp) else ''
    lib = strip_noise(lib)
    lib = re.sub(r'(?m)^(pub )?mod [\w#]+;\n', '', lib)
    included = set(m.split(':')[0] for m in mods)
    def keep_use(mm):
        first = mm.group(2)
        return mm.group(0) if first in included else ''
    lib = re.sub(r'(?ms)^(pub use )([\w#]+)(::.*?;\n)', keep_use, lib)
    parts.append(lib)
    for m in mods:
        modname, fname = (m.split(':') + [None])[:2]
        fname = fname or modname
        p = os.path.join(REPO, rel, fname + '.rs')
        if not os.path.exists(p):
            p = os.path.join(REPO, rel, fname, 'mod.rs')
        src = strip_noise(open(p).read())
        if 'thread_local!' in src:
            # probe-only: drop the thread_local cell, stub the accessors
            src = '#[verifier::external_body]\npub fn get_current_file_of_pos() -> usize { unimplemented!() }\n#[verifier::external_body]\npub fn set_current_file_of_pos(file: usize) { unimplemented!() }\n'
        moddir = os.path.join(REPO, rel, fname)
        def inl(mm):
            sub = mm.group(2)
            sp = os.path.join(moddir, sub + '.rs')
            if not os.path.exists(sp):
                return ''
            return '%smod %s {\n%s\n}\n' % (mm.group(1) or '', sub, strip_noise(open(sp).read()))
        src = re.sub(r'(?m)^(pub )?mod (\w+);\n', inl, src)
        src = hoist_closure_patterns(src)
        src = mark_external(src, report, f'{name}::{modname}')
        parts.append(f'pub mod {modname} {{\n{src}\n}}\n')
    body = '\n'.join(parts)
    body = reroot_uses(body, name, all_crates)
    return f'pub mod {name} {{\n{body}\n}}\n'


if __name__ == '__main__':
    report = []
    allc = ['nitrogql_ast', 'graphql_type_system', 'nitrogql_semantics', 'nitrogql_checker', 'nitrogql_error']
    out = ['#![allow(unused)]\nuse vstd::prelude::*;\nverus! {\n']
    out.append(build_crate('nitrogql_ast', 'ast/src', CRATES['nitrogql_ast'][1], allc, report))
    out.append(build_crate('graphql_type_system', 'type-system/src', CRATES['graphql_type_system'][1], allc, report))
    if len(sys.argv) > 1 and sys.argv[1] == 'checker':
        # minimal stand-in for nitrogql_error (external crate anyhow not available): opaque
        out.append('pub mod nitrogql_error { pub struct PositionedError { pub x: u8 } }\n')
        out.append(build_crate('nitrogql_semantics', 'semantics/src',
                               ['ast_to_type_system', 'definition_map', 'direct_fields_of_output_type', 'type_system_utils'],
                               allc, report))
        out.append(build_crate('nitrogql_checker', 'checker/src',
                               ['common', 'error', 'types', 'type_system_checker'], allc, report))
    out.append('\n} // verus!\nfn main(){}\n')
    text = ''.join(out)
    if 'impl From<CheckError> for PositionedError' in text:
        i = text.index('impl From<CheckError> for PositionedError'); j = text.index('{', i)
        text = text[:i] + text[find_block_end(text, j)+1:]
    text = text.replace('''    pub fn with_additional_info(
        mut self,''', '''    pub fn with_additional_info(
        self,''')
    text = text.replace('TypeMismatch { r#type: String }', 'TypeMismatch { type_: String }')
    text = text.replace('UnknownEnumMember { member: String, r#enum: String }', 'UnknownEnumMember { member: String, enum_: String }')
    text = text.replace('CheckErrorMessage::TypeMismatch {\n                r#type:', 'CheckErrorMessage::TypeMismatch {\n                type_:')
    text = text.replace('r#enum: enum_def.name.to_string(),', 'enum_: enum_def.name.to_string(),')
    prel = open('/tmp/probe/x/prelude_probe.rs').read()
    text = text.replace('verus! {\n', 'verus! {\n' + prel, 1)
    text = '#![feature(pattern, allocator_api)]\n' + text
    out = [text]
    open(sys.argv[2] if len(sys.argv) > 2 else 'inlined.rs', 'w').write(''.join(out))
    print('external_body (auto):', len(report))
    for r in report:
        print('  ', r)
