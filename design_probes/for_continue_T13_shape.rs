use vstd::prelude::*;
use vstd::std_specs::iter::IteratorSpec;
verus! {
fn count_pos(v: &Vec<i32>) -> (n: usize)
    ensures n <= v.len()
{
    let mut n: usize = 0;
    let mut it = v.iter();
    let ghost total = it.remaining();
    loop
        invariant
            it.obeys_prophetic_iter_laws(),
            n + it.remaining().len() <= v.len(),
        decreases it.decrease()
    {
        match it.next() {
            None => break,
            Some(x) => {
                if *x <= 0 { continue; }
                n += 1;
            }
        }
    }
    n
}
} // verus!
fn main() {}
