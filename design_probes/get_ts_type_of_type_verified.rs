use vstd::prelude::*;
verus! {


pub struct Pos {
    pub line: usize,
    pub column: usize,
    pub file: usize,
    pub builtin: bool,
}


pub struct Ident<'a> {
    pub name: &'a str,
    pub position: Pos,
}


pub enum Type<'a> {
    Named(NamedType<'a>),
    NonNull(Box<NonNullType<'a>>),
    List(Box<ListType<'a>>),
}


pub struct NamedType<'a> {
    pub name: Ident<'a>,
}


pub struct NonNullType<'a> {
    pub r#type: Type<'a>,
}


pub struct ListType<'a> {
    pub position: Pos,
    pub r#type: Type<'a>,
}


pub enum TSType {
    /// Array Type
    Array(Box<TSType>),
    /// Union type
    Union(Vec<TSType>),
    Null,
    Named(String),
}


// ---- sidecar spec -----
pub enum TsM { Array(Box<TsM>), Union(Seq<TsM>), Null, Named(Seq<char>) }

pub open spec fn ts_view(t: TSType) -> TsM
    decreases t
{
    match t {
        TSType::Array(inner) => TsM::Array(Box::new(ts_view(*inner))),
        TSType::Union(v) => TsM::Union(Seq::new(v@.len(), |i: int| if 0 <= i < v@.len() { ts_view(v@[i]) } else { TsM::Null })),
        TSType::Null => TsM::Null,
        TSType::Named(s) => TsM::Named(s@),
    }
}
pub open spec fn or_null(x: TsM) -> TsM { TsM::Union(seq![x, TsM::Null]) }

// TS rendering of GraphQL type t whose innermost named type renders as L.
pub open spec fn ts_inner(t: Type, l: TsM) -> TsM
    decreases t, 0nat
{
    match t {
        Type::Named(n) => l,
        Type::List(li) => TsM::Array(Box::new(ts_outer(li.r#type, l))),
        Type::NonNull(n) => ts_inner(n.r#type, l),
    }
}
pub open spec fn ts_outer(t: Type, l: TsM) -> TsM
    decreases t, 1nat
{
    if t is NonNull { ts_inner(t, l) } else { or_null(ts_inner(t, l)) }
}
pub open spec fn leaf_of(t: Type) -> NamedType
    decreases t
{
    match t {
        Type::Named(n) => n,
        Type::List(li) => leaf_of(li.r#type),
        Type::NonNull(n) => leaf_of(n.r#type),
    }
}

pub fn get_ts_type_of_type<F: FnOnce(&NamedType) -> TSType>(ty: &Type, map_name: F) -> (res: TSType)
    requires forall|n: &NamedType| map_name.requires((n,)),
    ensures exists|o: TSType| map_name.ensures((&leaf_of(*ty),), o) && ts_view(res) == ts_outer(*ty, ts_view(o)),
    decreases *ty, 1nat
{
    let ghost ty0 = *ty;
    let (ty, nullable) = get_ts_type_of_type_impl(ty, map_name);
    if nullable {
        let r = TSType::Union(vec![ty, TSType::Null]);
        proof {
            let o = choose|o: TSType| map_name.ensures((&leaf_of(ty0),), o) && ts_view(ty) == ts_inner(ty0, ts_view(o));
            assert(ts_view(r) =~= or_null(ts_view(ty))) by {
                let v = r->Union_0;
                assert(v@.len() == 2 && v@[0] == ty && v@[1] == TSType::Null);
                assert(ts_view(TSType::Null) == TsM::Null);
                assert(ts_view(r)->Union_0 =~= seq![ts_view(ty), TsM::Null]);
            }
            assert(ts_view(r) == ts_outer(ty0, ts_view(o)));
        }
        r
    } else {
        ty
    }
}

/// With nullability flag
fn get_ts_type_of_type_impl<F: FnOnce(&NamedType) -> TSType>(
    ty: &Type,
    map_name: F,
) -> (res: (TSType, bool))
    requires forall|n: &NamedType| map_name.requires((n,)),
    ensures exists|o: TSType| map_name.ensures((&leaf_of(*ty),), o) && ts_view(res.0) == ts_inner(*ty, ts_view(o)),
        res.1 == !(*ty is NonNull),
    decreases *ty, 0nat
{
    match ty {
        Type::Named(name) => {
            let r = (map_name(name), true);
            proof { assert(map_name.ensures((&leaf_of(*ty),), r.0)); assert(ts_view(r.0) == ts_inner(*ty, ts_view(r.0))); }
            r
        }
        Type::List(lty) => {
            let inner = get_ts_type_of_type(&lty.r#type, map_name);
            let r = (TSType::Array(Box::new(inner)), true);
            proof {
                let o = choose|o: TSType| map_name.ensures((&leaf_of(lty.r#type),), o) && ts_view(inner) == ts_outer(lty.r#type, ts_view(o));
                assert(leaf_of(*ty) == leaf_of(lty.r#type));
                assert(ts_view(r.0) == ts_inner(*ty, ts_view(o)));
            }
            r
        }
        Type::NonNull(nty) => {
            let (tsty, _) = get_ts_type_of_type_impl(&nty.r#type, map_name);
            proof {
                let o = choose|o: TSType| map_name.ensures((&leaf_of(nty.r#type),), o) && ts_view(tsty) == ts_inner(nty.r#type, ts_view(o));
                assert(leaf_of(*ty) == leaf_of(nty.r#type));
                assert(ts_view(tsty) == ts_inner(*ty, ts_view(o)));
            }
            (tsty, false)
        }
    }
}

} // verus!
fn main() {}
