use vstd::prelude::*;
verus! {

pub assume_specification [str::repeat] (s: &str, n: usize) -> (r: String)
    ensures r@.len() == s@.len() * n;

#[verifier::external_body]
pub fn base64_vlq(input: isize) -> (result: String) { unimplemented!() }

pub struct MappingWriter {
    pub buffer: String,
    pub last_generated_line: usize,
    pub last_generated_column: usize,
    pub last_original_line: usize,
    pub last_original_column: usize,
    pub last_name_index: usize,
    pub last_file_index: usize,
}

impl MappingWriter {
    pub fn add_entry(
        &mut self,
        generated_line: usize,
        generated_column: usize,
        original_line: usize,
        original_column: usize,
        source_file_index: usize,
        name_index: Option<usize>,
    )
        requires generated_line >= old(self).last_generated_line,
        ensures final(self).last_generated_line == generated_line,
    {
        let is_newline = self.last_generated_line != generated_line;
        self.buffer
            .push_str(&";".repeat(generated_line - self.last_generated_line));

        if is_newline {
            self.buffer.push_str(&base64_vlq(generated_column as isize));
        } else {
            self.buffer.push(',');
            let column_diff = (generated_column as isize) - (self.last_generated_column as isize);
            self.buffer.push_str(&base64_vlq(column_diff));
        }

        let source_file_diff = (source_file_index as isize) - (self.last_file_index as isize);
        self.buffer.push_str(&base64_vlq(source_file_diff));

        let original_line_diff = (original_line as isize) - (self.last_original_line as isize);
        self.buffer.push_str(&base64_vlq(original_line_diff));
        // Seems like this calc is done in a inter-line manner
        let original_column_diff =
            (original_column as isize) - (self.last_original_column as isize);

        self.buffer.push_str(&base64_vlq(original_column_diff));

        if let Some(name_index) = name_index {
            let name_index_diff = (name_index as isize) - (self.last_name_index as isize);
            self.buffer.push_str(&base64_vlq(name_index_diff));
            self.last_name_index = name_index;
        }

        self.last_generated_line = generated_line;
        self.last_generated_column = generated_column;
        self.last_original_line = original_line;
        self.last_original_column = original_column;
        self.last_file_index = source_file_index;
    }
}
} // verus!
fn main() {}
