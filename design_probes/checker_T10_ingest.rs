#![feature(pattern, allocator_api)]
#![allow(unused)]
use vstd::prelude::*;
verus! {
// ---- prelude/stdlib.rs (assumed contracts; probe versions, weak) ----
pub assume_specification [std::string::String::into_boxed_str] (s: std::string::String) -> (r: std::boxed::Box<str>)
    ensures r@ == s@;
pub assume_specification<T, U, F: FnOnce(T) -> U> [std::option::Option::<T>::map_or] (o: Option<T>, d: U, f: F) -> (r: U)
    ensures o is None ==> r == d, o is Some ==> f.ensures((o->0,), r);
pub assume_specification<T> [<[T]>::contains] (s: &[T], x: &T) -> (r: bool)
    where T: std::cmp::PartialEq;
pub assume_specification<T, A> [<std::vec::Vec<T, A> as std::convert::AsRef<[T]>>::as_ref] (v: &std::vec::Vec<T, A>) -> (r: &[T])
    where A: std::alloc::Allocator,
    ensures r@ == v@;
pub assume_specification [<str as std::convert::AsRef<str>>::as_ref] (s: &str) -> (r: &str)
    ensures r@ == s@;
pub assume_specification<T, F: FnOnce(T) -> bool> [Option::<T>::is_some_and] (o: Option<T>, f: F) -> (r: bool)
    ensures o is None ==> !r, o is Some ==> f.ensures((o->0,), r);
pub assume_specification<P: std::str::pattern::Pattern> [str::starts_with] (s: &str, p: P) -> (r: bool);
pub mod nitrogql_ast {
use vstd::prelude::*;

pub use current_file::set_current_file_of_pos;
pub use operation::OperationDocument;
pub use operation_ext::OperationDocumentExt;
pub use type_system::{TypeSystemDocument, TypeSystemOrExtensionDocument};

pub mod base {
use vstd::prelude::*;

use std::fmt::Display;

use crate::nitrogql_ast::current_file::get_current_file_of_pos;

/// Position in source file.
#[derive(Copy, Clone, Hash, PartialEq, Eq)]
pub struct Pos {
    /// 0-based line
    pub line: usize,
    /// 0-base column
    pub column: usize,
    /// file (specified by index)
    pub file: usize,
    /// Flag that indicates that this Pos is not from parsed document, but is a built-in structure.
    pub builtin: bool,
}

impl Pos {
    /// Generates a non-built-in Pos.
    pub fn new(line: usize, column: usize) -> Self {
        Pos {
            line,
            column,
            file: get_current_file_of_pos(),
            builtin: false,
        }
    }

    /// Generates a built-in Pos.
    pub fn builtin() -> Self {
        Pos {
            line: 0,
            column: 0,
            file: 0,
            builtin: true,
        }
    }
}

impl Default for Pos {
    fn default() -> Self {
        Self::builtin()
    }
}

impl Ord for Pos {
    #[verifier::external_body]
    fn cmp(&self, other: &Self) -> std::cmp::Ordering {
        self.line
            .cmp(&other.line)
            .then(self.column.cmp(&other.column))
    }
}

impl PartialOrd for Pos {
    fn partial_cmp(&self, other: &Self) -> Option<std::cmp::Ordering> {
        Some(self.cmp(other))
    }
}

/// Knows its start position.
pub trait HasPos {
    fn position(&self) -> &Pos;
    fn name(&self) -> Option<&str>;
}

/// Knows its start and content.
pub trait HasSpan {
    fn position(&self) -> &Pos;
    fn name(&self) -> &str;
}

impl<T: HasSpan> HasPos for T {
    fn position(&self) -> &Pos {
        self.position()
    }
    fn name(&self) -> Option<&str> {
        Some(self.name())
    }
}

/// Carrier of name and pos
pub struct NamePos<'a> {
    pub name: Option<&'a str>,
    pub pos: Pos,
}

impl HasPos for NamePos<'_> {
    fn name(&self) -> Option<&str> {
        self.name
    }
    fn position(&self) -> &Pos {
        &self.pos
    }
}

/// Punctuation token.
#[derive(Copy, Clone)]
pub struct Punc<'a> {
    pub position: Pos,
    pub token: &'a str,
}

impl HasPos for Punc<'_> {
    fn name(&self) -> Option<&str> {
        None
    }
    fn position(&self) -> &Pos {
        &self.position
    }
}

/// Keyword token.
#[derive(Copy, Clone, Hash, PartialEq, Eq)]
pub struct Keyword<'a> {
    pub name: &'a str,
    pub position: Pos,
}

impl HasPos for Keyword<'_> {
    fn position(&self) -> &Pos {
        &self.position
    }
    fn name(&self) -> Option<&str> {
        Some(self.name)
    }
}

/// identifier token.
#[derive(Copy, Clone, Hash, PartialEq, Eq)]
pub struct Ident<'a> {
    pub name: &'a str,
    pub position: Pos,
}

impl HasPos for Ident<'_> {
    fn position(&self) -> &Pos {
        &self.position
    }
    fn name(&self) -> Option<&str> {
        Some(self.name)
    }
}

impl Display for Ident<'_> {
    #[verifier::external_body]
    fn fmt(&self, f: &mut std::fmt::Formatter<'_>) -> std::fmt::Result {
        write!(f, "{}", self.name)
    }
}

}

pub mod current_file {
use vstd::prelude::*;
#[verifier::external_body]
pub fn get_current_file_of_pos() -> usize { unimplemented!() }
#[verifier::external_body]
pub fn set_current_file_of_pos(file: usize) { unimplemented!() }

}

pub mod directive {
use vstd::prelude::*;
use super::{
    base::{HasPos, Ident, Pos},
    value::Arguments,
};

/// One application of a directive.
impl<'a> Clone for Directive<'a> { #[verifier::external_body] fn clone(&self) -> Self { unimplemented!() } }
pub struct Directive<'a> {
    pub position: Pos,
    /// Name of directive (does not include '@')
    pub name: Ident<'a>,
    pub arguments: Option<Arguments<'a>>,
}

impl HasPos for Directive<'_> {
    fn name(&self) -> Option<&str> {
        Some(self.name.name)
    }
    fn position(&self) -> &Pos {
        &self.position
    }
}

}

pub mod operation {
use vstd::prelude::*;
use crate::nitrogql_ast::variable::VariablesDefinition;

use super::{
    base::{HasPos, Ident, NamePos, Pos},
    directive::Directive,
    selection_set::SelectionSet,
};

#[derive(Copy, Clone, PartialEq, Eq)]
pub enum OperationType {
    Query,
    Mutation,
    Subscription,
}

impl OperationType {
    pub fn as_str(&self) -> &'static str {
        match self {
            OperationType::Query => "query",
            OperationType::Mutation => "mutation",
            OperationType::Subscription => "subscription",
        }
    }
}

impl<'a> Clone for ExecutableDefinition<'a> { #[verifier::external_body] fn clone(&self) -> Self { unimplemented!() } }
pub enum ExecutableDefinition<'a> {
    OperationDefinition(OperationDefinition<'a>),
    FragmentDefinition(FragmentDefinition<'a>),
}

impl HasPos for ExecutableDefinition<'_> {
    fn name(&self) -> Option<&str> {
        match self {
            ExecutableDefinition::OperationDefinition(def) => def.name(),
            ExecutableDefinition::FragmentDefinition(def) => def.name(),
        }
    }
    fn position(&self) -> &Pos {
        match self {
            ExecutableDefinition::OperationDefinition(def) => def.position(),
            ExecutableDefinition::FragmentDefinition(def) => def.position(),
        }
    }
}

impl<'a> Clone for OperationDefinition<'a> { #[verifier::external_body] fn clone(&self) -> Self { unimplemented!() } }
pub struct OperationDefinition<'a> {
    pub position: Pos,
    pub operation_type: OperationType,
    pub name: Option<Ident<'a>>,
    pub variables_definition: Option<VariablesDefinition<'a>>,
    pub directives: Vec<Directive<'a>>,
    pub selection_set: SelectionSet<'a>,
}

impl HasPos for OperationDefinition<'_> {
    fn position(&self) -> &Pos {
        &self.position
    }
    fn name(&self) -> Option<&str> {
        self.name.map(|name| name.name)
    }
}

impl OperationDefinition<'_> {
    /// Returns Pos for its name.
    pub fn name_pos(&self) -> NamePos {
        match self.name {
            None => NamePos {
                pos: *self.position(),
                name: None,
            },
            Some(ref name) => NamePos {
                pos: *name.position(),
                name: Some(name.name),
            },
        }
    }
}

impl<'a> Clone for FragmentDefinition<'a> { #[verifier::external_body] fn clone(&self) -> Self { unimplemented!() } }
pub struct FragmentDefinition<'a> {
    pub position: Pos,
    pub name: Ident<'a>,
    pub type_condition: Ident<'a>,
    pub directives: Vec<Directive<'a>>,
    pub selection_set: SelectionSet<'a>,
}

impl HasPos for FragmentDefinition<'_> {
    fn name(&self) -> Option<&str> {
        Some(self.name.name)
    }
    fn position(&self) -> &Pos {
        &self.position
    }
}

impl<'a> Clone for OperationDocument<'a> { #[verifier::external_body] fn clone(&self) -> Self { unimplemented!() } }
pub struct OperationDocument<'a> {
    /// Position of document. This is the position of the first character of the document.
    /// Mainly useful for knowing the file index.
    pub position: Pos,
    pub definitions: Vec<ExecutableDefinition<'a>>,
}

}

pub mod operation_ext {
use vstd::prelude::*;

use crate::nitrogql_ast::{
    base::{HasPos, Ident, Pos},
    operation::{FragmentDefinition, OperationDefinition},
    value::StringValue,
};

impl<'a> Clone for OperationDocumentExt<'a> { #[verifier::external_body] fn clone(&self) -> Self { unimplemented!() } }
pub struct OperationDocumentExt<'a> {
    pub position: Pos,
    pub definitions: Vec<ExecutableDefinitionExt<'a>>,
}

impl<'a> Clone for ExecutableDefinitionExt<'a> { #[verifier::external_body] fn clone(&self) -> Self { unimplemented!() } }
pub enum ExecutableDefinitionExt<'a> {
    OperationDefinition(OperationDefinition<'a>),
    FragmentDefinition(FragmentDefinition<'a>),
    Import(ImportDefinition<'a>),
}

impl<'a> Clone for ImportDefinition<'a> { #[verifier::external_body] fn clone(&self) -> Self { unimplemented!() } }
pub struct ImportDefinition<'a> {
    pub position: Pos,
    pub targets: Vec<ImportTarget<'a>>,
    pub path: StringValue,
}

impl HasPos for ImportDefinition<'_> {
    fn position(&self) -> &Pos {
        &self.position
    }
    fn name(&self) -> Option<&str> {
        None
    }
}

impl<'a> Clone for ImportTarget<'a> { #[verifier::external_body] fn clone(&self) -> Self { unimplemented!() } }
pub enum ImportTarget<'a> {
    Wildcard,
    Name(Ident<'a>),
}

}

pub mod selection_set {
use vstd::prelude::*;
use super::{
    base::{HasPos, Ident, Pos},
    directive::Directive,
    value::Arguments,
};

impl<'a> Clone for SelectionSet<'a> { #[verifier::external_body] fn clone(&self) -> Self { unimplemented!() } }
pub struct SelectionSet<'a> {
    pub position: Pos,
    pub selections: Vec<Selection<'a>>,
}

impl HasPos for SelectionSet<'_> {
    fn position(&self) -> &Pos {
        &self.position
    }
    fn name(&self) -> Option<&str> {
        None
    }
}

impl<'a> Clone for Selection<'a> { #[verifier::external_body] fn clone(&self) -> Self { unimplemented!() } }
pub enum Selection<'a> {
    Field(Field<'a>),
    FragmentSpread(FragmentSpread<'a>),
    InlineFragment(InlineFragment<'a>),
}

impl<'a> Selection<'a> {
    pub fn directives(&self) -> &[Directive<'a>] {
        match self {
            Selection::Field(field) => &field.directives,
            Selection::FragmentSpread(fragment_spread) => &fragment_spread.directives,
            Selection::InlineFragment(inline_fragment) => &inline_fragment.directives,
        }
    }
}

impl<'a> Clone for Field<'a> { #[verifier::external_body] fn clone(&self) -> Self { unimplemented!() } }
pub struct Field<'a> {
    pub alias: Option<Ident<'a>>,
    pub name: Ident<'a>,
    pub arguments: Option<Arguments<'a>>,
    pub directives: Vec<Directive<'a>>,
    pub selection_set: Option<SelectionSet<'a>>,
}

impl<'a> Clone for FragmentSpread<'a> { #[verifier::external_body] fn clone(&self) -> Self { unimplemented!() } }
pub struct FragmentSpread<'a> {
    pub position: Pos,
    pub fragment_name: Ident<'a>,
    pub directives: Vec<Directive<'a>>,
}

impl<'a> Clone for InlineFragment<'a> { #[verifier::external_body] fn clone(&self) -> Self { unimplemented!() } }
pub struct InlineFragment<'a> {
    pub position: Pos,
    pub type_condition: Option<Ident<'a>>,
    pub directives: Vec<Directive<'a>>,
    pub selection_set: SelectionSet<'a>,
}

}

pub mod r#type {
use vstd::prelude::*;
use std::fmt::Display;

use super::base::{HasPos, Ident, Pos};

impl<'a> Clone for Type<'a> { #[verifier::external_body] fn clone(&self) -> Self { unimplemented!() } }
pub enum Type<'a> {
    Named(NamedType<'a>),
    NonNull(Box<NonNullType<'a>>),
    List(Box<ListType<'a>>),
}

impl HasPos for Type<'_> {
    fn name(&self) -> Option<&str> {
        match self {
            Type::Named(name) => Some(name.name.name),
            Type::NonNull(_) => None,
            Type::List(_) => None,
        }
    }
    fn position(&self) -> &Pos {
        match self {
            Type::Named(name) => name.name.position(),
            Type::NonNull(non_null) => non_null.r#type.position(),
            Type::List(list) => &list.position,
        }
    }
}

impl Type<'_> {
    /// Returns a reference to the unwrapped type of self.
    pub fn unwrapped_type(&self) -> &NamedType {
        match self {
            Type::Named(name) => name,
            Type::NonNull(inner) => inner.r#type.unwrapped_type(),
            Type::List(inner) => inner.r#type.unwrapped_type(),
        }
    }
    /// Checks whether given type is the same type (invariant) as self.  
    pub fn is_same(&self, other: &Type) -> bool {
        match (self, other) {
            (Type::Named(self_name), Type::Named(other_name)) => {
                self_name.name.name == other_name.name.name
            }
            (Type::NonNull(self_inner), Type::NonNull(other_inner)) => {
                (self_inner.r#type).is_same(&other_inner.r#type)
            }
            (Type::List(self_inner), Type::List(other_inner)) => {
                self_inner.r#type.is_same(&other_inner.r#type)
            }
            _ => false,
        }
    }
    /// Returns if self is a non-nullable type.
    pub fn is_nonnull(&self) -> bool {
        matches!(self, Type::NonNull(_))
    }
}

impl Display for Type<'_> {
    #[verifier::external_body]
    fn fmt(&self, f: &mut std::fmt::Formatter<'_>) -> std::fmt::Result {
        match self {
            Type::NonNull(inner) => write!(f, "{}!", &inner.r#type),
            Type::List(inner) => write!(f, "[{}]", &inner.r#type),
            Type::Named(name) => write!(f, "{}", name.name.name),
        }
    }
}

#[derive(Copy, Clone)]
pub struct NamedType<'a> {
    pub name: Ident<'a>,
}

impl<'a> Clone for NonNullType<'a> { #[verifier::external_body] fn clone(&self) -> Self { unimplemented!() } }
pub struct NonNullType<'a> {
    pub r#type: Type<'a>,
}

impl<'a> Clone for ListType<'a> { #[verifier::external_body] fn clone(&self) -> Self { unimplemented!() } }
pub struct ListType<'a> {
    pub position: Pos,
    pub r#type: Type<'a>,
}

}

pub mod type_system {
use vstd::prelude::*;
use super::{
    base::{HasPos, Ident, Keyword, Pos},
    directive::Directive,
    operation::OperationType,
    r#type::Type,
    value::{StringValue, Value},
};

impl<'a> Clone for TypeSystemDefinition<'a> { #[verifier::external_body] fn clone(&self) -> Self { unimplemented!() } }
pub enum TypeSystemDefinition<'a> {
    SchemaDefinition(SchemaDefinition<'a>),
    TypeDefinition(TypeDefinition<'a>),
    DirectiveDefinition(DirectiveDefinition<'a>),
}

impl HasPos for TypeSystemDefinition<'_> {
    fn name(&self) -> Option<&str> {
        match self {
            TypeSystemDefinition::SchemaDefinition(def) => def.name(),
            TypeSystemDefinition::TypeDefinition(def) => HasPos::name(def),
            TypeSystemDefinition::DirectiveDefinition(def) => def.name(),
        }
    }
    fn position(&self) -> &Pos {
        match self {
            TypeSystemDefinition::SchemaDefinition(def) => def.position(),
            TypeSystemDefinition::TypeDefinition(def) => def.position(),
            TypeSystemDefinition::DirectiveDefinition(def) => def.position(),
        }
    }
}

impl<'a> Clone for TypeSystemDefinitionOrExtension<'a> { #[verifier::external_body] fn clone(&self) -> Self { unimplemented!() } }
pub enum TypeSystemDefinitionOrExtension<'a> {
    SchemaDefinition(SchemaDefinition<'a>),
    TypeDefinition(TypeDefinition<'a>),
    DirectiveDefinition(DirectiveDefinition<'a>),
    SchemaExtension(SchemaExtension<'a>),
    TypeExtension(TypeExtension<'a>),
}

impl<'a> Clone for SchemaDefinition<'a> { #[verifier::external_body] fn clone(&self) -> Self { unimplemented!() } }
pub struct SchemaDefinition<'a> {
    pub description: Option<StringValue>,
    pub position: Pos,
    pub directives: Vec<Directive<'a>>,
    pub definitions: Vec<(OperationType, Ident<'a>)>,
}

impl HasPos for SchemaDefinition<'_> {
    fn position(&self) -> &Pos {
        &self.position
    }
    fn name(&self) -> Option<&str> {
        None
    }
}

impl<'a> Clone for TypeDefinition<'a> { #[verifier::external_body] fn clone(&self) -> Self { unimplemented!() } }
pub enum TypeDefinition<'a> {
    Scalar(ScalarTypeDefinition<'a>),
    Object(ObjectTypeDefinition<'a>),
    Interface(InterfaceTypeDefinition<'a>),
    Union(UnionTypeDefinition<'a>),
    Enum(EnumTypeDefinition<'a>),
    InputObject(InputObjectTypeDefinition<'a>),
}

impl TypeDefinition<'_> {
    pub fn name(&self) -> &Ident {
        match self {
            TypeDefinition::Scalar(def) => &def.name,
            TypeDefinition::Object(def) => &def.name,
            TypeDefinition::Interface(def) => &def.name,
            TypeDefinition::Union(def) => &def.name,
            TypeDefinition::Enum(def) => &def.name,
            TypeDefinition::InputObject(def) => &def.name,
        }
    }
}

impl HasPos for TypeDefinition<'_> {
    fn name(&self) -> Option<&str> {
        Some(self.name().name)
    }
    fn position(&self) -> &Pos {
        match self {
            TypeDefinition::Scalar(def) => def.position(),
            TypeDefinition::Object(def) => def.position(),
            TypeDefinition::Interface(def) => def.position(),
            TypeDefinition::Union(def) => def.position(),
            TypeDefinition::Enum(def) => def.position(),
            TypeDefinition::InputObject(def) => def.position(),
        }
    }
}

impl<'a> Clone for ScalarTypeDefinition<'a> { #[verifier::external_body] fn clone(&self) -> Self { unimplemented!() } }
pub struct ScalarTypeDefinition<'a> {
    pub description: Option<StringValue>,
    pub position: Pos,
    pub name: Ident<'a>,
    pub directives: Vec<Directive<'a>>,
    // keywords & punctuations
    pub scalar_keyword: Keyword<'a>,
}

impl HasPos for ScalarTypeDefinition<'_> {
    fn name(&self) -> Option<&str> {
        Some(self.name.name)
    }
    fn position(&self) -> &Pos {
        &self.position
    }
}

impl<'a> Clone for ObjectTypeDefinition<'a> { #[verifier::external_body] fn clone(&self) -> Self { unimplemented!() } }
pub struct ObjectTypeDefinition<'a> {
    pub description: Option<StringValue>,
    pub position: Pos,
    pub name: Ident<'a>,
    pub implements: Vec<Ident<'a>>,
    pub directives: Vec<Directive<'a>>,
    pub fields: Vec<FieldDefinition<'a>>,
    // keywords & punctuations
    pub type_keyword: Keyword<'a>,
}

impl HasPos for ObjectTypeDefinition<'_> {
    fn name(&self) -> Option<&str> {
        Some(self.name.name)
    }
    fn position(&self) -> &Pos {
        &self.position
    }
}

impl<'a> Clone for FieldDefinition<'a> { #[verifier::external_body] fn clone(&self) -> Self { unimplemented!() } }
pub struct FieldDefinition<'a> {
    pub description: Option<StringValue>,
    pub name: Ident<'a>,
    pub arguments: Option<ArgumentsDefinition<'a>>,
    pub r#type: Type<'a>,
    pub directives: Vec<Directive<'a>>,
}

impl<'a> Clone for InterfaceTypeDefinition<'a> { #[verifier::external_body] fn clone(&self) -> Self { unimplemented!() } }
pub struct InterfaceTypeDefinition<'a> {
    pub description: Option<StringValue>,
    pub position: Pos,
    pub name: Ident<'a>,
    pub implements: Vec<Ident<'a>>,
    pub directives: Vec<Directive<'a>>,
    pub fields: Vec<FieldDefinition<'a>>,
    // keywords & punctuations
    pub interface_keyword: Keyword<'a>,
}

impl HasPos for InterfaceTypeDefinition<'_> {
    fn name(&self) -> Option<&str> {
        Some(self.name.name)
    }
    fn position(&self) -> &Pos {
        &self.position
    }
}

impl<'a> Clone for UnionTypeDefinition<'a> { #[verifier::external_body] fn clone(&self) -> Self { unimplemented!() } }
pub struct UnionTypeDefinition<'a> {
    pub description: Option<StringValue>,
    pub position: Pos,
    pub name: Ident<'a>,
    pub directives: Vec<Directive<'a>>,
    pub members: Vec<Ident<'a>>,
    // keywords & punctuations
    pub union_keyword: Keyword<'a>,
}

impl HasPos for UnionTypeDefinition<'_> {
    fn name(&self) -> Option<&str> {
        Some(self.name.name)
    }
    fn position(&self) -> &Pos {
        &self.position
    }
}

impl<'a> Clone for DirectiveDefinition<'a> { #[verifier::external_body] fn clone(&self) -> Self { unimplemented!() } }
pub struct DirectiveDefinition<'a> {
    pub description: Option<StringValue>,
    pub position: Pos,
    pub name: Ident<'a>,
    pub arguments: Option<ArgumentsDefinition<'a>>,
    pub repeatable: Option<Ident<'a>>,
    pub locations: Vec<Ident<'a>>,
    // keywords & punctuations
    pub directive_keyword: Keyword<'a>,
}

impl HasPos for DirectiveDefinition<'_> {
    fn name(&self) -> Option<&str> {
        Some(self.name.name)
    }
    fn position(&self) -> &Pos {
        &self.position
    }
}

impl<'a> Clone for ArgumentsDefinition<'a> { #[verifier::external_body] fn clone(&self) -> Self { unimplemented!() } }
pub struct ArgumentsDefinition<'a> {
    pub input_values: Vec<InputValueDefinition<'a>>,
}

impl<'a> Clone for InputValueDefinition<'a> { #[verifier::external_body] fn clone(&self) -> Self { unimplemented!() } }
pub struct InputValueDefinition<'a> {
    pub description: Option<StringValue>,
    pub position: Pos,
    pub name: Ident<'a>,
    pub r#type: Type<'a>,
    pub default_value: Option<Value<'a>>,
    pub directives: Vec<Directive<'a>>,
}

impl HasPos for InputValueDefinition<'_> {
    fn name(&self) -> Option<&str> {
        Some(self.name.name)
    }
    fn position(&self) -> &Pos {
        &self.position
    }
}

impl<'a> Clone for EnumTypeDefinition<'a> { #[verifier::external_body] fn clone(&self) -> Self { unimplemented!() } }
pub struct EnumTypeDefinition<'a> {
    pub description: Option<StringValue>,
    pub position: Pos,
    pub name: Ident<'a>,
    pub directives: Vec<Directive<'a>>,
    pub values: Vec<EnumValueDefinition<'a>>,
    // keywords & punctuations
    pub enum_keyword: Keyword<'a>,
}

impl HasPos for EnumTypeDefinition<'_> {
    fn name(&self) -> Option<&str> {
        Some(self.name.name)
    }
    fn position(&self) -> &Pos {
        &self.position
    }
}

impl<'a> Clone for EnumValueDefinition<'a> { #[verifier::external_body] fn clone(&self) -> Self { unimplemented!() } }
pub struct EnumValueDefinition<'a> {
    pub description: Option<StringValue>,
    pub name: Ident<'a>,
    pub directives: Vec<Directive<'a>>,
}

impl<'a> Clone for InputObjectTypeDefinition<'a> { #[verifier::external_body] fn clone(&self) -> Self { unimplemented!() } }
pub struct InputObjectTypeDefinition<'a> {
    pub description: Option<StringValue>,
    pub position: Pos,
    pub name: Ident<'a>,
    pub directives: Vec<Directive<'a>>,
    pub fields: Vec<InputValueDefinition<'a>>,
    // keywords & punctuations
    pub input_keyword: Keyword<'a>,
}

impl HasPos for InputObjectTypeDefinition<'_> {
    fn name(&self) -> Option<&str> {
        Some(self.name.name)
    }
    fn position(&self) -> &Pos {
        &self.position
    }
}

impl<'a> Clone for SchemaExtension<'a> { #[verifier::external_body] fn clone(&self) -> Self { unimplemented!() } }
pub struct SchemaExtension<'a> {
    pub position: Pos,
    pub directives: Vec<Directive<'a>>,
    pub definitions: Vec<(OperationType, Ident<'a>)>,
}

impl HasPos for SchemaExtension<'_> {
    fn name(&self) -> Option<&str> {
        None
    }
    fn position(&self) -> &Pos {
        &self.position
    }
}

impl<'a> Clone for TypeExtension<'a> { #[verifier::external_body] fn clone(&self) -> Self { unimplemented!() } }
pub enum TypeExtension<'a> {
    Scalar(ScalarTypeExtension<'a>),
    Object(ObjectTypeExtension<'a>),
    Interface(InterfaceTypeExtension<'a>),
    Union(UnionTypeExtension<'a>),
    Enum(EnumTypeExtension<'a>),
    InputObject(InputObjectTypeExtension<'a>),
}

impl<'a> Clone for ScalarTypeExtension<'a> { #[verifier::external_body] fn clone(&self) -> Self { unimplemented!() } }
pub struct ScalarTypeExtension<'a> {
    pub position: Pos,
    pub name: Ident<'a>,
    pub directives: Vec<Directive<'a>>,
}

impl HasPos for ScalarTypeExtension<'_> {
    fn name(&self) -> Option<&str> {
        Some(self.name.name)
    }
    fn position(&self) -> &Pos {
        &self.position
    }
}

impl<'a> Clone for ObjectTypeExtension<'a> { #[verifier::external_body] fn clone(&self) -> Self { unimplemented!() } }
pub struct ObjectTypeExtension<'a> {
    pub position: Pos,
    pub name: Ident<'a>,
    pub implements: Vec<Ident<'a>>,
    pub directives: Vec<Directive<'a>>,
    pub fields: Vec<FieldDefinition<'a>>,
}

impl HasPos for ObjectTypeExtension<'_> {
    fn name(&self) -> Option<&str> {
        Some(self.name.name)
    }
    fn position(&self) -> &Pos {
        &self.position
    }
}

impl<'a> Clone for InterfaceTypeExtension<'a> { #[verifier::external_body] fn clone(&self) -> Self { unimplemented!() } }
pub struct InterfaceTypeExtension<'a> {
    pub position: Pos,
    pub name: Ident<'a>,
    pub implements: Vec<Ident<'a>>,
    pub directives: Vec<Directive<'a>>,
    pub fields: Vec<FieldDefinition<'a>>,
}

impl HasPos for InterfaceTypeExtension<'_> {
    fn name(&self) -> Option<&str> {
        Some(self.name.name)
    }
    fn position(&self) -> &Pos {
        &self.position
    }
}

impl<'a> Clone for UnionTypeExtension<'a> { #[verifier::external_body] fn clone(&self) -> Self { unimplemented!() } }
pub struct UnionTypeExtension<'a> {
    pub position: Pos,
    pub name: Ident<'a>,
    pub directives: Vec<Directive<'a>>,
    pub members: Vec<Ident<'a>>,
}

impl HasPos for UnionTypeExtension<'_> {
    fn name(&self) -> Option<&str> {
        Some(self.name.name)
    }
    fn position(&self) -> &Pos {
        &self.position
    }
}

impl<'a> Clone for EnumTypeExtension<'a> { #[verifier::external_body] fn clone(&self) -> Self { unimplemented!() } }
pub struct EnumTypeExtension<'a> {
    pub position: Pos,
    pub name: Ident<'a>,
    pub directives: Vec<Directive<'a>>,
    pub values: Vec<EnumValueDefinition<'a>>,
}

impl HasPos for EnumTypeExtension<'_> {
    fn name(&self) -> Option<&str> {
        Some(self.name.name)
    }
    fn position(&self) -> &Pos {
        &self.position
    }
}

impl<'a> Clone for InputObjectTypeExtension<'a> { #[verifier::external_body] fn clone(&self) -> Self { unimplemented!() } }
pub struct InputObjectTypeExtension<'a> {
    pub position: Pos,
    pub name: Ident<'a>,
    pub directives: Vec<Directive<'a>>,
    pub fields: Vec<InputValueDefinition<'a>>,
}

impl HasPos for InputObjectTypeExtension<'_> {
    fn name(&self) -> Option<&str> {
        Some(self.name.name)
    }
    fn position(&self) -> &Pos {
        &self.position
    }
}

impl<'a> Clone for TypeSystemOrExtensionDocument<'a> { #[verifier::external_body] fn clone(&self) -> Self { unimplemented!() } }
pub struct TypeSystemOrExtensionDocument<'a> {
    pub definitions: Vec<TypeSystemDefinitionOrExtension<'a>>,
}

impl<'a> Extend<TypeSystemDefinitionOrExtension<'a>> for TypeSystemOrExtensionDocument<'a> {
    #[verifier::external_body]
    fn extend<T: IntoIterator<Item = TypeSystemDefinitionOrExtension<'a>>>(&mut self, iter: T) {
        self.definitions.extend(iter)
    }
}

impl TypeSystemOrExtensionDocument<'_> {
    /// Merges multiple documents into one.
    #[verifier::external_body]
    pub fn merge(docs: impl IntoIterator<Item = Self>) -> Self {
        TypeSystemOrExtensionDocument {
            definitions: docs.into_iter().flat_map(|doc| doc.definitions).collect(),
        }
    }
}

impl<'a> Clone for TypeSystemDocument<'a> { #[verifier::external_body] fn clone(&self) -> Self { unimplemented!() } }

#[derive(Default)]
pub struct TypeSystemDocument<'a> {
    pub definitions: Vec<TypeSystemDefinition<'a>>,
}

impl TypeSystemDocument<'_> {
    pub fn new() -> Self {
        Self::default()
    }
}

}

pub mod value {
use vstd::prelude::*;
use std::{fmt::Display, ops::Deref};

use crate::nitrogql_ast::variable::Variable;

use super::base::{HasPos, Ident, Pos};

/// A GraphQL Value.
impl<'a> Clone for Value<'a> { #[verifier::external_body] fn clone(&self) -> Self { unimplemented!() } }
pub enum Value<'a> {
    Variable(Variable<'a>),
    IntValue(IntValue<'a>),
    FloatValue(FloatValue<'a>),
    StringValue(StringValue),
    BooleanValue(BooleanValue<'a>),
    NullValue(NullValue<'a>),
    EnumValue(EnumValue<'a>),
    ListValue(ListValue<'a>),
    ObjectValue(ObjectValue<'a>),
}

impl Value<'_> {
    pub fn is_null(&self) -> bool {
        matches!(self, Value::NullValue(_))
    }
    pub fn as_string(&self) -> Option<&StringValue> {
        match self {
            Value::StringValue(s) => Some(s),
            _ => None,
        }
    }
}

impl HasPos for Value<'_> {
    fn name(&self) -> Option<&str> {
        match self {
            Value::Variable(v) => Some(v.name),
            Value::EnumValue(v) => Some(v.value),
            _ => None,
        }
    }
    fn position(&self) -> &Pos {
        match self {
            Value::Variable(v) => v.position(),
            Value::BooleanValue(v) => &v.position,
            Value::IntValue(v) => &v.position,
            Value::FloatValue(v) => &v.position,
            Value::StringValue(v) => &v.position,
            Value::NullValue(v) => &v.position,
            Value::EnumValue(v) => &v.position,
            Value::ListValue(v) => &v.position,
            Value::ObjectValue(v) => &v.position,
        }
    }
}

impl Display for Value<'_> {
    #[verifier::external_body]
    fn fmt(&self, f: &mut std::fmt::Formatter<'_>) -> std::fmt::Result {
        match self {
            Value::BooleanValue(b) => {
                if b.value {
                    write!(f, "true")
                } else {
                    write!(f, "false")
                }
            }
            Value::IntValue(i) => write!(f, "{}", i.value),
            Value::FloatValue(i) => write!(f, "{}", i.value),
            // TODO: escaping not implemented for ease
            Value::StringValue(i) => write!(f, "\"{}\"", i.value),
            Value::EnumValue(i) => write!(f, "{}", i.value),
            Value::NullValue(_) => write!(f, "null"),
            Value::Variable(v) => write!(f, "${}", v.name),
            Value::ListValue(l) => {
                write!(f, "[")?;
                for (idx, v) in l.values.iter().enumerate() {
                    if idx > 0 {
                        write!(f, ",")?;
                    }
                    write!(f, "{v}")?;
                }
                write!(f, "]")
            }
            Value::ObjectValue(l) => {
                write!(f, "{{")?;
                for (idx, (key, value)) in l.fields.iter().enumerate() {
                    if idx > 0 {
                        write!(f, ",")?;
                    }
                    write!(f, "{}: {}", key.name, value)?;
                }
                write!(f, "}}")
            }
        }
    }
}

#[derive(Copy, Clone)]
pub struct IntValue<'a> {
    pub position: Pos,
    pub value: &'a str,
}

#[derive(Copy, Clone)]
pub struct FloatValue<'a> {
    pub position: Pos,
    pub value: &'a str,
}

impl Clone for StringValue { #[verifier::external_body] fn clone(&self) -> Self { unimplemented!() } }
pub struct StringValue {
    pub position: Pos,
    /// Parsed value of string literal
    pub value: String,
}

impl Deref for StringValue {
    type Target = str;
    fn deref(&self) -> &Self::Target {
        &self.value
    }
}

#[derive(Copy, Clone)]
pub struct BooleanValue<'a> {
    pub position: Pos,
    pub keyword: &'a str,
    pub value: bool,
}

#[derive(Copy, Clone)]
pub struct NullValue<'a> {
    pub position: Pos,
    pub keyword: &'a str,
}

#[derive(Copy, Clone)]
pub struct EnumValue<'a> {
    pub position: Pos,
    pub value: &'a str,
}

impl<'a> Clone for ListValue<'a> { #[verifier::external_body] fn clone(&self) -> Self { unimplemented!() } }
pub struct ListValue<'a> {
    pub position: Pos,
    pub values: Vec<Value<'a>>,
}

impl<'a> Clone for ObjectValue<'a> { #[verifier::external_body] fn clone(&self) -> Self { unimplemented!() } }
pub struct ObjectValue<'a> {
    pub position: Pos,
    pub fields: Vec<(Ident<'a>, Value<'a>)>,
}

impl<'a> Clone for Arguments<'a> { #[verifier::external_body] fn clone(&self) -> Self { unimplemented!() } }
pub struct Arguments<'a> {
    pub position: Pos,
    pub arguments: Vec<(Ident<'a>, Value<'a>)>,
}

impl<'a> IntoIterator for Arguments<'a> {
    type Item = (Ident<'a>, Value<'a>);
    type IntoIter = std::vec::IntoIter<Self::Item>;
    fn into_iter(self) -> Self::IntoIter {
        self.arguments.into_iter()
    }
}

impl<'a, 'b> IntoIterator for &'b Arguments<'a> {
    type Item = &'b (Ident<'a>, Value<'a>);
    type IntoIter = std::slice::Iter<'b, (Ident<'a>, Value<'a>)>;
    fn into_iter(self) -> Self::IntoIter {
        self.arguments.iter()
    }
}

}

pub mod variable {
use vstd::prelude::*;
use crate::nitrogql_ast::{
    base::{HasPos, Pos},
    directive::Directive,
    r#type::Type,
    value::Value,
};

/// Variable token.
#[derive(Copy, Clone)]
pub struct Variable<'a> {
    /// Variable name that does not include '$'
    pub name: &'a str,
    /// Position of '$'
    pub position: Pos,
}

impl HasPos for Variable<'_> {
    fn position(&self) -> &Pos {
        &self.position
    }
    fn name(&self) -> Option<&str> {
        Some(self.name)
    }
}

impl<'a> Clone for VariablesDefinition<'a> { #[verifier::external_body] fn clone(&self) -> Self { unimplemented!() } }
pub struct VariablesDefinition<'a> {
    pub position: Pos,
    pub definitions: Vec<VariableDefinition<'a>>,
}

impl<'a> Clone for VariableDefinition<'a> { #[verifier::external_body] fn clone(&self) -> Self { unimplemented!() } }
pub struct VariableDefinition<'a> {
    pub pos: Pos,
    pub name: Variable<'a>,
    pub r#type: Type<'a>,
    pub default_value: Option<Value<'a>>,
    pub directives: Vec<Directive<'a>>,
}

}

}
pub mod graphql_type_system {
use vstd::prelude::*;

pub use builder::SchemaBuilder;
pub use definitions::*;
pub use node::{Node, OriginalNodeRef};
pub use root_types::RootTypes;
pub use schema::Schema;
pub use text::Text;
pub use r#type::*;

pub mod builder {
use vstd::prelude::*;
use std::collections::{HashMap, hash_map::Entry};

use crate::graphql_type_system::{DirectiveDefinition, Node, Schema, TypeDefinition, root_types::RootTypes, text::Text};

type SchemaRootTypes<Str, OriginalNode> = RootTypes<Option<Node<Str, OriginalNode>>>;

/// Struct for building Schema.
pub struct SchemaBuilder<Str, OriginalNode> {
    description: Option<Node<Str, OriginalNode>>,
    type_definitions: HashMap<Str, Node<TypeDefinition<Str, OriginalNode>, OriginalNode>>,
    directive_definitions: HashMap<Str, Node<DirectiveDefinition<Str, OriginalNode>, OriginalNode>>,
    type_names: Vec<Str>,
    directive_names: Vec<Str>,
    root_types: Option<Node<SchemaRootTypes<Str, OriginalNode>, OriginalNode>>,
}

impl<Str, OriginalNode: Default> SchemaBuilder<Str, OriginalNode> {
    /// Create an empty Schema.
    pub fn new() -> Self {
        Self::default()
    }
    pub fn set_description(&mut self, description: Node<Str, OriginalNode>) {
        self.description = Some(description);
    }
    pub fn set_root_types(
        &mut self,
        node: OriginalNode,
    ) -> &mut RootTypes<Option<Node<Str, OriginalNode>>> {
        match self.root_types {
            None => {
                self.root_types = Some(Node::from(RootTypes::default(), node));
                self.root_types.as_mut().unwrap()
            }
            Some(ref mut root_types) => root_types,
        }
    }
}
impl<Str, OriginalNode> Default for SchemaBuilder<Str, OriginalNode> {
    fn default() -> Self {
        Self {
            description: None,
            type_definitions: HashMap::new(),
            directive_definitions: HashMap::new(),
            type_names: vec![],
            directive_names: vec![],
            root_types: None,
        }
    }
}

impl<'a, Str: Text<'a>, OriginalNode>
    Extend<(Str, Node<TypeDefinition<Str, OriginalNode>, OriginalNode>)>
    for SchemaBuilder<Str, OriginalNode>
{
    fn extend<
        T: IntoIterator<Item = (Str, Node<TypeDefinition<Str, OriginalNode>, OriginalNode>)>,
    >(
        &mut self,
        iter: T,
    ) {
        for (key, def) in iter {
            let entry = self.type_definitions.entry(key);
            if matches!(entry, Entry::Vacant(_)) {
                self.type_names.push(entry.key().clone());
            }
            entry.or_insert(def);
        }
    }
}

impl<'a, Str: Text<'a>, OriginalNode>
    Extend<(
        Str,
        Node<DirectiveDefinition<Str, OriginalNode>, OriginalNode>,
    )> for SchemaBuilder<Str, OriginalNode>
{
    fn extend<
        T: IntoIterator<
            Item = (
                Str,
                Node<DirectiveDefinition<Str, OriginalNode>, OriginalNode>,
            ),
        >,
    >(
        &mut self,
        iter: T,
    ) {
        for (key, def) in iter {
            let entry = self.directive_definitions.entry(key);
            if matches!(entry, Entry::Vacant(_)) {
                self.directive_names.push(entry.key().clone());
            }
            entry.or_insert(def);
        }
    }
}

impl<Str, OriginalNode: Default> From<SchemaBuilder<Str, OriginalNode>>
    for Schema<Str, OriginalNode>
{
    fn from(value: SchemaBuilder<Str, OriginalNode>) -> Self {
        Schema {
            description: value.description,
            type_definitions: value.type_definitions,
            directive_definitions: value.directive_definitions,
            type_names: value.type_names,
            directive_names: value.directive_names,
            root_types: value
                .root_types
                .unwrap_or(Node::from(RootTypes::default(), OriginalNode::default())),
        }
    }
}

}

pub mod cloning_utils {
use vstd::prelude::*;
use crate::graphql_type_system::Node;

pub fn map_option_node<Str, OriginalNode, U>(
    node: &Option<Node<Str, OriginalNode>>,
    f: impl FnOnce(&Str) -> U,
) -> Option<Node<U, OriginalNode>>
where
    OriginalNode: Clone,
{
    node.as_ref().map(|node| node.as_ref().map(f))
}

pub fn map_vec_node<Str, OriginalNode, U>(
    slice: &[Node<Str, OriginalNode>],
    f: impl Fn(&Str) -> U,
) -> Vec<Node<U, OriginalNode>>
where
    OriginalNode: Clone,
{
    slice.iter().map(|node| node.as_ref().map(&f)).collect()
}

}

pub mod definitions {
use vstd::prelude::*;
use crate::graphql_type_system::{
    cloning_utils::{map_option_node, map_vec_node},
    node::{Node, OriginalNodeRef},
    text::Text,
    r#type::Type,
};

/// Definition of a schema type.
impl<Str: Clone, OriginalNode: Clone> Clone for TypeDefinition<Str, OriginalNode> { #[verifier::external_body] fn clone(&self) -> Self { unimplemented!() } }
pub enum TypeDefinition<Str, OriginalNode> {
    Scalar(ScalarDefinition<Str, OriginalNode>),
    Object(ObjectDefinition<Str, OriginalNode>),
    Interface(InterfaceDefinition<Str, OriginalNode>),
    Union(UnionDefinition<Str, OriginalNode>),
    Enum(EnumDefinition<Str, OriginalNode>),
    InputObject(InputObjectDefinition<Str, OriginalNode>),
}

impl<'a, Str: Text<'a>, OriginalNode> TypeDefinition<Str, OriginalNode> {
    /// Get name of this type.
    pub fn name(&self) -> &Str {
        match self {
            TypeDefinition::Scalar(def) => &def.name,
            TypeDefinition::Object(def) => &def.name,
            TypeDefinition::Interface(def) => &def.name,
            TypeDefinition::Union(def) => &def.name,
            TypeDefinition::Enum(def) => &def.name,
            TypeDefinition::InputObject(def) => &def.name,
        }
    }
    /// Get description of this type.
    #[verifier::external_body]
    pub fn description(&self) -> Option<&str> {
        match self {
            TypeDefinition::Scalar(def) => def.description.as_ref().map(|opt| opt.borrow()),
            TypeDefinition::Object(def) => def.description.as_ref().map(|opt| opt.borrow()),
            TypeDefinition::Interface(def) => def.description.as_ref().map(|opt| opt.borrow()),
            TypeDefinition::Union(def) => def.description.as_ref().map(|opt| opt.borrow()),
            TypeDefinition::Enum(def) => def.description.as_ref().map(|opt| opt.borrow()),
            TypeDefinition::InputObject(def) => def.description.as_ref().map(|opt| opt.borrow()),
        }
    }

    /// Returns Some if self is an output object type.
    pub fn as_object(&self) -> Option<&ObjectDefinition<Str, OriginalNode>> {
        match self {
            TypeDefinition::Object(def) => Some(def),
            _ => None,
        }
    }

    /// Returns Some if self is an interface type.
    pub fn as_interface(&self) -> Option<&InterfaceDefinition<Str, OriginalNode>> {
        match self {
            TypeDefinition::Interface(def) => Some(def),
            _ => None,
        }
    }

    /// Returns Some if self is a union type.
    pub fn as_union(&self) -> Option<&UnionDefinition<Str, OriginalNode>> {
        match self {
            TypeDefinition::Union(def) => Some(def),
            _ => None,
        }
    }

    /// Returns Some if self is an input object type.
    pub fn as_input_object(&self) -> Option<&InputObjectDefinition<Str, OriginalNode>> {
        match self {
            TypeDefinition::InputObject(def) => Some(def),
            _ => None,
        }
    }
}

impl<Str, OriginalNode> TypeDefinition<Str, OriginalNode>
where
    OriginalNode: Clone,
{
    pub fn map_str<U>(&self, f: impl Fn(&Str) -> U) -> TypeDefinition<U, OriginalNode> {
        match self {
            TypeDefinition::Scalar(def) => TypeDefinition::Scalar(ScalarDefinition {
                name: def.name.as_ref().map(&f),
                description: map_option_node(&def.description, &f),
            }),
            TypeDefinition::Object(def) => TypeDefinition::Object(ObjectDefinition {
                name: def.name.as_ref().map(&f),
                description: map_option_node(&def.description, &f),
                fields: def.fields.iter().map(|x| x.map_str(&f)).collect(),
                interfaces: map_vec_node(&def.interfaces, &f),
            }),
            TypeDefinition::Interface(def) => TypeDefinition::Interface(InterfaceDefinition {
                name: def.name.as_ref().map(&f),
                description: map_option_node(&def.description, &f),
                fields: def.fields.iter().map(|x| x.map_str(&f)).collect(),
                interfaces: map_vec_node(&def.interfaces, &f),
            }),
            TypeDefinition::Union(def) => TypeDefinition::Union(UnionDefinition {
                name: def.name.as_ref().map(&f),
                description: map_option_node(&def.description, &f),
                possible_types: map_vec_node(&def.possible_types, &f),
            }),
            TypeDefinition::Enum(def) => TypeDefinition::Enum(EnumDefinition {
                name: def.name.as_ref().map(&f),
                description: map_option_node(&def.description, &f),
                members: def.members.iter().map(|x| x.map_str(&f)).collect(),
            }),
            TypeDefinition::InputObject(def) => {
                TypeDefinition::InputObject(InputObjectDefinition {
                    name: def.name.as_ref().map(&f),
                    description: map_option_node(&def.description, &f),
                    fields: def.fields.iter().map(|x| x.map_str(&f)).collect(),
                })
            }
        }
    }
}

impl<Str, OriginalNode> OriginalNodeRef<OriginalNode> for TypeDefinition<Str, OriginalNode> {
    fn original_node_ref(&self) -> &OriginalNode {
        match self {
            TypeDefinition::Scalar(def) => def.name.original_node_ref(),
            TypeDefinition::Object(def) => def.name.original_node_ref(),
            TypeDefinition::Interface(def) => def.name.original_node_ref(),
            TypeDefinition::Union(def) => def.name.original_node_ref(),
            TypeDefinition::Enum(def) => def.name.original_node_ref(),
            TypeDefinition::InputObject(def) => def.name.original_node_ref(),
        }
    }
}

/// Definition of a scalar type.
impl<Str: Clone, OriginalNode: Clone> Clone for ScalarDefinition<Str, OriginalNode> { #[verifier::external_body] fn clone(&self) -> Self { unimplemented!() } }
pub struct ScalarDefinition<Str, OriginalNode> {
    /// Name of scalar.
    pub name: Node<Str, OriginalNode>,
    /// Description of scalar.
    pub description: Option<Node<Str, OriginalNode>>,
}

/// Definition of an (output) object type.
impl<Str: Clone, OriginalNode: Clone> Clone for ObjectDefinition<Str, OriginalNode> { #[verifier::external_body] fn clone(&self) -> Self { unimplemented!() } }
pub struct ObjectDefinition<Str, OriginalNode> {
    /// Name of object.
    pub name: Node<Str, OriginalNode>,
    /// Description of object.
    pub description: Option<Node<Str, OriginalNode>>,
    /// Field definitions.
    pub fields: Vec<Field<Str, OriginalNode>>,
    /// List of interfaces implemented by this object.
    pub interfaces: Vec<Node<Str, OriginalNode>>,
}

/// Definition of an interface type.
impl<Str: Clone, OriginalNode: Clone> Clone for InterfaceDefinition<Str, OriginalNode> { #[verifier::external_body] fn clone(&self) -> Self { unimplemented!() } }
pub struct InterfaceDefinition<Str, OriginalNode> {
    /// Name of interface.
    pub name: Node<Str, OriginalNode>,
    /// Description of interface.
    pub description: Option<Node<Str, OriginalNode>>,
    /// Field definitions.
    pub fields: Vec<Field<Str, OriginalNode>>,
    /// List of interfaces implemented by this interface.
    pub interfaces: Vec<Node<Str, OriginalNode>>,
}

/// Definition of a union type.
impl<Str: Clone, OriginalNode: Clone> Clone for UnionDefinition<Str, OriginalNode> { #[verifier::external_body] fn clone(&self) -> Self { unimplemented!() } }
pub struct UnionDefinition<Str, OriginalNode> {
    /// Name of union.
    pub name: Node<Str, OriginalNode>,
    /// Description of union.
    pub description: Option<Node<Str, OriginalNode>>,
    /// Possible object types.
    pub possible_types: Vec<Node<Str, OriginalNode>>,
}

/// Definition of a union type.
impl<Str: Clone, OriginalNode: Clone> Clone for EnumDefinition<Str, OriginalNode> { #[verifier::external_body] fn clone(&self) -> Self { unimplemented!() } }
pub struct EnumDefinition<Str, OriginalNode> {
    /// Name of enum.
    pub name: Node<Str, OriginalNode>,
    /// Description of enum.
    pub description: Option<Node<Str, OriginalNode>>,
    /// Enum members.
    pub members: Vec<EnumMember<Str, OriginalNode>>,
}

/// Definition of an input object type.
impl<Str: Clone, OriginalNode: Clone> Clone for InputObjectDefinition<Str, OriginalNode> { #[verifier::external_body] fn clone(&self) -> Self { unimplemented!() } }
pub struct InputObjectDefinition<Str, OriginalNode> {
    /// Name of object.
    pub name: Node<Str, OriginalNode>,
    /// Description of object.
    pub description: Option<Node<Str, OriginalNode>>,
    /// Field definitions.
    pub fields: Vec<InputValue<Str, OriginalNode>>,
}

/// Represents one field in an object type.
impl<Str: Clone, OriginalNode: Clone> Clone for Field<Str, OriginalNode> { #[verifier::external_body] fn clone(&self) -> Self { unimplemented!() } }
pub struct Field<Str, OriginalNode> {
    /// Name of field.
    pub name: Node<Str, OriginalNode>,
    /// Description of field.
    pub description: Option<Node<Str, OriginalNode>>,
    /// Type of field.
    pub r#type: Type<Str, OriginalNode>,
    /// Arguments of this field. Empty list means no args.
    pub arguments: Vec<InputValue<Str, OriginalNode>>,
    /// If deprecated, contains the reason.
    pub deprecation: Option<Str>,
}

impl<Str, OriginalNode> Field<Str, OriginalNode>
where
    OriginalNode: Clone,
{
    pub fn map_str<U>(&self, f: impl Fn(&Str) -> U) -> Field<U, OriginalNode> {
        Field {
            name: self.name.as_ref().map(&f),
            description: map_option_node(&self.description, &f),
            r#type: self.r#type.map_str(&f),
            arguments: self.arguments.iter().map(|x| x.map_str(&f)).collect(),
            deprecation: self.deprecation.as_ref().map(&f),
        }
    }
}

impl<Str, OriginalNode> OriginalNodeRef<OriginalNode> for Field<Str, OriginalNode> {
    fn original_node_ref(&self) -> &OriginalNode {
        self.name.original_node_ref()
    }
}

/// Represents an argument to a field.
impl<Str: Clone, OriginalNode: Clone> Clone for InputValue<Str, OriginalNode> { #[verifier::external_body] fn clone(&self) -> Self { unimplemented!() } }
pub struct InputValue<Str, OriginalNode> {
    /// Name of input value.
    pub name: Node<Str, OriginalNode>,
    /// Description of input value.
    pub description: Option<Node<Str, OriginalNode>>,
    /// Type of input value.
    pub r#type: Type<Str, OriginalNode>,
    /// Default value of input value.
    pub default_value: Option<Node<Str, OriginalNode>>,
    /// If deprecated, contains the reason.
    pub deprecation: Option<Str>,
}

impl<Str, OriginalNode> InputValue<Str, OriginalNode>
where
    OriginalNode: Clone,
{
    pub fn map_str<U>(&self, f: impl Fn(&Str) -> U) -> InputValue<U, OriginalNode> {
        InputValue {
            name: self.name.as_ref().map(&f),
            description: map_option_node(&self.description, &f),
            r#type: self.r#type.map_str(&f),
            default_value: map_option_node(&self.default_value, &f),
            deprecation: self.deprecation.as_ref().map(&f),
        }
    }
}

impl<Str, OriginalNode> OriginalNodeRef<OriginalNode> for InputValue<Str, OriginalNode> {
    fn original_node_ref(&self) -> &OriginalNode {
        self.name.original_node_ref()
    }
}

/// Represents an enum member.
impl<Str: Clone, OriginalNode: Clone> Clone for EnumMember<Str, OriginalNode> { #[verifier::external_body] fn clone(&self) -> Self { unimplemented!() } }
pub struct EnumMember<Str, OriginalNode> {
    /// Name of enum member.
    pub name: Node<Str, OriginalNode>,
    /// Description of enum member.
    pub description: Option<Node<Str, OriginalNode>>,
    /// If deprecated, contains the reason.
    pub deprecation: Option<Str>,
}

impl<Str, OriginalNode> EnumMember<Str, OriginalNode>
where
    OriginalNode: Clone,
{
    pub fn map_str<U>(&self, f: impl Fn(&Str) -> U) -> EnumMember<U, OriginalNode> {
        EnumMember {
            name: self.name.as_ref().map(&f),
            description: map_option_node(&self.description, &f),
            deprecation: self.deprecation.as_ref().map(&f),
        }
    }
}

/// Represents a directive definition.
impl<Str: Clone, OriginalNode: Clone> Clone for DirectiveDefinition<Str, OriginalNode> { #[verifier::external_body] fn clone(&self) -> Self { unimplemented!() } }
pub struct DirectiveDefinition<Str, OriginalNode> {
    /// Name of directive (does not include `@`)
    pub name: Node<Str, OriginalNode>,
    /// Description of directive.
    pub description: Option<Node<Str, OriginalNode>>,
    /// Locations where this directive can be used.
    pub locations: Vec<Node<Str, OriginalNode>>,
    /// Arguments of this directive. Empty list means no args.
    pub arguments: Vec<InputValue<Str, OriginalNode>>,
    /// Whether this is repeatable. Some means this is repeatable.
    pub repeatable: Option<Node<(), OriginalNode>>,
}

impl<Str, OriginalNode> DirectiveDefinition<Str, OriginalNode> {
    /// Get name of this directive.
    pub fn name(&self) -> &Str {
        &self.name
    }
}

impl<Str, OriginalNode> DirectiveDefinition<Str, OriginalNode>
where
    OriginalNode: Clone,
{
    pub fn map_str<U>(&self, f: impl Fn(&Str) -> U) -> DirectiveDefinition<U, OriginalNode> {
        DirectiveDefinition {
            name: self.name.as_ref().map(&f),
            description: map_option_node(&self.description, &f),
            locations: map_vec_node(&self.locations, &f),
            arguments: self.arguments.iter().map(|x| x.map_str(&f)).collect(),
            repeatable: self.repeatable.clone(),
        }
    }
}

}

pub mod node {
use vstd::prelude::*;
use std::{
    fmt::Display,
    ops::{Deref, DerefMut},
};

/// Object that might be associated with an original node.
#[derive(Copy, Clone, Default)]
pub struct Node<T, OriginalNode> {
    inner: T,
    original_node: OriginalNode,
}

impl<T, OriginalNode> Node<T, OriginalNode> {
    /// Creates a new Node.
    pub fn from(inner: impl Into<T>, original_node: OriginalNode) -> Self {
        Self {
            inner: inner.into(),
            original_node,
        }
    }
    /// Returns content of self.
    pub fn into_inner(self) -> T {
        self.inner
    }
    /// Returns node associated to self.
    pub fn into_original_node(self) -> OriginalNode {
        self.original_node
    }
    /// Returns a reference to the inner value.
    pub fn inner_ref(&self) -> &T {
        &self.inner
    }
}

impl<T, OriginalNode> Node<T, OriginalNode>
where
    OriginalNode: Clone,
{
    pub fn as_ref(&self) -> Node<&T, OriginalNode> {
        Node {
            inner: &self.inner,
            original_node: self.original_node.clone(),
        }
    }
    pub fn map<U>(self, f: impl FnOnce(T) -> U) -> Node<U, OriginalNode> {
        Node {
            inner: f(self.inner),
            original_node: self.original_node.clone(),
        }
    }
}

impl<T, OriginalNode> Deref for Node<T, OriginalNode> {
    type Target = T;
    fn deref(&self) -> &Self::Target {
        self.inner_ref()
    }
}

impl<T, OriginalNode> DerefMut for Node<T, OriginalNode> {
    fn deref_mut(&mut self) -> &mut Self::Target {
        &mut self.inner
    }
}

impl<T: Display, OriginalNode> Display for Node<T, OriginalNode> {
    fn fmt(&self, f: &mut std::fmt::Formatter<'_>) -> std::fmt::Result {
        self.inner.fmt(f)
    }
}

// Note: equality between Node does not take OriginalNode in consideration.
impl<Other, T: PartialEq<Other>, OriginalNode> PartialEq<Other> for Node<T, OriginalNode> {
    fn eq(&self, other: &Other) -> bool {
        self.inner == *other
    }
}

pub trait OriginalNodeRef<OriginalNode> {
    fn original_node_ref(&self) -> &OriginalNode;
}

impl<Str, OriginalNode> OriginalNodeRef<OriginalNode> for Node<Str, OriginalNode> {
    /// Returns a reference to original node.
    fn original_node_ref(&self) -> &OriginalNode {
        &self.original_node
    }
}

}

pub mod root_types {
use vstd::prelude::*;
use crate::graphql_type_system::{Node, cloning_utils::map_option_node, text::Text};

#[derive(Copy, Clone)]
pub struct RootTypes<T> {
    /// Name of query root type.
    pub query_type: T,
    /// Name of mutation root type.
    pub mutation_type: T,
    /// Name of subscription root type.
    pub subscription_type: T,
}

impl<T> RootTypes<Option<T>> {
    pub fn set_query_type(&mut self, query_type: T) {
        self.query_type = Some(query_type);
    }
    pub fn set_mutation_type(&mut self, mutation_type: T) {
        self.mutation_type = Some(mutation_type);
    }
    pub fn set_subscription_type(&mut self, subscription_type: T) {
        self.subscription_type = Some(subscription_type);
    }
}

impl<T> Default for RootTypes<Option<T>> {
    fn default() -> Self {
        Self {
            query_type: None,
            mutation_type: None,
            subscription_type: None,
        }
    }
}

impl<Str, OriginalNode> RootTypes<Option<Node<Str, OriginalNode>>>
where
    OriginalNode: Clone,
{
    pub fn map_str<U>(&self, f: impl Fn(&Str) -> U) -> RootTypes<Option<Node<U, OriginalNode>>> {
        RootTypes {
            query_type: map_option_node(&self.query_type, &f),
            mutation_type: map_option_node(&self.mutation_type, &f),
            subscription_type: map_option_node(&self.subscription_type, &f),
        }
    }
}

impl<'a, Str: Text<'a>, OriginalNode: Clone + Default> RootTypes<Option<Node<Str, OriginalNode>>> {
    /// Unwrap root type names with default names.
    pub fn unwrap_or_default(&self) -> RootTypes<Node<Str, OriginalNode>> {
        RootTypes {
            query_type: self
                .query_type
                .clone()
                .unwrap_or(Node::from("Query", OriginalNode::default())),
            mutation_type: self
                .mutation_type
                .clone()
                .unwrap_or(Node::from("Mutation", OriginalNode::default())),
            subscription_type: self
                .subscription_type
                .clone()
                .unwrap_or(Node::from("Subscription", OriginalNode::default())),
        }
    }
}

}

pub mod schema {
use vstd::prelude::*;
use std::{collections::HashMap, hash::Hash};

use crate::graphql_type_system::{
    cloning_utils::map_option_node,
    definitions::{DirectiveDefinition, TypeDefinition},
    node::Node,
    root_types::RootTypes,
    text::Text,
};

/// Representation of GraphQL Type System.
impl<Str: Clone, OriginalNode: Clone> Clone for Schema<Str, OriginalNode> { #[verifier::external_body] fn clone(&self) -> Self { unimplemented!() } }
pub struct Schema<Str, OriginalNode> {
    /// Description of schema.
    pub(crate) description: Option<Node<Str, OriginalNode>>,
    /// Types in this schema.
    pub(crate) type_definitions:
        HashMap<Str, Node<TypeDefinition<Str, OriginalNode>, OriginalNode>>,
    /// Directives in this schema.
    pub(crate) directive_definitions:
        HashMap<Str, Node<DirectiveDefinition<Str, OriginalNode>, OriginalNode>>,
    /// Keeps insertion order for stable iteration order.
    pub(crate) type_names: Vec<Str>,
    /// Keeps insertion order for stable iteration order.
    pub(crate) directive_names: Vec<Str>,
    pub(crate) root_types: Node<RootTypes<Option<Node<Str, OriginalNode>>>, OriginalNode>,
}

impl<Str, OriginalNode> Schema<Str, OriginalNode> {
    /// Returns description of schema.
    pub fn description(&self) -> &Option<Node<Str, OriginalNode>> {
        &self.description
    }
    /// Returns the set of root operation types.
    pub fn root_types(&self) -> &Node<RootTypes<Option<Node<Str, OriginalNode>>>, OriginalNode> {
        &self.root_types
    }
}

impl<Str, OriginalNode> Schema<Str, OriginalNode>
where
    OriginalNode: Clone,
{
    /// Maps all string values in this schema.
    pub fn map_str<U>(&self, f: impl Fn(&Str) -> U) -> Schema<U, OriginalNode>
    where
        U: Eq + Hash,
    {
        Schema {
            description: map_option_node(&self.description, &f),
            type_definitions: self
                .type_definitions
                .iter()
                .map(|p__| { let (k, v) = p__; (f(k), v.as_ref().map(|x| x.map_str(&f))) })
                .collect(),
            directive_definitions: self
                .directive_definitions
                .iter()
                .map(|p__| { let (k, v) = p__; (f(k), v.as_ref().map(|x| x.map_str(&f))) })
                .collect(),
            type_names: self.type_names.iter().map(&f).collect(),
            directive_names: self.directive_names.iter().map(&f).collect(),
            root_types: self
                .root_types
                .as_ref()
                .map(|root_types| root_types.map_str(&f)),
        }
    }
}

impl<'a, Str: Text<'a>, OriginalNode> Schema<Str, OriginalNode> {
    /// Queries a type by name.
    pub fn get_type(
        &self,
        name: &str,
    ) -> Option<&Node<TypeDefinition<Str, OriginalNode>, OriginalNode>> {
        self.type_definitions.get(name)
    }
    /// Queries a directive by name.
    pub fn get_directive(
        &self,
        name: &str,
    ) -> Option<&Node<DirectiveDefinition<Str, OriginalNode>, OriginalNode>> {
        self.directive_definitions.get(name)
    }

    /// Iterate over types.
    #[verifier::external_body]
    pub fn iter_types(
        &self,
    ) -> impl Iterator<Item = (&Str, &Node<TypeDefinition<Str, OriginalNode>, OriginalNode>)>
    + use<'_, Str, OriginalNode> {
        self.type_names.iter().filter_map(move |type_name| {
            self.type_definitions
                .get(type_name.borrow())
                .map(|ty| (type_name, ty))
        })
    }
    /// Iterate over directives.
    #[verifier::external_body]
    pub fn iter_directives(
        &self,
    ) -> impl Iterator<
        Item = (
            &Str,
            &Node<DirectiveDefinition<Str, OriginalNode>, OriginalNode>,
        ),
    > + use<'_, Str, OriginalNode> {
        self.directive_names.iter().filter_map(move |type_name| {
            self.directive_definitions
                .get(type_name.borrow())
                .map(|ty| (type_name, ty))
        })
    }
}

}

pub mod text {
use vstd::prelude::*;
use std::{
    borrow::{Borrow, Cow},
    fmt::{Debug, Display},
    hash::Hash,
    ops::Deref,
};

/// Trait that expresses owned or borrowed text.
pub trait Text<'a>:
    PartialEq<Self>
    + PartialEq<&'a str>
    + PartialEq<String>
    + Eq
    + Clone
    + Hash
    + Borrow<str>
    + From<&'a str>
    + Deref<Target = str>
    + Debug
    + Display
{
}

impl<'a> Text<'a> for &'a str {}

impl Text<'static> for String {}

impl<'a> Text<'a> for Cow<'a, str> {}

}

pub mod r#type {
use vstd::prelude::*;
use std::{fmt::Display, ops::Deref};

use crate::graphql_type_system::node::Node;

/// Represents a type.
impl<Str: Clone, OriginalNode: Clone> Clone for Type<Str, OriginalNode> { #[verifier::external_body] fn clone(&self) -> Self { unimplemented!() } }
pub enum Type<Str, OriginalNode> {
    Named(NamedType<Str, OriginalNode>),
    List(Box<ListType<Str, OriginalNode>>),
    NonNull(Box<NonNullType<Str, OriginalNode>>),
}

impl<Str, OriginalNode> Type<Str, OriginalNode> {
    /// Returns whether this is a non-null type.
    pub fn is_nonnull(&self) -> bool {
        matches!(self, Type::NonNull(_))
    }
    /// Returns unwrapped type of this type.
    pub fn unwrapped(&self) -> &NamedType<Str, OriginalNode> {
        match self {
            Type::Named(named) => named,
            Type::List(inner) => inner.inner.unwrapped(),
            Type::NonNull(inner) => inner.inner.unwrapped(),
        }
    }
}

impl<Str, OriginalNode> Type<Str, OriginalNode>
where
    OriginalNode: Clone,
{
    pub fn map_str<U>(&self, f: impl Fn(&Str) -> U) -> Type<U, OriginalNode> {
        match self {
            Type::Named(named) => Type::Named(NamedType {
                name: named.name.as_ref().map(f),
            }),
            Type::List(inner) => Type::List(Box::new(ListType::from(inner.map_str(f)))),
            Type::NonNull(inner) => Type::NonNull(Box::new(NonNullType::from(inner.map_str(f)))),
        }
    }
}

impl<Str: Display, OriginalNode> Display for Type<Str, OriginalNode> {
    #[verifier::external_body]
    fn fmt(&self, f: &mut std::fmt::Formatter<'_>) -> std::fmt::Result {
        match self {
            Type::Named(inner) => write!(f, "{}", inner.name),
            Type::List(inner) => write!(f, "[{}]", inner.inner),
            Type::NonNull(inner) => write!(f, "{}!", inner.inner),
        }
    }
}

impl<Str: Clone, OriginalNode: Clone> Clone for NamedType<Str, OriginalNode> { #[verifier::external_body] fn clone(&self) -> Self { unimplemented!() } }
pub struct NamedType<Str, OriginalNode> {
    name: Node<Str, OriginalNode>,
}

impl<Str, OriginalNode> Deref for NamedType<Str, OriginalNode> {
    type Target = Node<Str, OriginalNode>;
    fn deref(&self) -> &Self::Target {
        &self.name
    }
}

impl<Str, OriginalNode> NamedType<Str, OriginalNode> {
    pub fn from(name: Node<Str, OriginalNode>) -> Self {
        Self { name }
    }
}

impl<Str: Clone, OriginalNode: Clone> Clone for ListType<Str, OriginalNode> { #[verifier::external_body] fn clone(&self) -> Self { unimplemented!() } }
pub struct ListType<Str, OriginalNode> {
    inner: Type<Str, OriginalNode>,
}

impl<Str, OriginalNode> ListType<Str, OriginalNode> {
    pub fn from(inner: Type<Str, OriginalNode>) -> Self {
        Self { inner }
    }

    pub fn into_inner(self) -> Type<Str, OriginalNode> {
        self.inner
    }

    pub fn as_inner(&self) -> &Type<Str, OriginalNode> {
        &self.inner
    }
}

impl<Str, OriginalNode> Deref for ListType<Str, OriginalNode> {
    type Target = Type<Str, OriginalNode>;
    fn deref(&self) -> &Self::Target {
        self.as_inner()
    }
}

impl<Str: Clone, OriginalNode: Clone> Clone for NonNullType<Str, OriginalNode> { #[verifier::external_body] fn clone(&self) -> Self { unimplemented!() } }
pub struct NonNullType<Str, OriginalNode> {
    inner: Type<Str, OriginalNode>,
}

impl<Str, OriginalNode> NonNullType<Str, OriginalNode> {
    pub fn from(inner: Type<Str, OriginalNode>) -> Self {
        Self { inner }
    }

    pub fn into_inner(self) -> Type<Str, OriginalNode> {
        self.inner
    }

    pub fn as_inner(&self) -> &Type<Str, OriginalNode> {
        &self.inner
    }
}

impl<Str, OriginalNode> Deref for NonNullType<Str, OriginalNode> {
    type Target = Type<Str, OriginalNode>;
    fn deref(&self) -> &Self::Target {
        self.as_inner()
    }
}

}

}
pub mod nitrogql_error { pub struct PositionedError { pub x: u8 } }
pub mod nitrogql_semantics {
use vstd::prelude::*;

pub use ast_to_type_system::ast_to_type_system;
pub use definition_map::{DefinitionMap, generate_definition_map};
pub use direct_fields_of_output_type::direct_fields_of_output_type;

pub mod ast_to_type_system {
use vstd::prelude::*;
use std::borrow::Cow;

use crate::graphql_type_system::{
    DirectiveDefinition, EnumDefinition, EnumMember, Field, InputObjectDefinition, InputValue,
    InterfaceDefinition, Node, ObjectDefinition, ScalarDefinition, Schema, SchemaBuilder,
    TypeDefinition, UnionDefinition,
};
use crate::nitrogql_ast::{
    TypeSystemDocument,
    base::{HasPos, Pos},
    directive::Directive,
    operation::OperationType,
    type_system::{
        ArgumentsDefinition, DirectiveDefinition as AstDirectiveDefinition, FieldDefinition,
        SchemaDefinition, TypeDefinition as AstTypeDefinition, TypeSystemDefinition,
    },
    value::{StringValue, Value},
};

use crate::nitrogql_semantics::type_system_utils::{convert_type, ident_to_node};

/// Convert TypeSystemDocument AST to type system struct.
pub fn ast_to_type_system<'src>(
    document: &TypeSystemDocument<'src>,
) -> Schema<Cow<'src, str>, Pos> {
    let mut builder = SchemaBuilder::<Cow<'src, str>, Pos>::new();
    for def in document.definitions.iter() {
        match def {
            TypeSystemDefinition::SchemaDefinition(def) => {
                convert_schema_definition(def, &mut builder);
            }
            TypeSystemDefinition::TypeDefinition(def) => {
                convert_type_definition(def, &mut builder);
            }
            TypeSystemDefinition::DirectiveDefinition(def) => {
                convert_directive_definition(def, &mut builder);
            }
        }
    }

    builder.into()
}

fn convert_schema_definition<'src>(
    def: &SchemaDefinition<'src>,
    builder: &mut SchemaBuilder<Cow<'src, str>, Pos>,
) {
    if let Some(ref desc) = def.description {
        builder.set_description(Node::from(desc.value.clone(), desc.position));
    }
    let root_types = builder.set_root_types(def.position);
    for (operation, def) in def.definitions.iter() {
        match operation {
            OperationType::Query => root_types.set_query_type(ident_to_node(def)),
            OperationType::Mutation => root_types.set_mutation_type(ident_to_node(def)),
            OperationType::Subscription => root_types.set_subscription_type(ident_to_node(def)),
        }
    }
}

#[verifier::external_body]

fn convert_type_definition<'src>(
    def: &AstTypeDefinition<'src>,
    builder: &mut SchemaBuilder<Cow<'src, str>, Pos>,
) {
    match def {
        AstTypeDefinition::Scalar(def) => builder
            .extend::<Vec<(_, Node<TypeDefinition<_, _>, _>)>>(vec![(
                def.name.name.into(),
                Node::from(
                    TypeDefinition::Scalar(ScalarDefinition {
                        name: ident_to_node(&def.name),
                        description: convert_description(&def.description),
                    }),
                    def.position,
                ),
            )]),
        AstTypeDefinition::Object(def) => builder
            .extend::<Vec<(_, Node<TypeDefinition<_, _>, _>)>>(vec![(
                def.name.name.into(),
                Node::from(
                    TypeDefinition::Object(ObjectDefinition {
                        name: ident_to_node(&def.name),
                        description: convert_description(&def.description),
                        fields: def.fields.iter().map(convert_field).collect(),
                        interfaces: def.implements.iter().map(ident_to_node).collect(),
                    }),
                    def.position,
                ),
            )]),
        AstTypeDefinition::Interface(def) => builder
            .extend::<Vec<(_, Node<TypeDefinition<_, _>, _>)>>(vec![(
                def.name.name.into(),
                Node::from(
                    TypeDefinition::Interface(InterfaceDefinition {
                        name: ident_to_node(&def.name),
                        description: convert_description(&def.description),
                        fields: def.fields.iter().map(convert_field).collect(),
                        interfaces: def.implements.iter().map(ident_to_node).collect(),
                    }),
                    def.position,
                ),
            )]),
        AstTypeDefinition::Union(def) => {
            builder.extend::<Vec<(_, Node<TypeDefinition<_, _>, _>)>>(vec![(
                def.name.name.into(),
                Node::from(
                    TypeDefinition::Union(UnionDefinition {
                        name: ident_to_node(&def.name),
                        description: convert_description(&def.description),
                        possible_types: def.members.iter().map(ident_to_node).collect(),
                    }),
                    def.position,
                ),
            )])
        }
        AstTypeDefinition::Enum(def) => {
            builder.extend::<Vec<(_, Node<TypeDefinition<_, _>, _>)>>(vec![(
                def.name.name.into(),
                Node::from(
                    TypeDefinition::Enum(EnumDefinition {
                        name: ident_to_node(&def.name),
                        description: convert_description(&def.description),
                        members: def
                            .values
                            .iter()
                            .map(|mem| EnumMember {
                                name: ident_to_node(&mem.name),
                                description: convert_description(&mem.description),
                                deprecation: convert_deprecation(&mem.directives),
                            })
                            .collect(),
                    }),
                    def.position,
                ),
            )])
        }
        AstTypeDefinition::InputObject(def) => {
            builder.extend::<Vec<(_, Node<TypeDefinition<_, _>, _>)>>(vec![(
                def.name.name.into(),
                Node::from(
                    TypeDefinition::InputObject(InputObjectDefinition {
                        name: ident_to_node(&def.name),
                        description: convert_description(&def.description),
                        fields: def
                            .fields
                            .iter()
                            .map(|input| InputValue {
                                name: ident_to_node(&input.name),
                                description: convert_description(&input.description),
                                r#type: convert_type(&input.r#type),
                                default_value: input.default_value.as_ref().map(|value| {
                                    // TODO: do not leak
                                    let value_disp = value.to_string().into_boxed_str();
                                    let value_disp = Box::leak(value_disp);
                                    Node::from(&*value_disp, *value.position())
                                }),
                                deprecation: convert_deprecation(&input.directives),
                            })
                            .collect(),
                    }),
                    def.position,
                ),
            )])
        }
    }
}

fn convert_directive_definition<'str>(
    def: &AstDirectiveDefinition<'str>,
    builder: &mut SchemaBuilder<Cow<'str, str>, Pos>,
) {
    builder.extend::<Vec<(_, Node<DirectiveDefinition<_, _>, _>)>>(vec![(
        def.name.name.into(),
        Node::from(
            DirectiveDefinition {
                name: ident_to_node(&def.name),
                description: convert_description(&def.description),
                locations: def
                    .locations
                    .iter()
                    .map(|loc| Node::from(loc.name, loc.position))
                    .collect(),
                arguments: convert_arguments(&def.arguments),
                repeatable: def.repeatable.map(|ident| Node::from((), ident.position)),
            },
            def.position,
        ),
    )])
}

fn convert_description(description: &Option<StringValue>) -> Option<Node<Cow<'static, str>, Pos>> {
    description
        .as_ref()
        .map(|desc| Node::from(desc.value.clone(), desc.position))
}

#[verifier::external_body]

fn convert_arguments<'src>(
    arguments: &Option<ArgumentsDefinition<'src>>,
) -> Vec<InputValue<Cow<'src, str>, Pos>> {
    arguments.as_ref().map_or(vec![], |args| {
        args.input_values
            .iter()
            .map(|input| InputValue {
                name: ident_to_node(&input.name),
                description: convert_description(&input.description),
                r#type: convert_type(&input.r#type),
                default_value: input.default_value.as_ref().map(|value| {
                    // TODO: do not leak
                    let value_disp = value.to_string().into_boxed_str();
                    let value_disp = Box::leak(value_disp);
                    Node::from(&*value_disp, *value.position())
                }),
                deprecation: convert_deprecation(&input.directives),
            })
            .collect()
    })
}

fn convert_field<'src>(field: &FieldDefinition<'src>) -> Field<Cow<'src, str>, Pos> {
    Field {
        name: ident_to_node(&field.name),
        description: convert_description(&field.description),
        r#type: convert_type(&field.r#type),
        arguments: convert_arguments(&field.arguments),
        deprecation: convert_deprecation(&field.directives),
    }
}

#[verifier::external_body]

fn convert_deprecation<'src>(directives: &[Directive<'src>]) -> Option<Cow<'src, str>> {
    directives
        .iter()
        .find(|dir| dir.name.name == "deprecated")
        .map(|dir| {
            dir.arguments
                .iter()
                .flat_map(|args| args.arguments.iter())
                .find(|p__| { let (name, _) = p__; name.name == "reason" })
                .map(|p__| { let (_, value) = p__; value })
                .and_then(|value| match value {
                    Value::StringValue(string) => Some(Cow::Owned(string.value.clone())),
                    _ => None,
                })
                .unwrap_or(
                    // Default value is from the spec
                    Cow::Borrowed("No longer supported"),
                )
        })
}

}

pub mod definition_map {
use vstd::prelude::*;
use std::{borrow::Cow, collections::HashMap};

use crate::graphql_type_system::Schema;
use crate::nitrogql_ast::{
    base::Pos,
    operation::OperationType,
    type_system::{
        DirectiveDefinition, SchemaDefinition, TypeDefinition, TypeSystemDefinition,
        TypeSystemDocument,
    },
};

use crate::nitrogql_semantics::ast_to_type_system;
pub struct DefinitionMap<'a> {
    pub type_system: Schema<Cow<'a, str>, Pos>,
    pub schema: Option<&'a SchemaDefinition<'a>>,
    pub types: HashMap<&'a str, &'a TypeDefinition<'a>>,
    pub directives: HashMap<&'a str, &'a DirectiveDefinition<'a>>,
}

impl DefinitionMap<'_> {
    /// Returns a TypeDefinition for the root type of given OperationType.
    pub fn root_type(&self, op: OperationType) -> Option<&TypeDefinition> {
        let op_type_name = match self.schema {
            Some(schema) => schema
                .definitions
                .iter()
                .find(|p__| { let (o, _) = p__; *o == op })
                .map(|p__| { let (_, ty) = p__; ty.name }),
            None => Some(match op {
                OperationType::Query => "Query",
                OperationType::Mutation => "Mutation",
                OperationType::Subscription => "Subscription",
            }),
        };
        let op_type_name = op_type_name?;
        self.types.get(op_type_name).cloned()
    }
}

pub fn generate_definition_map<'a, 'src>(
    document: &'a TypeSystemDocument<'src>,
) -> DefinitionMap<'src>
where
    'a: 'src,
{
    let mut result = DefinitionMap {
        type_system: ast_to_type_system(document),
        schema: None,
        types: HashMap::new(),
        directives: HashMap::new(),
    };
    for def in document.definitions.iter() {
        match def {
            TypeSystemDefinition::SchemaDefinition(schema) => {
                result.schema = Some(schema);
            }
            TypeSystemDefinition::TypeDefinition(def) => {
                result.types.insert(def.name().name, def);
            }
            TypeSystemDefinition::DirectiveDefinition(def) => {
                result.directives.insert(def.name.name, def);
            }
        }
    }

    result
}

}

pub mod direct_fields_of_output_type {
use vstd::prelude::*;
use std::borrow::Cow;

use crate::graphql_type_system::{Field, NamedType, Node, NonNullType, Type, TypeDefinition};
use crate::nitrogql_ast::base::Pos;

fn get_typename_meta_field<'a, S: From<&'a str>, D: Default>() -> Field<S, D> {
    Field {
        description: None,
        name: Node::from("__typename", D::default()),
        arguments: vec![],
        r#type: Type::NonNull(Box::new(NonNullType::from(Type::Named(NamedType::from(
            Node::from("String", D::default()),
        ))))),
        deprecation: None,
    }
}

#[verifier::external_body]

pub fn direct_fields_of_output_type<'a, 'b, S: From<&'a str> + Clone>(
    ty: &'b TypeDefinition<S, Pos>,
) -> Option<Vec<Cow<'b, Field<S, Pos>>>> {
    let meta_field: Field<S, Pos> = get_typename_meta_field();
    match ty {
        TypeDefinition::Object(obj) => Some(
            obj.fields
                .iter()
                .map(Cow::Borrowed)
                .chain(vec![Cow::Owned(meta_field)])
                .collect(),
        ),
        TypeDefinition::Interface(obj) => Some(
            obj.fields
                .iter()
                .map(Cow::Borrowed)
                .chain(vec![Cow::Owned(meta_field)])
                .collect(),
        ),
        TypeDefinition::Union(_) => Some(vec![Cow::Owned(meta_field)]),
        TypeDefinition::Scalar(_) | TypeDefinition::Enum(_) | TypeDefinition::InputObject(_) => {
            None
        }
    }
}

}

pub mod type_system_utils {
use vstd::prelude::*;
use crate::graphql_type_system::{ListType, NamedType, Node, NonNullType, Type};
use crate::nitrogql_ast::{
    base::{Ident, Pos},
    r#type::Type as AstType,
};

/// Convert AST type to Type System type.
pub fn convert_type<'a, 'src, R: From<&'src str>>(ty: &'a AstType<'src>) -> Type<R, Pos> {
    match ty {
        AstType::Named(ty) => Type::Named(NamedType::from(ident_to_node(&ty.name))),
        AstType::List(ty) => Type::List(Box::new(ListType::from(convert_type(&ty.r#type)))),
        AstType::NonNull(ty) => {
            Type::NonNull(Box::new(NonNullType::from(convert_type(&ty.r#type))))
        }
    }
}

pub fn ident_to_node<'src, T: From<&'src str>>(ident: &Ident<'src>) -> Node<T, Pos> {
    Node::from(ident.name, ident.position)
}

}

}
pub mod nitrogql_checker {
use vstd::prelude::*;

pub use error::{CheckError, CheckErrorMessage};
pub use type_system_checker::check_type_system_document;

pub mod common {
use vstd::prelude::*;
use crate::graphql_type_system::{InputValue, OriginalNodeRef, Schema, Text, Type, TypeDefinition};

use crate::nitrogql_ast::{
    base::{HasPos, Pos},
    directive::Directive,
    value::{Arguments, Value},
    variable::{Variable, VariableDefinition, VariablesDefinition},
};
use crate::nitrogql_semantics::type_system_utils::convert_type;

use super::error::{CheckError, CheckErrorMessage};

pub fn check_directives<'src, S: Text<'src>>(
    definitions: &Schema<S, Pos>,
    variables: Option<&VariablesDefinition<'src>>,
    directives: &[Directive<'src>],
    current_position: &'static str,
    result: &mut Vec<CheckError>,
) {
    let mut seen_directives = vec![];
    for d in directives {
        match definitions.get_directive(d.name.name) {
            None => result.push(
                CheckErrorMessage::UnknownDirective {
                    name: d.name.to_string(),
                }
                .with_pos(d.name.position),
            ),
            Some(def) => {
                if def.locations.iter().all(|loc| **loc != current_position) {
                    result.push(
                        CheckErrorMessage::DirectiveLocationNotAllowed {
                            name: d.name.to_string(),
                        }
                        .with_pos(d.position),
                    );
                }
                if seen_directives.contains(&d.name.name) {
                    if def.repeatable.is_none() {
                        result.push(
                            CheckErrorMessage::RepeatedDirective {
                                name: d.name.to_string(),
                            }
                            .with_pos(d.position),
                        )
                    }
                } else {
                    seen_directives.push(d.name.name);
                }

                check_arguments(
                    definitions,
                    variables,
                    d.position,
                    d.name.name,
                    "directive",
                    d.arguments.as_ref(),
                    def.arguments.as_ref(),
                    result,
                );
            }
        }
    }
}
pub fn check_arguments<'src, S: Text<'src>>(
    definitions: &Schema<S, Pos>,
    variables: Option<&VariablesDefinition<'src>>,
    parent_pos: Pos,
    parent_name: &str,
    parent_kind: &'static str,
    arguments: Option<&Arguments<'src>>,
    arguments_definition: &[InputValue<S, Pos>],
    result: &mut Vec<CheckError>,
) {
    match arguments {
        None if arguments_definition.is_empty() => {}
        Some(args) if arguments_definition.is_empty() => {
            result.push(
                CheckErrorMessage::ArgumentsNotNeeded { kind: parent_kind }
                    .with_pos(args.position)
                    .with_additional_info(vec![(
                        parent_pos,
                        CheckErrorMessage::DefinitionPos {
                            name: parent_name.to_owned(),
                        },
                    )]),
            );
        }
        arguments => {
            let argument_pos = arguments.map_or(parent_pos, |args| args.position);
            let arguments: Vec<_> = match arguments {
                None => vec![],
                Some(arg) => arg.arguments.iter().collect(),
            };

            let mut seen_args = 0;
            for arg_def in arguments_definition.iter() {
                let arg = arguments
                    .iter()
                    .find(|p__| { let (arg_name, _) = p__; arg_def.name == arg_name.name });
                match arg {
                    None => {
                        let null_is_allowed;
'b: loop
    decreases 0int
{
                            if !arg_def.r#type.is_nonnull() {
                                { null_is_allowed = true; break 'b; }
                            }
null_is_allowed = // TODO: maybe check for null default value
                            arg_def.default_value.is_some();
break 'b;
}
                        if !null_is_allowed {
                            result.push(
                                CheckErrorMessage::RequiredArgumentNotSpecified {
                                    name: arg_def.name.to_string(),
                                }
                                .with_pos(argument_pos)
                                .with_additional_info(vec![(
                                    *arg_def.name.original_node_ref(),
                                    CheckErrorMessage::DefinitionPos {
                                        name: arg_def.name.to_string(),
                                    },
                                )]),
                            )
                        }
                    }
                    Some((_, arg_value)) => {
                        check_value(definitions, variables, arg_value, &arg_def.r#type, result);
                        seen_args += 1;
                    }
                }
            }
            if seen_args < arguments.len() {
                // There are extra arguments
                for (arg_name, _) in arguments {
                    if arguments_definition
                        .iter()
                        .all(|arg_def| arg_def.name != arg_name.name)
                    {
                        result.push(
                            CheckErrorMessage::UnknownArgument {
                                name: arg_name.to_string(),
                            }
                            .with_pos(arg_name.position),
                        );
                    }
                }
            }
        }
    }
}

#[verifier::external_body]

pub fn check_value<'src, S: Text<'src>>(
    definitions: &Schema<S, Pos>,
    variables: Option<&VariablesDefinition<'src>>,
    value: &Value<'src>,
    expected_type: &Type<S, Pos>,
    result: &mut Vec<CheckError>,
) {
    let mut additional_info = vec![];
    let is_mismatch;
'b: loop
    decreases 0int
{
        if let Value::Variable(variable) = value {
            let Some(v_def) = get_variable_definition(variables, variable) else {
                result.push(
                    CheckErrorMessage::UnknownVariable {
                        name: variable.name.to_owned(),
                    }
                    .with_pos(*value.position()),
                );
                return;
            };
            { is_mismatch = !check_type_compatibility(&convert_type(&v_def.r#type), expected_type); break 'b; }
        }
is_mismatch = match expected_type {
            Type::NonNull(inner) => match value {
                Value::NullValue(_) => true,
                Value::Variable(_) => unreachable!(),
                value => {
                    check_value(definitions, variables, value, inner, result);
                    false
                }
            },
            Type::List(expected_inner) => match value {
                Value::ListValue(inner) => {
                    for elem in inner.values.iter() {
                        check_value(definitions, variables, elem, expected_inner, result);
                    }
                    false
                }
                Value::Variable(_) => unreachable!(),
                _ => true,
            },
            Type::Named(expected_name) => {
                let Some(type_def) = definitions.get_type(expected_name) else {
                    // unknown type name
                    result.push(
                        CheckErrorMessage::TypeSystemError
                            .with_pos(*expected_name.original_node_ref())
                            .with_additional_info(vec![(
                                *expected_name.original_node_ref(),
                                CheckErrorMessage::UnknownType {
                                    name: expected_name.to_string(),
                                },
                            )]),
                    );
                    return;
                };
                let (is_compatible, a) =
                    is_value_compatible_type_def(definitions, variables, value, type_def, result);
                additional_info.extend(a);
                !is_compatible
            }
        };
break 'b;
}
    if is_mismatch {
        result.push(
            CheckErrorMessage::TypeMismatch {
                type_: expected_type.to_string(),
            }
            .with_pos(*value.position())
            .with_additional_info(additional_info),
        );
    }
}

// Note: this function does not consider Value::Variable
fn is_value_compatible_type_def<'src, S: Text<'src>>(
    definitions: &Schema<S, Pos>,
    variables: Option<&VariablesDefinition<'src>>,
    value: &Value<'src>,
    expected_type: &TypeDefinition<S, Pos>,
    result: &mut Vec<CheckError>,
) -> (bool, Vec<(Pos, CheckErrorMessage)>) {
    match expected_type {
        TypeDefinition::Scalar(scalar_def) => {
            // TODO: better handling of scalar, including custom scalars
            (
                match scalar_def.name.inner_ref().as_ref() {
                    "Boolean" => matches!(value, Value::BooleanValue(_) | Value::NullValue(_)),
                    "Int" => matches!(value, Value::IntValue(_) | Value::NullValue(_)),
                    "Float" => matches!(value, Value::FloatValue(_) | Value::NullValue(_)),
                    "String" => matches!(value, Value::StringValue(_) | Value::NullValue(_)),
                    "ID" => matches!(value, Value::StringValue(_) | Value::NullValue(_)),
                    custom_scalar => {
                        true
                    }
                },
                vec![],
            )
        }
        TypeDefinition::Object(_) | TypeDefinition::Interface(_) | TypeDefinition::Union(_) => {
            // These are never inputs
            (false, vec![])
        }
        TypeDefinition::Enum(enum_def) => match value {
            Value::NullValue(_) => (true, vec![]),
            Value::EnumValue(value) => {
                let enum_name = value.value;
                if enum_def.members.iter().all(|v| v.name != enum_name) {
                    result.push(
                        CheckErrorMessage::UnknownEnumMember {
                            member: enum_name.to_owned(),
                            enum_: enum_def.name.to_string(),
                        }
                        .with_pos(value.position)
                        .with_additional_info(vec![(
                            *enum_def.name.original_node_ref(),
                            CheckErrorMessage::DefinitionPos {
                                name: enum_def.name.to_string(),
                            },
                        )]),
                    );
                }
                (true, vec![])
            }
            _ => (false, vec![]),
        },
        TypeDefinition::InputObject(object_def) => {
            let Value::ObjectValue(value) = value else {
                if matches!(value, Value::NullValue(_)) {
                    return (true, vec![]);
                }
                return (false, vec![]);
            };
            let mut res = true;
            let mut additional_info = vec![];
            let mut seen_fields = 0;
            for expected_field in object_def.fields.iter() {
                let value_field = value
                    .fields
                    .iter()
                    .find(|p__| { let (key, _) = p__; expected_field.name == key.name });
                match value_field {
                    None => {
                        if expected_field.r#type.is_nonnull()
                            && expected_field.default_value.is_none()
                        {
                            // When field does not exist and the expected field is both non-nullable and has no default value, then it is an error.
                            res = false;
                            additional_info.push((
                                *expected_field.original_node_ref(),
                                CheckErrorMessage::RequiredFieldNotSpecified {
                                    name: expected_field.name.to_string(),
                                },
                            ));
                        } else {
                            seen_fields += 1;
                        }
                    }
                    Some((_, value)) => {
                        check_value(
                            definitions,
                            variables,
                            value,
                            &expected_field.r#type,
                            result,
                        );
                        seen_fields += 1;
                    }
                }
            }
            if seen_fields < value.fields.len() {
                // Value has extraneous field
                res = false;
                for (key, _) in value.fields.iter() {
                    let field_def = object_def.fields.iter().find(|f| f.name == key.name);
                    if field_def.is_none() {
                        additional_info.push((
                            key.position,
                            CheckErrorMessage::UnknownField {
                                name: key.name.to_owned(),
                            },
                        ))
                    }
                }
            }
            (res, additional_info)
        }
    }
}

/// Returns true if `value_type` is assignable to `expected_type`.
fn check_type_compatibility<'src, S: Text<'src>>(
    value_type: &Type<S, Pos>,
    expected_type: &Type<S, Pos>,
) -> bool {
    // https://spec.graphql.org/draft/#AreTypesCompatible()
    match (expected_type, value_type) {
        (Type::NonNull(expected_inner), Type::NonNull(value_inner)) => {
            check_type_compatibility(value_inner, expected_inner)
        }
        (_, Type::NonNull(value_inner)) => check_type_compatibility(value_inner, expected_type),
        (Type::NonNull(_), _) => false,
        (Type::List(expected_inner), Type::List(value_inner)) => {
            check_type_compatibility(value_inner, expected_inner)
        }
        (Type::List(_), _) => false,
        (_, Type::List(_)) => false,
        (Type::Named(expected_name), Type::Named(value_inner)) => **expected_name == ***value_inner,
    }
}

fn get_variable_definition<'a, 'src>(
    variables: Option<&'a VariablesDefinition<'src>>,
    variable: &'a Variable<'src>,
) -> Option<&'a VariableDefinition<'src>> {
    variables.and_then(|variables| {
        variables
            .definitions
            .iter()
            .find(|def| def.name.name == variable.name)
    })
}

}

pub mod error {
use vstd::prelude::*;
use std::fmt::Display;


use crate::nitrogql_ast::{base::Pos, operation::OperationType};
use crate::nitrogql_error::PositionedError;
pub struct CheckError {
    pub position: Pos,
    pub message: CheckErrorMessage,
    pub additional_info: Vec<(Pos, CheckErrorMessage)>,
}

impl CheckError {
    #[verifier::external_body]
    pub fn with_additional_info(
        self,
        infos: impl IntoIterator<Item = (Pos, CheckErrorMessage)>,
    ) -> Self {
        self.additional_info.extend(infos);
        self
    }
}
pub enum CheckErrorMessage {
    // errors for both
    UnknownDirective { name: String },
    DirectiveLocationNotAllowed { name: String },
    RepeatedDirective { name: String },
    ArgumentsNotNeeded { kind: &'static str },
    RequiredArgumentNotSpecified { name: String },
    TypeMismatch { type_: String },
    UnknownVariable { name: String },
    UnknownEnumMember { member: String, enum_: String },
    UnknownArgument { name: String },
    RequiredFieldNotSpecified { name: String },
    UnknownField { name: String },
    // errors for type system
    UnscoUnsco,
    DuplicatedName { name: String },
    UnknownType { name: String },
    RecursingDirective { name: String },
    NoOutputType { name: String },
    NoInputType { name: String },
    NotInterface { name: String },
    InterfaceNotImplemented { name: String },
    NoImplementSelf,
    InterfaceFieldNotImplemented {
        field_name: String,
        interface_name: String,
    },
    FieldTypeMisMatchWithInterface { interface_name: String },
    InterfaceArgumentNotImplemented {
        argument_name: String,
        interface_name: String,
    },
    ArgumentTypeMisMatchWithInterface { interface_name: String },
    ArgumentTypeNonNullAgainstInterface { interface_name: String },
    NonObjectTypeUnionMember { member_name: String },
    // errors for operation
    UnNamedOperationMustBeSingle,
    DuplicateOperationName { operation_type: OperationType },
    DuplicateFragmentName { other_position: Pos },
    NoRootType { operation_type: OperationType },
    SelectionOnInvalidType { kind: TypeKind, name: String },
    MustSpecifySelectionSet { name: String },
    FieldNotFound {
        field_name: String,
        type_name: String,
    },
    DuplicatedVariableName { name: String },
    InvalidFragmentTarget { name: String },
    UnknownFragment { name: String },
    FragmentConditionNeverMatches { condition: String, scope: String },
    RecursingFragmentSpread { name: String },
    SubscriptionMustHaveExactlyOneRootField,
    // Error that should be checked in type system check phase
    TypeSystemError,
    // For additional info
    AnotherDefinitionPos { name: String },
    DefinitionPos { name: String },
    RootTypesAreDefinedHere,
    // Error from plugin
    Plugin { message: String },
}

impl CheckErrorMessage {
    pub fn with_pos(self, position: Pos) -> CheckError {
        CheckError {
            position,
            message: self,
            additional_info: vec![],
        }
    }
}



#[derive(Copy, Clone)]
pub enum TypeKind {
    Scalar,
    Object,
    Interface,
    Union,
    Enum,
    InputObject,
}

impl Display for TypeKind {
    #[verifier::external_body]
    fn fmt(&self, f: &mut std::fmt::Formatter<'_>) -> std::fmt::Result {
        match self {
            TypeKind::Scalar => write!(f, "scalar"),
            TypeKind::Object => write!(f, "object"),
            TypeKind::Interface => write!(f, "interface"),
            TypeKind::Union => write!(f, "union"),
            TypeKind::Enum => write!(f, "enum"),
            TypeKind::InputObject => write!(f, "input object"),
        }
    }
}

}

pub mod types {
use vstd::prelude::*;
use crate::graphql_type_system::{Schema, Text, Type, TypeDefinition};
use crate::nitrogql_ast::base::Pos;

#[derive(Copy, Clone, PartialEq, Eq)]
pub enum TypeInOutKind {
    Input,
    Output,
    Both,
}

impl TypeInOutKind {
    pub fn is_input_type(self) -> bool {
        match self {
            TypeInOutKind::Input | TypeInOutKind::Both => true,
            TypeInOutKind::Output => false,
        }
    }
    pub fn is_output_type(self) -> bool {
        match self {
            TypeInOutKind::Output | TypeInOutKind::Both => true,
            TypeInOutKind::Input => false,
        }
    }
}

/// classifies given type into output, input or both.
pub fn inout_kind_of_type<'src, S: Text<'src>>(
    definitions: &Schema<S, Pos>,
    type_name: &str,
) -> Option<TypeInOutKind> {
    let ty_def = definitions.get_type(type_name);
    ty_def.map(|def| match **def {
        TypeDefinition::Scalar(_) => TypeInOutKind::Both,
        TypeDefinition::Object(_) => TypeInOutKind::Output,
        TypeDefinition::Interface(_) => TypeInOutKind::Output,
        TypeDefinition::Union(_) => TypeInOutKind::Output,
        TypeDefinition::Enum(_) => TypeInOutKind::Both,
        TypeDefinition::InputObject(_) => TypeInOutKind::Input,
    })
}

/// Checks if target type is a subtype of other type.
/// Returns None if unknown.
pub fn is_subtype<'src, S: Text<'src>>(
    definitions: &Schema<S, Pos>,
    target: &Type<S, Pos>,
    other: &Type<S, Pos>,
) -> Option<bool> {
    match target {
        Type::NonNull(target_inner) => {
            let other = if let Type::NonNull(other_inner) = other {
                other_inner.as_inner()
            } else {
                other
            };
            is_subtype(definitions, target_inner.as_inner(), other)
        }
        Type::List(target_inner) => {
            if let Type::List(other_inner) = other {
                is_subtype(definitions, target_inner.as_inner(), other_inner.as_inner())
            } else {
                Some(false)
            }
        }
        Type::Named(target_name) => {
            let other_name = if let Type::Named(other_name) = other {
                if **target_name == ***other_name {
                    return Some(true);
                }
                Some(other_name)
            } else {
                None
            };
            let target_def = definitions.get_type(target_name)?;
            let other_def = other_name.and_then(|other_name| definitions.get_type(other_name));
            match **target_def {
                TypeDefinition::Scalar(_)
                | TypeDefinition::Enum(_)
                | TypeDefinition::Union(_)
                | TypeDefinition::InputObject(_) => {
                    // These types cannot be a union member, so it can only be subtype of itself
                    Some(false)
                }
                TypeDefinition::Interface(ref target_def) => {
                    // Interface type is considered a subtype of another when it explicitly implements the other
                    if let Some(other_name) = other_name {
                        if target_def
                            .interfaces
                            .iter()
                            .any(|imp| imp == &***other_name)
                        {
                            Some(true)
                        } else if other_def.is_some() {
                            Some(false)
                        } else {
                            None
                        }
                    } else {
                        Some(false)
                    }
                }
                TypeDefinition::Object(ref target_def) => {
                    if let Some(other_name) = other_name {
                        if target_def
                            .interfaces
                            .iter()
                            .any(|imp| imp == &***other_name)
                        {
                            return Some(true);
                        }
                    } else {
                        return Some(false);
                    }
                    if let Some(other_def) = other_def.and_then(|def| def.as_union()) {
                        if other_def
                            .possible_types
                            .iter()
                            .any(|mem| mem == &***target_name)
                        {
                            return Some(true);
                        }
                    }
                    if other_def.is_some() {
                        Some(false)
                    } else {
                        None
                    }
                }
            }
        }
    }
}

}

pub mod type_system_checker {
use vstd::prelude::*;
use crate::nitrogql_ast::{
    base::{HasPos, Ident},
    type_system::{
        ArgumentsDefinition, DirectiveDefinition, EnumTypeDefinition, InputObjectTypeDefinition,
        InterfaceTypeDefinition, ObjectTypeDefinition, ScalarTypeDefinition, SchemaDefinition,
        TypeDefinition, TypeSystemDefinition, TypeSystemDocument, UnionTypeDefinition,
    },
};

use self::{
    check_directive_recursion::check_directive_recursion, interfaces::check_valid_implementation,
};

use super::{
    common::check_directives,
    error::{CheckError, CheckErrorMessage},
    types::inout_kind_of_type,
};
use crate::nitrogql_semantics::{DefinitionMap, generate_definition_map};

mod check_directive_recursion {
use vstd::prelude::*;
use std::collections::HashSet;

use crate::nitrogql_checker::error::{CheckError, CheckErrorMessage};
use crate::nitrogql_ast::{
    directive::Directive,
    type_system::{DirectiveDefinition, TypeDefinition},
};
use crate::nitrogql_semantics::DefinitionMap;

/// Checks and generates diagnostics for recursed directives.
#[verifier::external_body]
pub fn check_directive_recursion(
    definition_map: &DefinitionMap,
    directive: &DirectiveDefinition,
    result: &mut Vec<CheckError>,
) {
    let mut seen_directives = HashSet::new();
    let mut current_directives = vec![directive];
    loop {
        let mut next_directives: Vec<&DirectiveDefinition> = vec![];
        for d in current_directives.into_iter() {
            if seen_directives.contains(d.name.name) {
                // Recursion!
                result.push(
                    CheckErrorMessage::RecursingDirective {
                        name: d.name.to_string(),
                    }
                    .with_pos(d.position),
                );
                continue;
            }
            seen_directives.insert(d.name.name);
            next_directives.extend(
                d.arguments
                    .iter()
                    .flat_map(|arguments| arguments.input_values.iter())
                    .flat_map(|def| {
                        let type_definition = definition_map
                            .types
                            .get(def.r#type.unwrapped_type().name.name);
                        let type_definition_directives = type_definition
                            .into_iter()
                            .flat_map(|def| directives_in_type(def));

                        def.directives.iter().chain(type_definition_directives)
                    })
                    .flat_map(|directive| {
                        definition_map
                            .directives
                            .get(directive.name.name)
                            .into_iter()
                    })
                    .copied(),
            );
        }
        if next_directives.is_empty() {
            break;
        }
        current_directives = next_directives;
    }
}

#[verifier::external_body]

fn directives_in_type<'a>(def: &'a TypeDefinition<'a>) -> Vec<&'a Directive<'a>> {
    match def {
        TypeDefinition::Scalar(def) => def.directives.iter().collect(),
        TypeDefinition::Object(def) => def
            .directives
            .iter()
            .chain(def.fields.iter().flat_map(|f| f.directives.iter()))
            .collect(),
        TypeDefinition::Interface(def) => def
            .directives
            .iter()
            .chain(def.fields.iter().flat_map(|f| f.directives.iter()))
            .collect(),
        TypeDefinition::Union(def) => def.directives.iter().collect(),
        TypeDefinition::Enum(def) => def
            .directives
            .iter()
            .chain(def.values.iter().flat_map(|v| v.directives.iter()))
            .collect(),
        TypeDefinition::InputObject(def) => def
            .directives
            .iter()
            .chain(def.fields.iter().flat_map(|f| f.directives.iter()))
            .collect(),
    }
}

}
mod interfaces {
use vstd::prelude::*;
use crate::nitrogql_checker::{error::CheckError, types::is_subtype};
use crate::nitrogql_ast::{
    base::Ident,
    type_system::{FieldDefinition, InterfaceTypeDefinition},
};
use crate::nitrogql_semantics::{DefinitionMap, type_system_utils::convert_type};

use super::CheckErrorMessage;

/// Checks if given object or interface validly implements given interface.
/// https://spec.graphql.org/draft/#IsValidImplementation()
#[verifier::external_body]
pub fn check_valid_implementation(
    definitions: &DefinitionMap,
    object_name: &Ident,
    fields: &[FieldDefinition],
    implements: &[Ident],
    interface: &InterfaceTypeDefinition,
    result: &mut Vec<CheckError>,
) {
    // If implementedType declares it implements any interfaces, type must also declare it implements those interfaces.
    for imp in interface.implements.iter() {
        if !implements.iter().any(|ident| ident.name == imp.name) {
            result.push(
                CheckErrorMessage::InterfaceNotImplemented {
                    name: imp.name.to_owned(),
                }
                .with_pos(object_name.position),
            );
        }
    }
    // type must include a field of the same name for every field defined in implementedType.
    for imp_field in interface.fields.iter() {
        let Some(field) = fields
            .iter()
            .find(|field| imp_field.name.name == field.name.name)
        else {
            result.push(
                CheckErrorMessage::InterfaceFieldNotImplemented {
                    field_name: imp_field.name.to_string(),
                    interface_name: interface.name.to_string(),
                }
                .with_pos(object_name.position),
            );
            continue;
        };

        // field must include an argument of the same name for every argument defined in implementedField.
        for imp_arg in imp_field
            .arguments
            .iter()
            .flat_map(|args| args.input_values.iter())
        {
            let Some(field_arg) = field
                .arguments
                .iter()
                .flat_map(|args| args.input_values.iter())
                .find(|arg| arg.name.name == imp_arg.name.name)
            else {
                result.push(
                    CheckErrorMessage::InterfaceArgumentNotImplemented {
                        argument_name: imp_arg.name.to_string(),
                        interface_name: interface.name.to_string(),
                    }
                    .with_pos(field.name.position),
                );
                continue;
            };
            // That named argument on field must accept the same type (invariant) as that named argument on implementedField.
            if !field_arg.r#type.is_same(&imp_arg.r#type) {
                result.push(
                    CheckErrorMessage::ArgumentTypeMisMatchWithInterface {
                        interface_name: interface.name.to_string(),
                    }
                    .with_pos(field_arg.name.position),
                );
            }
        }
        // field may include additional arguments not defined in implementedField, but any additional argument must not be required, e.g. must not be of a non-nullable type.
        if let Some(ref arguments) = field.arguments {
            for field_arg in arguments.input_values.iter().filter(|arg| {
                imp_field
                    .arguments
                    .iter()
                    .flat_map(|imp_args| imp_args.input_values.iter())
                    .all(|imp_arg| imp_arg.name.name != arg.name.name)
            }) {
                if field_arg.r#type.is_nonnull() {
                    result.push(
                        CheckErrorMessage::ArgumentTypeNonNullAgainstInterface {
                            interface_name: interface.name.to_string(),
                        }
                        .with_pos(field_arg.name.position),
                    );
                }
            }
        }
        // field must return a type which is equal to or a sub-type of (covariant) the return type of implementedField field’s return type:
        if is_subtype(
            &definitions.type_system,
            &convert_type(&field.r#type),
            &convert_type(&imp_field.r#type),
        ) == Some(false)
        {
            result.push(
                CheckErrorMessage::FieldTypeMisMatchWithInterface {
                    interface_name: interface.name.to_string(),
                }
                .with_pos(field.name.position),
            );
        }
    }
}

}

/// Checks for invalid type system definition document.
pub fn check_type_system_document(document: &TypeSystemDocument) -> Vec<CheckError> {
    let definition_map = generate_definition_map(document);

    let mut result = vec![];

    for def in document.definitions.iter() {
        match def {
            TypeSystemDefinition::SchemaDefinition(d) => {
                check_schema(d, &definition_map, &mut result);
            }
            TypeSystemDefinition::TypeDefinition(d) => match d {
                TypeDefinition::Scalar(d) => {
                    check_scalar(d, &definition_map, &mut result);
                }
                TypeDefinition::Object(d) => {
                    check_object(d, &definition_map, &mut result);
                }
                TypeDefinition::Interface(d) => {
                    check_interface(d, &definition_map, &mut result);
                }
                TypeDefinition::Union(d) => {
                    check_union(d, &definition_map, &mut result);
                }
                TypeDefinition::Enum(d) => {
                    check_enum(d, &definition_map, &mut result);
                }
                TypeDefinition::InputObject(d) => {
                    check_input_object(d, &definition_map, &mut result);
                }
            },
            TypeSystemDefinition::DirectiveDefinition(d) => {
                check_directive(d, &definition_map, &mut result);
            }
        }
    }

    // result.append(&mut validate_scalars(
    //     &scalar_definitions[..],
    //     &directive_by_name,
    // ));

    result
}

fn check_schema(d: &SchemaDefinition, definitions: &DefinitionMap, result: &mut Vec<CheckError>) {
    check_directives(
        &definitions.type_system,
        None,
        &d.directives,
        "SCHEMA",
        result,
    );
}

fn check_directive(
    d: &DirectiveDefinition,
    definitions: &DefinitionMap,
    result: &mut Vec<CheckError>,
) {
    check_directive_recursion(definitions, d, result);

    if name_starts_with_unscounsco(&d.name) {
        result.push(CheckErrorMessage::UnscoUnsco.with_pos(*d.name.position()));
    }
    if let Some(ref arg) = d.arguments {
        check_arguments_definition(arg, definitions, result);
    }
}

fn check_scalar(
    scalar: &ScalarTypeDefinition,
    definition_map: &DefinitionMap,
    result: &mut Vec<CheckError>,
) {
    if name_starts_with_unscounsco(&scalar.name) {
        result.push(CheckErrorMessage::UnscoUnsco.with_pos(scalar.name.position))
    }
    check_directives(
        &definition_map.type_system,
        None,
        &scalar.directives,
        "SCALAR",
        result,
    );
}

#[verifier::external_body]
fn check_object(
    object: &ObjectTypeDefinition,
    definitions: &DefinitionMap,
    result: &mut Vec<CheckError>,
) {
    if name_starts_with_unscounsco(&object.name) {
        result.push(CheckErrorMessage::UnscoUnsco.with_pos(*object.name.position()));
    }
    check_directives(
        &definitions.type_system,
        None,
        &object.directives,
        "OBJECT",
        result,
    );

    let mut seen_fields = vec![];
    for f in object.fields.iter() {
        if seen_fields.contains(&f.name.name) {
            result.push(
                CheckErrorMessage::DuplicatedName {
                    name: f.name.to_string(),
                }
                .with_pos(*f.name.position()),
            );
        } else {
            seen_fields.push(f.name.name);
        }
        if name_starts_with_unscounsco(&f.name) {
            result.push(CheckErrorMessage::UnscoUnsco.with_pos(*f.name.position()));
        }

        check_directives(
            &definitions.type_system,
            None,
            &f.directives,
            "FIELD_DEFINITION",
            result,
        );

        match inout_kind_of_type(
            &definitions.type_system,
            f.r#type.unwrapped_type().name.name,
        )
        .map(|k| k.is_output_type())
        {
            Some(true) => {}
            Some(false) => {
                result.push(
                    CheckErrorMessage::NoInputType {
                        name: f.r#type.unwrapped_type().name.to_string(),
                    }
                    .with_pos(*f.r#type.position()),
                );
            }
            None => {
                result.push(
                    CheckErrorMessage::UnknownType {
                        name: f.r#type.unwrapped_type().name.to_string(),
                    }
                    .with_pos(*f.r#type.position()),
                );
            }
        }
        if let Some(ref arg) = f.arguments {
            check_arguments_definition(arg, definitions, result)
        }
    }
    for interface in object.implements.iter() {
        let Some(interface_def) = definitions.types.get(interface.name) else {
            result.push(
                CheckErrorMessage::UnknownType {
                    name: interface.name.to_owned(),
                }
                .with_pos(*interface.position()),
            );
            continue;
        };
        let TypeDefinition::Interface(def) = interface_def else {
            result.push(
                CheckErrorMessage::NotInterface {
                    name: interface.name.to_owned(),
                }
                .with_pos(*interface.position()),
            );
            continue;
        };
        check_valid_implementation(
            definitions,
            &object.name,
            &object.fields,
            &object.implements,
            def,
            result,
        );
    }
}

#[verifier::external_body]
fn check_interface(
    interface: &InterfaceTypeDefinition,
    definitions: &DefinitionMap,
    result: &mut Vec<CheckError>,
) {
    if name_starts_with_unscounsco(&interface.name) {
        result.push(CheckErrorMessage::UnscoUnsco.with_pos(*interface.name.position()));
    }
    check_directives(
        &definitions.type_system,
        None,
        &interface.directives,
        "INTERFACE",
        result,
    );

    let mut seen_fields = vec![];
    for f in interface.fields.iter() {
        if seen_fields.contains(&f.name.name) {
            result.push(
                CheckErrorMessage::DuplicatedName {
                    name: f.name.to_string(),
                }
                .with_pos(*f.name.position()),
            );
        } else {
            seen_fields.push(f.name.name);
        }
        if name_starts_with_unscounsco(&f.name) {
            result.push(CheckErrorMessage::UnscoUnsco.with_pos(*f.name.position()));
        }

        check_directives(
            &definitions.type_system,
            None,
            &f.directives,
            "FIELD",
            result,
        );

        if inout_kind_of_type(
            &definitions.type_system,
            f.r#type.unwrapped_type().name.name,
        )
        .is_some_and(|k| !k.is_output_type())
        {
            result.push(
                CheckErrorMessage::NoInputType {
                    name: f.r#type.unwrapped_type().name.to_string(),
                }
                .with_pos(*f.r#type.position()),
            );
        }
        if let Some(ref arg) = f.arguments {
            check_arguments_definition(arg, definitions, result)
        }
    }
    for other_interface in interface.implements.iter() {
        if interface.name.name == other_interface.name {
            result.push(CheckErrorMessage::NoImplementSelf.with_pos(other_interface.position));
            continue;
        }
        let Some(interface_def) = definitions.types.get(other_interface.name) else {
            result.push(
                CheckErrorMessage::UnknownType {
                    name: other_interface.name.to_owned(),
                }
                .with_pos(*other_interface.position()),
            );
            continue;
        };
        let TypeDefinition::Interface(def) = interface_def else {
            result.push(
                CheckErrorMessage::NotInterface {
                    name: other_interface.name.to_owned(),
                }
                .with_pos(*other_interface.position()),
            );
            continue;
        };
        check_valid_implementation(
            definitions,
            &interface.name,
            &interface.fields,
            &interface.implements,
            def,
            result,
        );
    }
}

fn check_union(
    union: &UnionTypeDefinition,
    definitions: &DefinitionMap,
    result: &mut Vec<CheckError>,
) {
    if name_starts_with_unscounsco(&union.name) {
        result.push(CheckErrorMessage::UnscoUnsco.with_pos(*union.name.position()));
    }
    check_directives(
        &definitions.type_system,
        None,
        &union.directives,
        "UNION",
        result,
    );

    let mut seen_members = vec![];
    for member in union.members.iter() {
        if seen_members.contains(&member.name) {
            result.push(
                CheckErrorMessage::DuplicatedName {
                    name: member.name.to_owned(),
                }
                .with_pos(member.position),
            );
        } else {
            seen_members.push(member.name);
        }
        // The member types of a Union type must all be Object base types;
        let member_type_def = definitions.types.get(member.name);
        match member_type_def {
            None => {
                result.push(
                    CheckErrorMessage::UnknownType {
                        name: member.name.to_owned(),
                    }
                    .with_pos(member.position),
                );
            }
            Some(member_type_def) => {
                if !matches!(member_type_def, TypeDefinition::Object(_)) {
                    result.push(
                        CheckErrorMessage::NonObjectTypeUnionMember {
                            member_name: member.name.to_owned(),
                        }
                        .with_pos(member.position),
                    );
                }
            }
        }
    }
}

fn check_enum(
    enum_def: &EnumTypeDefinition,
    definitions: &DefinitionMap,
    result: &mut Vec<CheckError>,
) {
    if name_starts_with_unscounsco(&enum_def.name) {
        result.push(CheckErrorMessage::UnscoUnsco.with_pos(*enum_def.name.position()));
    }
    check_directives(
        &definitions.type_system,
        None,
        &enum_def.directives,
        "ENUM",
        result,
    );

    let mut seen_values = vec![];
    for v in enum_def.values.iter() {
        if seen_values.contains(&v.name.name) {
            result.push(
                CheckErrorMessage::DuplicatedName {
                    name: v.name.to_string(),
                }
                .with_pos(v.name.position),
            );
        } else {
            seen_values.push(v.name.name);
        }
        check_directives(
            &definitions.type_system,
            None,
            &v.directives,
            "ENUM_VALUE",
            result,
        )
    }
}

fn check_input_object(
    input: &InputObjectTypeDefinition,
    definitions: &DefinitionMap,
    result: &mut Vec<CheckError>,
) {
    if name_starts_with_unscounsco(&input.name) {
        result.push(CheckErrorMessage::UnscoUnsco.with_pos(*input.name.position()));
    }
    check_directives(
        &definitions.type_system,
        None,
        &input.directives,
        "INPUT_OBJECT",
        result,
    );

    let mut seen_fields = vec![];
    for f in input.fields.iter() {
        if seen_fields.contains(&f.name.name) {
            result.push(
                CheckErrorMessage::DuplicatedName {
                    name: f.name.to_string(),
                }
                .with_pos(f.name.position),
            )
        } else {
            seen_fields.push(f.name.name);
        }
        if name_starts_with_unscounsco(&f.name) {
            result.push(CheckErrorMessage::UnscoUnsco.with_pos(f.name.position));
        }
        check_directives(
            &definitions.type_system,
            None,
            &f.directives,
            "INPUT_FIELD_DEFINITION",
            result,
        );

        let type_is_not_input_type = inout_kind_of_type(
            &definitions.type_system,
            f.r#type.unwrapped_type().name.name,
        )
        .map(|k| !k.is_input_type());
        match type_is_not_input_type {
            None => {
                result.push(
                    CheckErrorMessage::UnknownType {
                        name: f.r#type.unwrapped_type().name.to_string(),
                    }
                    .with_pos(*f.r#type.position()),
                );
            }
            Some(true) => {
                result.push(
                    CheckErrorMessage::NoOutputType {
                        name: f.r#type.unwrapped_type().name.to_string(),
                    }
                    .with_pos(*f.r#type.position()),
                );
            }
            Some(false) => {}
        }
    }
}

fn check_arguments_definition(
    def: &ArgumentsDefinition,
    definitions: &DefinitionMap,
    result: &mut Vec<CheckError>,
) {
    let mut argument_names = vec![];
    for v in def.input_values.iter() {
        if name_starts_with_unscounsco(&v.name) {
            result.push(CheckErrorMessage::UnscoUnsco.with_pos(*v.name.position()));
        }
        if argument_names.contains(&v.name.name) {
            result.push(
                CheckErrorMessage::DuplicatedName {
                    name: v.name.to_string(),
                }
                .with_pos(v.name.position),
            );
        } else {
            argument_names.push(v.name.name);
        }

        match inout_kind_of_type(
            &definitions.type_system,
            v.r#type.unwrapped_type().name.name,
        ) {
            None => {
                result.push(
                    CheckErrorMessage::UnknownType {
                        name: v.r#type.unwrapped_type().name.to_string(),
                    }
                    .with_pos(*v.r#type.position()),
                );
            }
            Some(k) if !k.is_input_type() => {
                result.push(
                    CheckErrorMessage::NoOutputType {
                        name: v.r#type.unwrapped_type().name.to_string(),
                    }
                    .with_pos(*v.r#type.position()),
                );
            }
            Some(_) => {}
        }

        check_directives(
            &definitions.type_system,
            None,
            &v.directives,
            "ARGUMENT_DEFINITION",
            result,
        )
    }
}

fn name_starts_with_unscounsco(name: &Ident) -> bool {
    name.name.starts_with("__")
}

}

}

} // verus!
fn main(){}
