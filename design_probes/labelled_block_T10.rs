use vstd::prelude::*;
verus! {
fn f(a: bool, b: Option<u8>) -> (r: bool)
    ensures r == (!a || b.is_some())
{
    let null_is_allowed;
    'b: loop
        invariant true
        ensures null_is_allowed == (!a || b.is_some())
        decreases 0int
    {
        if !a {
            null_is_allowed = true; break 'b;
        }
        null_is_allowed = b.is_some(); break 'b;
    }
    null_is_allowed
}
} // verus!
fn main() {}
