use vstd::prelude::*;
verus! {

#[verifier::external_body]
#[verifier::reject_recursive_types(K)]
#[verifier::reject_recursive_types(V)]
pub struct LruCache<K, V> { k: std::marker::PhantomData<(K, V)> }

impl<K, V> LruCache<K, V> {
    pub uninterp spec fn view(&self) -> Map<K, V>;
    #[verifier::external_body]
    pub fn new(cap: usize) -> (r: Self) ensures r@ == Map::<K,V>::empty() { unimplemented!() }
}


pub struct NameMapper {
    pub all_list: Vec<String>,
}
impl NameMapper {
    pub fn push_name(&mut self, name: &str) -> (idx: usize)
        ensures final(self).all_list@.len() == old(self).all_list@.len() + 1,
            final(self).all_list@[idx as int]@ == name@
    {
        let new_idx = self.all_list.len();
        let name_key = name.to_owned();
        self.all_list.push(name_key.clone());
        new_idx
    }
}
} // verus!
fn main() {}
