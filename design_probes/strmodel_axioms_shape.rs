use vstd::prelude::*;
use vstd::std_specs::cmp::PartialEqSpec;
use std::collections::HashMap;
verus! {

// ---- strmodel (trusted axioms) ----
#[verifier::external_body]
pub broadcast proof fn axiom_str_eq(a: &str, b: &str)
    ensures #[trigger] (&a).eq_spec(&b) == (a@ == b@)
{}
#[verifier::external_body]
pub proof fn axiom_str_obeys()
    ensures <&str as PartialEqSpec<&str>>::obeys_eq_spec(),
            vstd::std_specs::hash::obeys_key_model::<&str>(),
{}

pub assume_specification<T> [<[T]>::contains] (s: &[T], x: &T) -> (r: bool)
    where T: std::cmp::PartialEq,
    ensures <T as PartialEqSpec<T>>::obeys_eq_spec() ==> r == exists|i: int| 0 <= i < s@.len() && #[trigger] s@[i].eq_spec(x);

pub struct Def { pub kind: u8 }

fn lookup<'a>(m: &HashMap<&'a str, &'a Def>, name: &'a str) -> (r: bool)
    ensures r == m@.contains_key(name)
{
    proof { axiom_str_obeys(); }
    m.get(name).is_some()
}

fn seen_list<'a>(names: &Vec<&'a str>, x: &'a str) -> (r: bool)
    ensures r == exists|i: int| 0 <= i < names@.len() && #[trigger] names@[i]@ == x@
{
    proof { axiom_str_obeys(); }
    broadcast use axiom_str_eq;
    names.contains(&x)
}

} // verus!
fn main() {}
