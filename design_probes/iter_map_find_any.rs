use vstd::prelude::*;
verus! {

fn map_collect(v: &Vec<u64>) -> (r: Vec<u64>)
    ensures r@.len() == v@.len(),
       forall|i: int| 0 <= i < v@.len() ==> r@[i] == v@[i] / 2
{
    v.iter().map(|x: &u64| -> (y: u64) ensures y == *x / 2 { *x / 2 }).collect()
}

fn find_it(v: &Vec<u64>, k: u64) -> (r: Option<&u64>)
    ensures r.is_some() ==> v@.contains(*r.unwrap())
{
    v.iter().find(|x| **x == k)
}
fn any_it(v: &Vec<u64>, k: u64) -> (r: bool)
    ensures r ==> v@.contains(k)
{
    v.iter().any(|x| *x == k)
}

} // verus!
fn main() {}
