use vstd::prelude::*;
verus! {

pub trait HasPos { fn name(&self) -> Option<&str>; }

pub trait SourceMapWriter {
    spec fn out(&self) -> Seq<char>;
    /// Write given chunk without mapping to source.
    fn write(&mut self, chunk: &str)
        ensures final(self).out() == old(self).out() + chunk@;
    /// Write given chunk with a mapping to source.
    fn write_for(&mut self, chunk: &str, node: &impl HasPos)
        ensures final(self).out() == old(self).out() + chunk@;
    /// Increase indent level.
    fn indent(&mut self)
        ensures final(self).out() == old(self).out();
}

pub struct Ctx<'a> { pub exported: bool, pub var_name: &'a str }
pub struct Frag { pub n: u8 }
impl HasPos for Frag { fn name(&self) -> Option<&str> { None } }

fn print_fragment_definition(context: Ctx, fragment: &Frag, writer: &mut impl SourceMapWriter)
    ensures final(writer).out() == old(writer).out()
        + (if context.exported { "export "@ } else { Seq::<char>::empty() })
        + "const "@ + context.var_name@ + " = "@
{
    if context.exported {
        writer.write("export ");
    }
    writer.write("const ");
    writer.write_for(context.var_name, fragment);
    writer.write(" = ");
}

} // verus!
fn main() {}
