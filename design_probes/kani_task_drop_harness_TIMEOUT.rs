#[path = "/repo/crates/graphql-loader/src/tasks.rs"]
pub mod tasks;

#[cfg(kani)]
mod proofs {
    use crate::tasks::*;
    use nitrogql_ast::operation_ext::OperationDocumentExt;
    use nitrogql_ast::base::Pos;
    use std::path::PathBuf;

    fn parse_stub(_document: &str) -> Result<OperationDocumentExt<'_>, nitrogql_parser::ParseError> {
        Ok(OperationDocumentExt { position: Pos::builtin(), definitions: vec![] })
    }

    #[kani::proof]
    #[kani::stub(nitrogql_parser::parse_operation_document, parse_stub)]
    #[kani::unwind(6)]
    fn register_then_drop() {
        let cap: usize = kani::any();
        let len: usize = kani::any();
        kani::assume(cap <= 4 && len <= cap);
        let mut s = String::with_capacity(cap);
        for _ in 0..len { s.push('a'); }
        let mut t = Task::new(PathBuf::new());
        let _ = t.register_file(PathBuf::new(), s);
        drop(t);
    }
}
