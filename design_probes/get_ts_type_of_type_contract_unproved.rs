use vstd::prelude::*;
verus! {


pub struct Pos {
    pub line: usize,
    pub column: usize,
    pub file: usize,
    pub builtin: bool,
}


pub struct Ident<'a> {
    pub name: &'a str,
    pub position: Pos,
}


pub enum Type<'a> {
    Named(NamedType<'a>),
    NonNull(Box<NonNullType<'a>>),
    List(Box<ListType<'a>>),
}


pub struct NamedType<'a> {
    pub name: Ident<'a>,
}


pub struct NonNullType<'a> {
    pub r#type: Type<'a>,
}


pub struct ListType<'a> {
    pub position: Pos,
    pub r#type: Type<'a>,
}


pub enum TSType {
    /// Array Type
    Array(Box<TSType>),
    /// Union type
    Union(Vec<TSType>),
    Null,
    Named(String),
}


// ---- sidecar spec -----
pub enum TsM { Array(Box<TsM>), Union(Seq<TsM>), Null, Named(Seq<char>) }

pub open spec fn ts_view(t: TSType) -> TsM
    decreases t
{
    match t {
        TSType::Array(inner) => TsM::Array(Box::new(ts_view(*inner))),
        TSType::Union(v) => TsM::Union(Seq::new(v@.len(), |i: int| if 0 <= i < v@.len() { ts_view(v@[i]) } else { TsM::Null })),
        TSType::Null => TsM::Null,
        TSType::Named(s) => TsM::Named(s@),
    }
}

// r is the TS rendering of GraphQL type t in a *nullable-by-default* position
pub open spec fn renders(t: Type, r: TsM, leaf: spec_fn(NamedType, TsM) -> bool) -> bool
    decreases t, 1nat
{
    match t {
        Type::NonNull(n) => renders_inner(n.r#type, r, leaf),
        _ => exists|x: TsM| r == TsM::Union(seq![x, TsM::Null]) && #[trigger] renders_inner(t, x, leaf),
    }
}
pub open spec fn renders_inner(t: Type, r: TsM, leaf: spec_fn(NamedType, TsM) -> bool) -> bool
    decreases t, 0nat
{
    match t {
        Type::Named(n) => leaf(n, r),
        Type::List(l) => exists|x: TsM| r == TsM::Array(Box::new(x)) && #[trigger] renders(l.r#type, x, leaf),
        Type::NonNull(n) => renders_inner(n.r#type, r, leaf),
    }
}

pub fn get_ts_type_of_type<F: FnOnce(&NamedType) -> TSType>(ty: &Type, map_name: F) -> (res: TSType)
    requires forall|n: &NamedType| map_name.requires((n,)),
    ensures renders(*ty, ts_view(res), |n: NamedType, r: TsM| exists|o: TSType| map_name.ensures((&n,), o) && ts_view(o) == r),
    decreases *ty, 1nat
{
    let (ty, nullable) = get_ts_type_of_type_impl(ty, map_name);
    if nullable {
        TSType::Union(vec![ty, TSType::Null])
    } else {
        ty
    }
}

/// With nullability flag
fn get_ts_type_of_type_impl<F: FnOnce(&NamedType) -> TSType>(
    ty: &Type,
    map_name: F,
) -> (res: (TSType, bool))
    requires forall|n: &NamedType| map_name.requires((n,)),
    ensures renders_inner(*ty, ts_view(res.0), |n: NamedType, r: TsM| exists|o: TSType| map_name.ensures((&n,), o) && ts_view(o) == r),
        res.1 == !(*ty is NonNull),
    decreases *ty, 0nat
{
    match ty {
        Type::Named(name) => (map_name(name), true),
        Type::List(ty) => (
            TSType::Array(Box::new(get_ts_type_of_type(&ty.r#type, map_name))),
            true,
        ),
        Type::NonNull(ty) => {
            let (tsty, _) = get_ts_type_of_type_impl(&ty.r#type, map_name);
            (tsty, false)
        }
    }
}

} // verus!
fn main() {}
