// A-SPLIT (trusted, transformation T17): `s.split(sep)` for a char separator, collected.  The pieces, joined with the
// separator, give back the text, and no piece contains the separator (this determines the pieces uniquely; there is always
// at least one piece: "".split(c) yields [""]).  The body is the std call followed by collect(): iterating the returned
// Vec visits the same pieces in the same order as iterating the lazy Split adaptor (str::split has no side effects).
pub open spec fn join_sep(p: Seq<Seq<char>>, sep: char) -> Seq<char>
    decreases p.len()
{
    if p.len() == 0 { Seq::<char>::empty() } else if p.len() == 1 { p[0] } else { join_sep(p.drop_last(), sep) + seq![sep] + p.last() }
}
pub open spec fn str_views(p: Seq<&str>) -> Seq<Seq<char>> { Seq::new(p.len(), |i: int| p[i]@) }
#[verifier::external_body]
pub fn vx_split_char<'a>(s: &'a str, sep: char) -> (r: Vec<&'a str>)
    ensures
        r@.len() >= 1,
        r@.len() <= usize::MAX,
        join_sep(str_views(r@), sep) == s@,
        forall|i: int| 0 <= i < r@.len() ==> !(#[trigger] r@[i])@.contains(sep),
{
    s.split(sep).collect()
}
