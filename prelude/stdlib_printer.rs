// A-STD (trusted): std traits named in bounds of printer code that vstd does not declare
#[verifier::external_trait_specification]
pub trait ExToString {
    type ExternalTraitSpecificationFor: std::string::ToString;
    fn to_string(&self) -> std::string::String;
}
