// A-STD (trusted): std traits named in bounds of printer code that vstd does not declare
#[verifier::external_trait_specification]
pub trait ExToString {
    type ExternalTraitSpecificationFor: std::string::ToString;
    fn to_string(&self) -> std::string::String;
}
// either::Either appears in signatures of printer functions that are external_body here (never inspected by a contract)
#[verifier::external_type_specification]
#[verifier::external_body]
#[verifier::reject_recursive_types(L)]
#[verifier::reject_recursive_types(R)]
pub struct ExEither<L, R>(either::Either<L, R>);
// A-STD (trusted): String::from(&str) / (&str).into() copy the content
#[verifier::external_body]
pub broadcast proof fn axiom_string_from_str<'a>(s: &'a str, r: String)
    requires #[trigger] call_ensures(<&'a str as core::convert::Into<String>>::into, (s,), r)
    ensures r@ == s@
{}
// A-STD (trusted): str::to_string() copies the content (ToString is a blanket impl over Display, no vstd contract)
#[verifier::external_body]
pub broadcast proof fn axiom_str_to_string(s: &str, r: String)
    requires #[trigger] call_ensures(<str as std::string::ToString>::to_string, (s,), r)
    ensures r@ == s@
{}
// A-FMT (trusted): Ident's Display impl writes exactly its `name` (crates/ast/src/base.rs), so to_string() is the name
#[verifier::external_body]
pub broadcast proof fn axiom_ident_to_string<'a>(s: &crate::nitrogql_ast::base::Ident<'a>, r: String)
    requires #[trigger] call_ensures(<crate::nitrogql_ast::base::Ident<'a> as std::string::ToString>::to_string, (s,), r)
    ensures r@ == s.name@
{}
