// A-STD (trusted): std traits named in bounds of printer code that vstd does not declare
#[verifier::external_trait_specification]
pub trait ExToString {
    type ExternalTraitSpecificationFor: std::string::ToString;
    fn to_string(&self) -> std::string::String;
}
// either::Either appears in signatures of printer functions that are external_body here (never inspected by a contract)
#[verifier::external_type_specification]
#[verifier::external_body]
#[verifier::reject_recursive_types(L)]
#[verifier::reject_recursive_types(R)]
pub struct ExEither<L, R>(either::Either<L, R>);
