// A-STD (trusted): str::repeat
pub assume_specification [str::repeat] (s: &str, n: usize) -> (r: String)
    ensures
        r@.len() == s@.len() * n,
        forall|i: int| 0 <= i < r@.len() ==> r@[i] == s@[i % (s@.len() as int)];
