// A-STR / A-EXT (trusted): string model for `S: Text<'a>` (graphql_type_system::text::Text): every Text value behaves
// like its string content `tv(s)` under Deref<Target = str>, ==, and comparison with &str.
pub uninterp spec fn tv<S>(s: S) -> Seq<char>;

#[verifier::external_body]
pub broadcast proof fn axiom_text_deref<'a, S: crate::graphql_type_system::text::Text<'a>>(s: &S, r: &str)
    requires #[trigger] call_ensures(<S as std::ops::Deref>::deref, (s,), r)
    ensures r@ == tv(*s)
{}
#[verifier::external_body]
pub broadcast proof fn axiom_text_eq<'a, S: crate::graphql_type_system::text::Text<'a>>(a: S, b: S)
    ensures #[trigger] a.eq_spec(&b) == (tv(a) == tv(b))
{}
#[verifier::external_body]
pub proof fn axiom_text_obeys<'a, S: crate::graphql_type_system::text::Text<'a>>()
    ensures <S as vstd::std_specs::cmp::PartialEqSpec<S>>::obeys_eq_spec(),
{}
#[verifier::external_body]
pub broadcast proof fn axiom_text_eq_str<'a, S: crate::graphql_type_system::text::Text<'a>>(a: S, b: &'a str)
    ensures #[trigger] <S as vstd::std_specs::cmp::PartialEqSpec<&'a str>>::eq_spec(&a, &b) == (tv(a) == b@)
{}
#[verifier::external_body]
pub proof fn axiom_text_obeys_str<'a, S: crate::graphql_type_system::text::Text<'a>>()
    ensures <S as vstd::std_specs::cmp::PartialEqSpec<&'a str>>::obeys_eq_spec(),
{}
pub broadcast group text_model { axiom_text_deref, axiom_text_eq, axiom_text_eq_str }
