// A-STD (trusted): contracts of std functions used by the checker crates that vstd does not specify.
pub assume_specification<T> [<[T]>::contains] (s: &[T], x: &T) -> (r: bool)
    where T: std::cmp::PartialEq,
    ensures <T as vstd::std_specs::cmp::PartialEqSpec<T>>::obeys_eq_spec() ==> r == exists|i: int| 0 <= i < s@.len() && #[trigger] s@[i].eq_spec(x);
// A-STR (trusted): &str equality is equality of contents
#[verifier::external_body]
pub broadcast proof fn axiom_str_eq(a: &str, b: &str)
    ensures #[trigger] (&a).eq_spec(&b) == (a@ == b@)
{}
#[verifier::external_body]
pub proof fn axiom_str_obeys()
    ensures <&str as vstd::std_specs::cmp::PartialEqSpec<&str>>::obeys_eq_spec(),
            vstd::std_specs::hash::obeys_key_model::<&str>(),   // A-STR: Hash/Eq of &str agree with spec equality
{}
pub assume_specification [std::string::String::into_boxed_str] (s: std::string::String) -> (r: std::boxed::Box<str>)
    ensures r@ == s@;
pub assume_specification<T, U, F: FnOnce(T) -> U> [std::option::Option::<T>::map_or] (o: Option<T>, d: U, f: F) -> (r: U)
    requires o is Some ==> f.requires((o->0,)),
    ensures o is None ==> r == d, o is Some ==> f.ensures((o->0,), r);
pub assume_specification<T, A> [<std::vec::Vec<T, A> as std::convert::AsRef<[T]>>::as_ref] (v: &std::vec::Vec<T, A>) -> (r: &[T])
    where A: std::alloc::Allocator,
    ensures r@ == v@;
pub assume_specification [<str as std::convert::AsRef<str>>::as_ref] (s: &str) -> (r: &str)
    ensures r@ == s@;
pub assume_specification<T, F: FnOnce(T) -> bool> [Option::<T>::is_some_and] (o: Option<T>, f: F) -> (r: bool)
    requires o is Some ==> f.requires((o->0,)),
    ensures o is None ==> !r, o is Some ==> f.ensures((o->0,), r);
// A-STD (trusted): model of std::str::pattern::Pattern for the two pattern types the code base uses (char, &str)
pub uninterp spec fn pat_is_char<P>() -> bool;
pub uninterp spec fn pat_char<P>(p: P) -> char;
#[verifier::external_body]
pub proof fn axiom_pat_char(c: char)
    ensures pat_is_char::<char>(), pat_char::<char>(c) == c
{}
pub uninterp spec fn pat_is_str<P>() -> bool;
pub uninterp spec fn pat_str<P>(p: P) -> Seq<char>;
#[verifier::external_body]
pub proof fn axiom_pat_str<'a>(p: &'a str)
    ensures pat_is_str::<&'a str>(), pat_str::<&'a str>(p) == p@
{}
pub assume_specification<P: std::str::pattern::Pattern> [str::starts_with] (s: &str, p: P) -> (r: bool)
    ensures pat_is_str::<P>() ==> r == (s@.len() >= pat_str(p).len() && s@.take(pat_str(p).len() as int) == pat_str(p));
// A-STR (trusted): HashMap<&str, V>::get(&str) (Borrow<str>) finds exactly the entry keyed by that string
#[verifier::external_body]
pub broadcast proof fn axiom_str_borrowed_key<'a, V>(m: Map<&'a str, V>, k: &'a str)
    ensures #[trigger] vstd::std_specs::hash::contains_borrowed_key::<&'a str, V, str>(m, k) == m.contains_key(k),
{}
#[verifier::external_body]
pub broadcast proof fn axiom_str_borrowed_val<'a, V>(m: Map<&'a str, V>, k: &'a str, v: V)
    ensures #[trigger] vstd::std_specs::hash::maps_borrowed_key_to_value::<&'a str, V, str>(m, k, v) == (m.contains_key(k) && m[k] == v),
{}
pub broadcast group str_key_model { axiom_str_borrowed_key, axiom_str_borrowed_val }
// A-STD (trusted): a Vec never holds more than usize::MAX elements
#[verifier::external_body]
pub proof fn axiom_vec_len_bound<T>(v: &Vec<T>)
    ensures v@.len() <= usize::MAX
{}
// A-STD (trusted): Vec::extend only appends
pub assume_specification<T, A: std::alloc::Allocator, I: IntoIterator<Item = T>> [<Vec<T, A> as Extend<T>>::extend] (v: &mut Vec<T, A>, iter: I)
    ensures final(v)@.len() >= old(v)@.len(), forall|i: int| 0 <= i < old(v)@.len() ==> #[trigger] final(v)@[i] == old(v)@[i];
// A-STR (trusted): str values with the same content are the same spec value (used for `match s { "Int" => .. }`)
#[verifier::external_body]
pub proof fn axiom_str_ext(a: &str, b: &str)
    ensures (a@ == b@) == (a == b)
{}
