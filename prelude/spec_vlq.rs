// Shared specification of Source Map v3 base64 VLQ (used by units vlq and mapping).
// Requires `pub const BASE64_CHARS` (extracted from the repository) to be in scope.
// ---------------------------------------------------------------- specification (from the Source Map spec)
pub open spec fn cont_digits(v: nat) -> Seq<nat>
    decreases v
{
    if v == 0 { seq![] } else {
        let rest = v / 32;
        let d = (v % 32) + if rest > 0 { 32nat } else { 0nat };
        seq![d] + cont_digits(rest)
    }
}

/// digits of the VLQ encoding of n: sign in bit 0 of the first digit, 4 value bits, then 5 bits per digit
pub open spec fn vlq_digits(n: int) -> Seq<nat> {
    let sign: nat = if n < 0 { 1 } else { 0 };
    let mag: nat = if n < 0 { (-n) as nat } else { n as nat };
    if mag < 16 { seq![sign + 2 * mag] }
    else { seq![(sign + 2 * (mag % 16) + 32) as nat] + cont_digits(mag / 16) }
}

pub closed spec fn chars_of(d: Seq<nat>) -> Seq<char> {
    Seq::new(d.len(), |i: int| BASE64_CHARS@[d[i] as int])
}

