// A-FMT (trusted, transformation T7): format!("{}{}", a, b) over str-like values is concatenation.
pub uninterp spec fn str_of<A: ?Sized>(a: &A) -> Seq<char>;
#[verifier::external_body]
pub broadcast proof fn axiom_str_of_string(a: &String) ensures #[trigger] str_of(a) == a@ {}
#[verifier::external_body]
pub broadcast proof fn axiom_str_of_str(a: &&str) ensures #[trigger] str_of(a) == a@ {}
#[verifier::external_body]
pub broadcast proof fn axiom_str_of_ref_string(a: &&String) ensures #[trigger] str_of(a) == a@ {}
pub broadcast group str_of_axioms { axiom_str_of_string, axiom_str_of_str, axiom_str_of_ref_string }
#[verifier::external_body]
pub fn vx_concat2<A: AsRef<str> + ?Sized, B: AsRef<str> + ?Sized>(a: &A, b: &B) -> (r: String)
    ensures r@ == str_of(a) + str_of(b)
{
    let mut s = String::new();
    s.push_str(a.as_ref());
    s.push_str(b.as_ref());
    s
}
