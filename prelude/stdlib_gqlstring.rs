// A-STD (trusted): std functions used by print_string that vstd does not specify.
// str::find(pattern): for a `char` pattern, Some(_) iff the character occurs
pub assume_specification<P: std::str::pattern::Pattern> [str::find] (s: &str, p: P) -> (r: Option<usize>)
    ensures pat_is_char::<P>() ==> (r is Some <==> s@.contains(pat_char(p)));
pub assume_specification [std::string::String::with_capacity] (n: usize) -> (r: std::string::String)
    ensures r@ == Seq::<char>::empty();
// char::is_control: Unicode general category Cc = U+0000..=U+001F, U+007F..=U+009F
pub assume_specification [char::is_control] (c: char) -> (r: bool)
    ensures r == ((c as u32) <= 0x1f || (0x7f <= (c as u32) && (c as u32) <= 0x9f));
// str::ends_with(pattern): for a `char` pattern, true iff it is the last character
pub assume_specification<P: std::str::pattern::Pattern> [str::ends_with] (s: &str, p: P) -> (r: bool)
    where for<'a> P::Searcher<'a>: std::str::pattern::ReverseSearcher<'a>,
    ensures pat_is_char::<P>() ==> (r == (s@.len() > 0 && s@.last() == pat_char(p)));
