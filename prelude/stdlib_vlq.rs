// A-STD (trusted): contracts of std functions that vstd does not specify.
pub assume_specification [isize::unsigned_abs] (x: isize) -> (r: usize)
    ensures r as int == if x < 0 { -(x as int) } else { x as int };
pub assume_specification [<String as core::convert::From<char>>::from] (c: char) -> (s: String)
    ensures s@ == seq![c];
