// A-ITER (trusted, transformation T16): wrappers around std iterator pipelines that the installed Verus cannot specify
// (provided Iterator methods).  Each body is literally the original method chain; the `ensures` is the assumed contract.
pub open spec fn count_true(k: Seq<bool>) -> nat
    decreases k.len()
{
    if k.len() == 0 { 0 } else { count_true(k.drop_last()) + if k.last() { 1nat } else { 0nat } }
}
/// it.filter(p).count(): the number of items on which the predicate returns true.  Stated for ANY boolean sequence that
/// the predicate's postcondition forces (so the caller never has to name the closure): if p can only return flags[i] on
/// item i, the count is the number of true flags.
#[verifier::external_body]
pub fn vx_filter_count<I: Iterator, P: FnMut(&I::Item) -> bool>(it: I, p: P) -> (r: usize)
    ensures
        vstd::std_specs::iter::IteratorSpec::obeys_prophetic_iter_laws(&it) ==> forall|flags: Seq<bool>|
            flags.len() == vstd::std_specs::iter::IteratorSpec::remaining(&it).len()
            && (forall|i: int, b: bool| 0 <= i < flags.len() && p.ensures((&vstd::std_specs::iter::IteratorSpec::remaining(&it)[i],), b) ==> b == flags[i])
            ==> r == #[trigger] count_true(flags),
{
    it.filter(p).count()
}
pub open spec fn first_some<B>(outs: Seq<Option<B>>) -> Option<B>
    decreases outs.len()
{
    if outs.len() == 0 { None } else if outs[0] is Some { outs[0] } else { first_some(outs.drop_first()) }
}
pub proof fn lemma_first_some<B>(outs: Seq<Option<B>>)
    ensures match first_some(outs) {
        Some(b) => exists|i: int| 0 <= i < outs.len() && #[trigger] outs[i] == Some(b) && forall|j: int| 0 <= j < i ==> (#[trigger] outs[j]) is None,
        None => forall|j: int| 0 <= j < outs.len() ==> (#[trigger] outs[j]) is None,
    },
    decreases outs.len()
{
    if outs.len() == 0 {
    } else if outs[0] is Some {
        assert(outs[0] == Some(outs[0]->Some_0));
    } else {
        let rest = outs.drop_first();
        lemma_first_some(rest);
        match first_some(rest) {
            Some(b) => {
                let i = choose|i: int| 0 <= i < rest.len() && #[trigger] rest[i] == Some(b) && forall|j: int| 0 <= j < i ==> (#[trigger] rest[j]) is None;
                assert(outs[i + 1] == rest[i]);
                assert forall|j: int| 0 <= j < i + 1 implies (#[trigger] outs[j]) is None by { if j > 0 { assert(outs[j] == rest[j - 1]); } }
            },
            None => {
                assert forall|j: int| 0 <= j < outs.len() implies (#[trigger] outs[j]) is None by { if j > 0 { assert(outs[j] == rest[j - 1]); } }
            },
        }
    }
}
/// it.find_map(f): the first Some(_) that f produces, in iteration order.  Stated for ANY sequence of results that f's
/// postcondition forces (the caller never has to name the closure).
#[verifier::external_body]
pub fn vx_find_map<I: Iterator, B, F: FnMut(I::Item) -> Option<B>>(it: I, f: F) -> (r: Option<B>)
    ensures
        vstd::std_specs::iter::IteratorSpec::obeys_prophetic_iter_laws(&it) ==> forall|outs: Seq<Option<B>>|
            outs.len() == vstd::std_specs::iter::IteratorSpec::remaining(&it).len()
            && (forall|i: int, o: Option<B>| 0 <= i < outs.len() && f.ensures((vstd::std_specs::iter::IteratorSpec::remaining(&it)[i],), o) ==> o == outs[i])
            ==> r == #[trigger] first_some(outs),
{
    let mut it = it;
    it.find_map(f)
}
/// it.copied().chain(v).collect::<Vec<_>>(): the items of `it` (copied), then the items of v
#[verifier::external_body]
pub fn vx_copied_chain_collect<'a, T: Copy + 'a, I: Iterator<Item = &'a T>>(it: I, v: Vec<T>) -> (r: Vec<T>)
    ensures
        vstd::std_specs::iter::IteratorSpec::obeys_prophetic_iter_laws(&it) ==>
            r@.len() == vstd::std_specs::iter::IteratorSpec::remaining(&it).len() + v@.len()
            && (forall|i: int| 0 <= i < vstd::std_specs::iter::IteratorSpec::remaining(&it).len() ==> #[trigger] r@[i] == *vstd::std_specs::iter::IteratorSpec::remaining(&it)[i])
            && (forall|i: int| 0 <= i < v@.len() ==> #[trigger] r@[vstd::std_specs::iter::IteratorSpec::remaining(&it).len() + i] == v@[i]),
{
    it.copied().chain(v).collect()
}
pub open spec fn first_true(flags: Seq<bool>) -> Option<int>
    decreases flags.len()
{
    if flags.len() == 0 { None } else if flags[0] { Some(0int) } else { match first_true(flags.drop_first()) { Some(i) => Some(i + 1), None => None } }
}
pub proof fn lemma_first_true(flags: Seq<bool>)
    ensures match first_true(flags) {
        Some(i) => 0 <= i < flags.len() && flags[i] && forall|j: int| 0 <= j < i ==> !#[trigger] flags[j],
        None => forall|j: int| 0 <= j < flags.len() ==> !#[trigger] flags[j],
    },
    decreases flags.len()
{
    if flags.len() > 0 && !flags[0] {
        let rest = flags.drop_first();
        lemma_first_true(rest);
        match first_true(rest) {
            Some(i) => { assert forall|j: int| 0 <= j < i + 1 implies !#[trigger] flags[j] by { if j > 0 { assert(flags[j] == rest[j - 1]); } } assert(flags[i + 1] == rest[i]); },
            None => { assert forall|j: int| 0 <= j < flags.len() implies !#[trigger] flags[j] by { if j > 0 { assert(flags[j] == rest[j - 1]); } } },
        }
    }
}
pub open spec fn sum_usize(k: Seq<usize>) -> nat
    decreases k.len()
{
    if k.len() == 0 { 0 } else { sum_usize(k.drop_last()) + k.last() as nat }
}
/// s.chars().map(f).sum::<usize>(): the sum of f over the chars of s, in order (when it fits usize; std panics or wraps
/// otherwise).  Stated for ANY sequence of results that f's postcondition forces.
#[verifier::external_body]
pub fn vx_chars_map_sum<F: FnMut(char) -> usize>(s: &str, f: F) -> (r: usize)
    ensures
        forall|outs: Seq<usize>|
            outs.len() == s@.len()
            && (forall|i: int, o: usize| 0 <= i < outs.len() && f.ensures((s@[i],), o) ==> o == outs[i])
            && sum_usize(outs) <= usize::MAX
            ==> r == #[trigger] sum_usize(outs),
{
    s.chars().map(f).sum()
}
