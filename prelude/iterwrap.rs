// A-ITER (trusted, transformation T16): wrappers around std iterator pipelines that the installed Verus cannot specify
// (provided Iterator methods).  Each body is literally the original method chain; the `ensures` is the assumed contract.
pub open spec fn count_true(k: Seq<bool>) -> nat
    decreases k.len()
{
    if k.len() == 0 { 0 } else { count_true(k.drop_last()) + if k.last() { 1nat } else { 0nat } }
}
/// it.filter(p).count(): the number of items on which the predicate returns true.  Stated for ANY boolean sequence that
/// the predicate's postcondition forces (so the caller never has to name the closure): if p can only return flags[i] on
/// item i, the count is the number of true flags.
#[verifier::external_body]
pub fn vx_filter_count<I: Iterator, P: FnMut(&I::Item) -> bool>(it: I, p: P) -> (r: usize)
    ensures
        vstd::std_specs::iter::IteratorSpec::obeys_prophetic_iter_laws(&it) ==> forall|flags: Seq<bool>|
            flags.len() == vstd::std_specs::iter::IteratorSpec::remaining(&it).len()
            && (forall|i: int, b: bool| 0 <= i < flags.len() && p.ensures((&vstd::std_specs::iter::IteratorSpec::remaining(&it)[i],), b) ==> b == flags[i])
            ==> r == #[trigger] count_true(flags),
{
    it.filter(p).count()
}
/// it.find_map(f): the first Some(_) that f produces, in iteration order
#[verifier::external_body]
pub fn vx_find_map<I: Iterator, B, F: FnMut(I::Item) -> Option<B>>(it: I, f: F) -> (r: Option<B>)
    ensures
        vstd::std_specs::iter::IteratorSpec::obeys_prophetic_iter_laws(&it) ==> match r {
            Some(b) => exists|i: int| 0 <= i < vstd::std_specs::iter::IteratorSpec::remaining(&it).len()
                && f.ensures((#[trigger] vstd::std_specs::iter::IteratorSpec::remaining(&it)[i],), Some(b))
                && forall|j: int| 0 <= j < i ==> f.ensures((#[trigger] vstd::std_specs::iter::IteratorSpec::remaining(&it)[j],), None),
            None => forall|j: int| 0 <= j < vstd::std_specs::iter::IteratorSpec::remaining(&it).len() ==> f.ensures((#[trigger] vstd::std_specs::iter::IteratorSpec::remaining(&it)[j],), None),
        },
{
    let mut it = it;
    it.find_map(f)
}
