//! BOUNDED stand-in (not a proof) for property C19 on crates/graphql-loader/src/loader.rs and tasks.rs (Task: per-task
//! file map, leaked source buffers rebuilt with String::from_raw_parts in Drop).  The REAL source files of the tree under
//! check are compiled into this program as modules (the #[path] attributes below are generated with the tree's path on
//! every run; graphql-loader is a binary crate, so it cannot be linked).
//!   loaderseq native <quick|thorough>  - bounded-exhaustive call histories against a reference model
//!   loaderseq miri                     - a fixed list of histories, meant to be run under `cargo miri run`
#![allow(dead_code)]
#[path = "@REPO@/crates/graphql-loader/src/js_printer.rs"]
mod js_printer;
#[path = "@REPO@/crates/graphql-loader/src/loader.rs"]
mod loader;
#[path = "@REPO@/crates/graphql-loader/src/tasks.rs"]
mod tasks;
#[path = "@REPO@/crates/graphql-loader/src/logger.rs"]
mod logger;
// the exported ABI wrappers (thread-local task table, last result): the real text of the binary crate's root
mod abi_text {
    // (a marker module so that a reader finds the place; the text itself has to sit at the crate root because it refers
    // to `crate::logger` and to `loader::` / `tasks::` relative to the root)
}
//@inline-stripped @REPO@/crates/graphql-loader/src/main.rs

fn main() {
    vx::main()
}

/// everything below is the harness; it lives in a module of its own so that its imports and names cannot collide with
/// the inlined text above
mod vx {
use super::*;

use std::collections::{BTreeMap, BTreeSet};
use std::path::PathBuf;

use nitrogql_config_file::Config;
use super::tasks::Tasks;

const FILES: [(&str, &str); 4] = [
    ("/p/a.graphql", "#import F1 from \"./frags/f1.graphql\"\nquery A { x ...F1 }\n"),
    ("/p/b.graphql", "query B { y }\n"),
    // the importing file sits in another directory than the root and imports relative to itself
    ("/p/frags/f1.graphql", "#import F2 from \"./f2.graphql\"\nfragment F1 on Q { a ...F2 }\n"),
    ("/p/frags/f2.graphql", "fragment F2 on Q { b }\n"),
];
fn source_of(f: &str) -> &'static str {
    FILES.iter().find(|(n, _)| *n == f).unwrap().1
}
/// import targets of a file (resolved), from the fixed family above
fn imports_of(f: &str) -> Vec<&'static str> {
    match f {
        "/p/a.graphql" => vec!["/p/frags/f1.graphql"],
        "/p/frags/f1.graphql" => vec!["/p/frags/f2.graphql"],
        _ => vec![],
    }
}

#[derive(Clone, Copy, Debug, PartialEq)]
enum Op {
    Initiate(&'static str),
    /// create a task from a root file whose source does not parse: an error result, and no task exists afterwards
    InitiateBad(&'static str),
    Required(usize),
    Load(usize, &'static str),
    /// supply the file with a source that does not parse: an error result, and the task is as before
    LoadBad(usize, &'static str),
    Emit(usize),
    Free(usize),
}
fn alphabet() -> Vec<Op> {
    let mut v = vec![Op::Initiate("/p/a.graphql"), Op::Initiate("/p/b.graphql"), Op::InitiateBad("/p/a.graphql")];
    for t in 1..=3 {
        v.push(Op::Required(t));
        v.push(Op::Load(t, "/p/frags/f1.graphql"));
        v.push(Op::Load(t, "/p/frags/f2.graphql"));
        v.push(Op::Load(t, "/p/a.graphql"));
        v.push(Op::LoadBad(t, "/p/frags/f1.graphql"));
        v.push(Op::LoadBad(t, "/p/a.graphql"));
        v.push(Op::Emit(t));
        v.push(Op::Free(t));
    }
    v
}
/// a String whose capacity exceeds its length (what the ABI's alloc_string + read_str_ptr produce is implementation
/// defined; both shapes are exercised)
fn owned(s: &str, slack: bool) -> String {
    if slack {
        let mut o = String::with_capacity(s.len() + 64);
        o.push_str(s);
        o
    } else {
        s.to_string()
    }
}

#[derive(Default, Clone)]
struct Model {
    next: usize,
    tasks: BTreeMap<usize, (String, BTreeSet<String>)>,
}
#[derive(Debug, PartialEq)]
enum Res {
    Id(usize),
    Files(BTreeSet<String>),
    Unit,
    Js(String),
    Err,
    Nothing,
}

/// what a fresh task given exactly these files emits (the property's own reference)
fn fresh_emit(root: &str, files: &BTreeSet<String>, slack: bool) -> Res {
    let mut t = Tasks::new();
    let id = match loader::initiate_task(&mut t, PathBuf::from(root), owned(source_of(root), slack)) {
        Ok(i) => i,
        Err(_) => return Res::Err,
    };
    for f in files {
        if f != root && loader::load_file(&mut t, id, PathBuf::from(f), owned(source_of(f), slack)).is_err() {
            return Res::Err;
        }
    }
    match loader::emit_js(&t, id, &Config::default()) {
        Ok(js) => Res::Js(js),
        Err(_) => Res::Err,
    }
}

fn run_history(h: &[Op], slack: bool) -> Result<(), String> {
    let mut real = Tasks::new();
    let mut model = Model { next: 1, tasks: BTreeMap::new() };
    for (step, op) in h.iter().enumerate() {
        let got = match *op {
            Op::Initiate(f) => match loader::initiate_task(&mut real, PathBuf::from(f), owned(source_of(f), slack)) {
                Ok(i) => Res::Id(i),
                Err(_) => Res::Err,
            },
            Op::InitiateBad(f) => match loader::initiate_task(&mut real, PathBuf::from(f), owned("query { unterminated", slack)) {
                Ok(i) => Res::Id(i),
                Err(_) => Res::Err,
            },
            Op::Required(t) => match loader::get_required_files(&mut real, t) {
                Ok(v) => {
                    let set: BTreeSet<String> = v.iter().map(|p| p.to_string_lossy().into_owned()).collect();
                    if set.len() != v.len() {
                        return Err(format!("step {step} {op:?}: a required file is listed twice: {v:?}"));
                    }
                    Res::Files(set)
                }
                Err(_) => Res::Err,
            },
            Op::Load(t, f) => match loader::load_file(&mut real, t, PathBuf::from(f), owned(source_of(f), slack)) {
                Ok(()) => Res::Unit,
                Err(_) => Res::Err,
            },
            Op::LoadBad(t, f) => match loader::load_file(&mut real, t, PathBuf::from(f), owned("query { unterminated", slack)) {
                Ok(()) => Res::Unit,
                Err(_) => Res::Err,
            },
            Op::Emit(t) => match loader::emit_js(&real, t, &Config::default()) {
                Ok(js) => Res::Js(js),
                Err(_) => Res::Err,
            },
            Op::Free(t) => {
                real.remove_task(t);
                Res::Nothing
            }
        };
        let want = match *op {
            // which id a new task gets is the implementation's choice (the property does not fix it): any id that does
            // not name a live task; the reference model then knows the task under that id
            Op::Initiate(f) => match got {
                Res::Id(id) if !model.tasks.contains_key(&id) => {
                    model.next = model.next.max(id + 1);
                    model.tasks.insert(id, (f.to_string(), [f.to_string()].into()));
                    Res::Id(id)
                }
                Res::Id(id) => return Err(format!("step {step} {op:?}: the new task got the id {id} of a live task")),
                _ => Res::Id(model.next),
            },
            Op::InitiateBad(_) => Res::Err,
            Op::Required(t) => match model.tasks.get(&t) {
                None => Res::Err,
                Some((_, files)) => Res::Files(files.iter().flat_map(|f| imports_of(f)).filter(|i| !files.contains(*i)).map(|i| i.to_string()).collect()),
            },
            Op::Load(t, f) => match model.tasks.get_mut(&t) {
                None => Res::Err,
                Some((_, files)) => {
                    files.insert(f.to_string());
                    Res::Unit
                }
            },
            Op::LoadBad(_, _) => Res::Err,
            Op::Emit(t) => match model.tasks.get(&t) {
                None => Res::Err,
                Some((root, files)) => fresh_emit(root, files, slack),
            },
            Op::Free(t) => {
                model.tasks.remove(&t);
                Res::Nothing
            }
        };
        if got != want {
            let short = |r: &Res| format!("{r:?}").chars().take(160).collect::<String>();
            return Err(format!("step {step} {op:?}: implementation answers {} - reference model {}", short(&got), short(&want)));
        }
    }
    Ok(())
}

// ------------------------------------------------------------------------------------------------ the exported ABI
/// a string handed over the way the JavaScript glue does it: alloc_string(len), bytes written, the call, free_string
fn with_abi_str<R>(s: &str, f: impl FnOnce(*const u8, usize) -> R) -> R {
    let p = alloc_string(s.len());
    unsafe { std::ptr::copy_nonoverlapping(s.as_ptr(), p, s.len()) };
    let r = f(p as *const u8, s.len());
    unsafe { free_string(p, s.len()) };
    r
}
/// the last result as the glue reads it: get_result_ptr / get_result_size
fn abi_result() -> Result<String, String> {
    let (p, n) = (get_result_ptr(), get_result_size());
    let bytes = unsafe { std::slice::from_raw_parts(p, n) };
    String::from_utf8(bytes.to_vec()).map_err(|e| format!("the result buffer is not UTF-8: {e}"))
}
/// the same history through the exported calls, in a thread of its own (the task table and the last result are
/// thread-local): return values and result buffers against the same reference model
fn run_history_abi(h: &[Op]) -> Result<(), String> {
    let mut model = Model { next: 1, tasks: BTreeMap::new() };
    for (step, op) in h.iter().enumerate() {
        let fail = |what: String| Err(format!("step {step} {op:?}: {what}"));
        match *op {
            Op::Initiate(f) | Op::InitiateBad(f) => {
                let bad = matches!(op, Op::InitiateBad(_));
                let src = if bad { "query { unterminated" } else { source_of(f) };
                let id = with_abi_str(f, |fp, fl| with_abi_str(src, |sp, sl| initiate_task(fp, fl, sp, sl)));
                if bad {
                    if id != 0 {
                        return fail(format!("initiate_task answers {id} for a root file that does not parse - reference model Err (0)"));
                    }
                    if abi_result()?.is_empty() {
                        return fail("initiate_task failed but the result buffer holds no message".into());
                    }
                } else {
                    if id == 0 {
                        return fail("initiate_task answers Err (0) - reference model a task id".into());
                    }
                    if model.tasks.contains_key(&id) {
                        return fail(format!("the new task got the id {id} of a live task"));
                    }
                    model.tasks.insert(id, (f.to_string(), [f.to_string()].into()));
                }
            }
            Op::Required(t) => {
                let ok = get_required_files(t);
                match model.tasks.get(&t) {
                    None => {
                        if ok {
                            return fail("get_required_files answers true - reference model Err".into());
                        }
                        if abi_result()?.is_empty() {
                            return fail("get_required_files failed but the result buffer holds no message".into());
                        }
                    }
                    Some((_, files)) => {
                        if !ok {
                            return fail("get_required_files answers Err (false) - reference model a list".into());
                        }
                        let text = abi_result()?;
                        let listed: Vec<&str> = if text.is_empty() { vec![] } else { text.split('\n').collect() };
                        let set: BTreeSet<String> = listed.iter().map(|x| x.to_string()).collect();
                        if set.len() != listed.len() {
                            return fail(format!("a required file is listed twice: {listed:?}"));
                        }
                        let want: BTreeSet<String> = files.iter().flat_map(|f| imports_of(f)).filter(|i| !files.contains(*i)).map(|i| i.to_string()).collect();
                        if set != want {
                            return fail(format!("the result buffer lists {set:?} - reference model {want:?}"));
                        }
                    }
                }
            }
            Op::Load(t, f) | Op::LoadBad(t, f) => {
                let bad = matches!(op, Op::LoadBad(..));
                let src = if bad { "query { unterminated" } else { source_of(f) };
                let ok = with_abi_str(f, |fp, fl| with_abi_str(src, |sp, sl| load_file(t, fp, fl, sp, sl)));
                let want_ok = !bad && model.tasks.contains_key(&t);
                if ok != want_ok {
                    return fail(format!("load_file answers {ok} - reference model {want_ok}"));
                }
                if ok {
                    model.tasks.get_mut(&t).unwrap().1.insert(f.to_string());
                } else if abi_result()?.is_empty() {
                    return fail("load_file failed but the result buffer holds no message".into());
                }
            }
            Op::Emit(t) => {
                let ok = emit_js(t);
                match model.tasks.get(&t) {
                    None => {
                        if ok {
                            return fail("emit_js answers true - reference model Err".into());
                        }
                    }
                    Some((root, files)) => match fresh_emit(root, files, false) {
                        Res::Js(js) => {
                            if !ok {
                                return fail("emit_js answers Err (false) - reference model a module".into());
                            }
                            if abi_result()? != js {
                                return fail("the result buffer after emit_js differs from what a fresh task given the same files emits".into());
                            }
                        }
                        _ => {
                            if ok {
                                return fail("emit_js answers true - a fresh task given the same files fails".into());
                            }
                        }
                    },
                }
            }
            Op::Free(t) => {
                free_task(t);
                model.tasks.remove(&t);
            }
        }
    }
    Ok(())
}
fn run_history_abi_thread(h: &[Op]) -> Result<(), String> {
    let h2: Vec<Op> = h.to_vec();
    match std::thread::spawn(move || run_history_abi(&h2)).join() {
        Ok(r) => r.map_err(|e| format!("(exported ABI) {e}")),
        Err(_) => Err("(exported ABI) step ? Abi(): an exported call panics".to_string()),
    }
}

fn kind_of_failure(msg: &str) -> String {
    // signature: the operation kind and which side said what, without ids and texts
    let (abi, msg) = match msg.strip_prefix("(exported ABI) ") {
        Some(m) => ("exported ABI: ", m),
        None => ("", msg),
    };
    let op = msg.split_whitespace().nth(2).unwrap_or("").split('(').next().unwrap_or("").to_string();
    let what = if msg.contains("listed twice") { "a required file is listed twice" } else if msg.contains("answers Err") { "an error where the reference model has a result" } else if msg.contains("model Err") { "a result where the reference model has an error" } else { "a different result than the reference model" };
    let what = if msg.contains("holds no message") { "a failed call leaves no message in the result buffer" } else if msg.contains("panics") { "an exported call panics" } else { what };
    format!("{abi}{op}: {what}")
}

/// histories that every run replays (natively, through the exported ABI and under Miri), whatever the sampling of the
/// enumeration
fn fixed_histories() -> Vec<Vec<Op>> {
    use Op::*;
    vec![
            vec![Initiate("/p/b.graphql"), Emit(1), Free(1)],
            vec![Initiate("/p/a.graphql"), Required(1), Load(1, "/p/frags/f1.graphql"), Required(1), Load(1, "/p/frags/f2.graphql"), Emit(1), Free(1)],
            vec![Initiate("/p/a.graphql"), Load(1, "/p/a.graphql"), Load(1, "/p/frags/f1.graphql"), Load(1, "/p/frags/f1.graphql"), Free(1), Free(1), Emit(1)],
            vec![Initiate("/p/a.graphql"), Initiate("/p/b.graphql"), Free(1), Emit(2), Load(1, "/p/frags/f1.graphql"), Required(3)],
            vec![Initiate("/p/b.graphql"), Initiate("/p/a.graphql")],
            vec![InitiateBad("/p/a.graphql"), Required(1), Emit(1), Initiate("/p/a.graphql"), Emit(1), Emit(2), InitiateBad("/p/b.graphql"), Free(1), Free(2)],
            vec![Initiate("/p/a.graphql"), Load(1, "/p/frags/f1.graphql"), LoadBad(1, "/p/frags/f1.graphql"), Required(1), LoadBad(1, "/p/a.graphql"), Emit(1), Free(1)],
        
        vec![Initiate("/p/b.graphql"), Emit(1), Free(1), Emit(1), Required(1), Load(1, "/p/a.graphql")],
        vec![Initiate("/p/a.graphql"), Load(1, "/p/frags/f1.graphql"), Load(1, "/p/frags/f2.graphql"), Emit(1), Initiate("/p/b.graphql"), Emit(2), Free(1), Emit(1), Emit(2), Free(2), Emit(2)],
        vec![Initiate("/p/a.graphql"), Emit(1), Load(1, "/p/frags/f1.graphql"), Emit(1), Load(1, "/p/frags/f2.graphql"), Emit(1), Emit(1)],
        // overlapping sessions: an older task is freed while a newer one is pending, then two more files arrive
        vec![Initiate("/p/a.graphql"), Initiate("/p/b.graphql"), Free(1), Initiate("/p/b.graphql"), Initiate("/p/a.graphql"), Emit(2), Emit(1), Emit(3), Emit(4), Required(2), Free(2), Initiate("/p/b.graphql"), Emit(2), Emit(3), Free(3), Free(4), Initiate("/p/a.graphql"), Required(1), Required(2), Required(3), Required(4), Required(5)],
        vec![Initiate("/p/b.graphql"), Initiate("/p/b.graphql"), Initiate("/p/a.graphql"), Free(2), Initiate("/p/a.graphql"), Initiate("/p/b.graphql"), Emit(1), Emit(2), Emit(3), Emit(4), Emit(5), Free(1), Free(3), Initiate("/p/b.graphql"), Emit(1), Emit(3), Emit(4), Emit(5), Emit(6)],
    ]
}

pub fn main() {
    let args: Vec<String> = std::env::args().collect();
    let mode = args.get(1).map(|s| s.as_str()).unwrap_or("native");
    if mode == "miri" {
        // a fixed list of histories; any undefined behaviour makes the interpreter abort with a report
        // (histories with more than three emits or more than eleven calls are replayed natively only: under the interpreter
        // every emit costs seconds, and they exercise the same calls as the shorter ones)
        let hs: Vec<Vec<Op>> = fixed_histories().into_iter().filter(|h| h.len() <= 11 && h.iter().filter(|o| matches!(o, Op::Emit(_))).count() <= 3).collect();
        for slack in [false, true] {
            for h in &hs {
                if let Err(e) = run_history(h, slack) {
                    println!("MISMATCH {h:?}: {e}");
                }
                if !slack {
                    if let Err(e) = run_history_abi_thread(h) {
                        println!("MISMATCH {h:?}: {e}");
                    }
                }
            }
        }
        println!("miri histories done");
        return;
    }
    let thorough = args.get(2).map(|a| a == "thorough").unwrap_or(false);
    let only: Option<usize> = args.iter().position(|a| a == "--one").and_then(|i| args.get(i + 1)).and_then(|x| x.parse().ok());
    let alpha = alphabet();
    let maxlen = if thorough { 5 } else { 4 };
    std::panic::set_hook(Box::new(|_| {}));
    let mut failures: Vec<(usize, String, String, String, String)> = vec![];
    let mut evaluations = 0usize;
    let mut index = 0usize;
    let mut per_len: BTreeMap<String, usize> = BTreeMap::new();
    let mut samples = vec![];
    for (k, h) in fixed_histories().iter().enumerate() {
        if only.is_some() {
            break;
        }
        evaluations += 1;
        *per_len.entry("fixed histories".to_string()).or_default() += 1;
        for slack in [false, true] {
            let r = std::panic::catch_unwind(|| run_history(h, slack).and_then(|_| run_history_abi_thread(h)));
            match r {
                Ok(Ok(())) => {}
                Ok(Err(e)) => failures.push((1_000_000 + k, kind_of_failure(&e), format!("{h:?} (source buffers {} spare capacity)", if slack { "with" } else { "without" }), e, String::new())),
                Err(_) => failures.push((1_000_000 + k, "a loader call panics".into(), format!("{h:?}"), "panic during a fixed history".to_string(), String::new())),
            }
        }
    }
    // all histories up to maxlen-1; at maxlen (quick: every 7th; thorough length 5: every 23rd), by odometer
    for len in 1..=maxlen {
        let total = alpha.len().pow(len as u32);
        let stride = if len < maxlen { 1 } else if thorough { 61 } else { 13 };
        let mut k = 0usize;
        while k < total {
            let mut h = Vec::with_capacity(len);
            let mut x = k;
            for _ in 0..len {
                h.push(alpha[x % alpha.len()]);
                x /= alpha.len();
            }
            // a history that never creates a task only exercises the unknown-id answers: keep a tenth of those
            let creates = h.iter().any(|o| matches!(o, Op::Initiate(_)));
            let i = index;
            index += 1;
            k += stride;
            if !creates && i % 10 != 0 {
                continue;
            }
            if let Some(o) = only {
                if o != i {
                    continue;
                }
            }
            evaluations += 1;
            *per_len.entry(format!("histories of length {len}")).or_default() += 1;
            if samples.len() < 8 && i % 9973 == 5 {
                samples.push(format!("[#{i}] {h:?}"));
            }
            let slack = i % 2 == 1;
            let r = std::panic::catch_unwind(|| run_history(&h, slack).and_then(|_| run_history_abi_thread(&h)));
            match r {
                Ok(Ok(())) => {}
                Ok(Err(e)) => failures.push((i, kind_of_failure(&e), format!("{h:?} (source buffers {} spare capacity)", if slack { "with" } else { "without" }), e, String::new())),
                Err(_) => {
                    let last = h.iter().map(|o| format!("{o:?}").split('(').next().unwrap_or("").to_string()).collect::<Vec<_>>().join(",");
                    failures.push((i, "a loader call panics".into(), format!("{h:?}"), format!("panic during the history (operation kinds {last})"), String::new()))
                }
            }
        }
    }
    // one-line JSON report (same shape as the other bounded binaries)
    let mut sigs: BTreeMap<String, usize> = BTreeMap::new();
    for f in &failures {
        *sigs.entry(f.1.clone()).or_default() += 1;
    }
    let esc = |s: &str| s.replace('\\', "\\\\").replace('"', "\\\"").replace('\n', "\\n");
    let mut seen: BTreeMap<String, usize> = BTreeMap::new();
    let shown: Vec<String> = failures
        .iter()
        .filter(|f| {
            let c = seen.entry(f.1.clone()).or_default();
            *c += 1;
            *c <= 2
        })
        .take(40)
        .map(|f| format!("{{\"signature\":\"{}\",\"family\":\"histories\",\"index\":{},\"graphql\":\"{}\",\"definition\":\"(history)\",\"why\":\"{}\",\"got\":\"\"}}", esc(&f.1), f.0, esc(&f.2), esc(&f.3)))
        .collect();
    println!(
        "{{\"evaluations\":{},\"distinct_nontrivial\":{},\"per_family\":{{{}}},\"samples\":[{}],\"failure_count\":{},\"signatures\":{{{}}},\"failures\":[{}]}}",
        evaluations,
        evaluations,
        per_len.iter().map(|(k, v)| format!("\"{}\":{}", esc(k), v)).collect::<Vec<_>>().join(","),
        samples.iter().map(|s| format!("\"{}\"", esc(s))).collect::<Vec<_>>().join(","),
        failures.len(),
        sigs.iter().map(|(k, v)| format!("\"{}\":{}", esc(k), v)).collect::<Vec<_>>().join(","),
        shown.join(",")
    );
}

}
