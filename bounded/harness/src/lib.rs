//! BOUNDED stand-in (not a proof) for property C12 on crates/printer/src/json_printer/to_json.rs and
//! operation_js_printer/printers.rs, which are outside the deductive verifier's reach (nested json_writer writers that
//! borrow the parent and close on Drop).  The real crates of the working tree are linked as they are; documents are
//! enumerated from an independent model, handed to the real printer as nitrogql_ast values, and the emitted JSON is read
//! back by an independent reader of the graphql-js AST shape (`from_json`) and compared with [X] ++ closure_spreads(X).
//! usage: jsonrt <quick|thorough> [--one <index>]   (this library: model, real-AST construction, oracle, enumeration)
use std::collections::{BTreeMap, BTreeSet};

use nitrogql_ast::{
    OperationDocument,
    base::{Ident, Pos},
    directive::Directive,
    operation::{ExecutableDefinition, FragmentDefinition, OperationDefinition, OperationType},
    selection_set::{Field, FragmentSpread, InlineFragment, Selection, SelectionSet},
    r#type::{ListType, NamedType, NonNullType, Type},
    value::{
        Arguments, BooleanValue, EnumValue, FloatValue, IntValue, ListValue, NullValue, ObjectValue, StringValue,
        Value,
    },
    variable::{Variable, VariableDefinition, VariablesDefinition},
};
use nitrogql_printer::{OperationJSPrinterOptions, print_js_for_operation_document};
use serde_json::Value as J;
use sourcemap_writer::JustWriter;

// ------------------------------------------------------------------------------------------------ model
#[derive(Clone, Debug, PartialEq, Eq, PartialOrd, Ord)]
pub enum MValue {
    Var(String),
    Bool(bool),
    Int(String),
    Float(String),
    Str(String),
    Null,
    Enum(String),
    List(Vec<MValue>),
    Obj(Vec<(String, MValue)>),
}
#[derive(Clone, Debug, PartialEq, Eq, PartialOrd, Ord)]
pub enum MType {
    Named(String),
    List(Box<MType>),
    NonNull(Box<MType>),
}
#[derive(Clone, Debug, PartialEq, Eq, PartialOrd, Ord)]
pub struct MDir {
    pub name: String,
    pub args: Vec<(String, MValue)>,
}
#[derive(Clone, Debug, PartialEq, Eq, PartialOrd, Ord)]
pub struct MVarDef {
    pub name: String,
    pub ty: MType,
    pub default: Option<MValue>,
    pub dirs: Vec<MDir>,
}
#[derive(Clone, Debug, PartialEq, Eq, PartialOrd, Ord)]
pub enum MSel {
    Field { alias: Option<String>, name: String, args: Vec<(String, MValue)>, dirs: Vec<MDir>, sel: Option<Vec<MSel>> },
    Spread { name: String, dirs: Vec<MDir> },
    Inline { cond: Option<String>, dirs: Vec<MDir>, sel: Vec<MSel> },
}
#[derive(Clone, Debug, PartialEq, Eq, PartialOrd, Ord)]
pub enum MDef {
    Op { ty: &'static str, name: Option<String>, vars: Vec<MVarDef>, dirs: Vec<MDir>, sel: Vec<MSel> },
    Frag { name: String, cond: String, dirs: Vec<MDir>, sel: Vec<MSel> },
}

// ------------------------------------------------------------------------------------------------ model -> real AST
pub fn leak(s: &str) -> &'static str {
    Box::leak(s.to_string().into_boxed_str())
}
pub fn pos() -> Pos {
    Pos { line: 0, column: 0, file: 0, builtin: false }
}
pub fn ident(s: &str) -> Ident<'static> {
    Ident { name: leak(s), position: pos() }
}
pub fn ast_value(v: &MValue) -> Value<'static> {
    match v {
        MValue::Var(n) => Value::Variable(Variable { name: leak(n), position: pos() }),
        MValue::Bool(b) => Value::BooleanValue(BooleanValue { position: pos(), keyword: if *b { "true" } else { "false" }, value: *b }),
        MValue::Int(s) => Value::IntValue(IntValue { position: pos(), value: leak(s) }),
        MValue::Float(s) => Value::FloatValue(FloatValue { position: pos(), value: leak(s) }),
        MValue::Str(s) => Value::StringValue(StringValue { position: pos(), value: s.clone() }),
        MValue::Null => Value::NullValue(NullValue { position: pos(), keyword: "null" }),
        MValue::Enum(s) => Value::EnumValue(EnumValue { position: pos(), value: leak(s) }),
        MValue::List(l) => Value::ListValue(ListValue { position: pos(), values: l.iter().map(ast_value).collect() }),
        MValue::Obj(f) => Value::ObjectValue(ObjectValue { position: pos(), fields: f.iter().map(|(k, v)| (ident(k), ast_value(v))).collect() }),
    }
}
pub fn ast_type(t: &MType) -> Type<'static> {
    match t {
        MType::Named(n) => Type::Named(NamedType { name: ident(n) }),
        MType::List(i) => Type::List(Box::new(ListType { position: pos(), r#type: ast_type(i) })),
        MType::NonNull(i) => Type::NonNull(Box::new(NonNullType { r#type: ast_type(i) })),
    }
}
pub fn ast_args(a: &[(String, MValue)]) -> Option<Arguments<'static>> {
    if a.is_empty() {
        None
    } else {
        Some(Arguments { position: pos(), arguments: a.iter().map(|(k, v)| (ident(k), ast_value(v))).collect() })
    }
}
pub fn ast_dirs(d: &[MDir]) -> Vec<Directive<'static>> {
    d.iter().map(|d| Directive { position: pos(), name: ident(&d.name), arguments: ast_args(&d.args) }).collect()
}
pub fn ast_selset(s: &[MSel]) -> SelectionSet<'static> {
    SelectionSet { position: pos(), selections: s.iter().map(ast_sel).collect() }
}
pub fn ast_sel(s: &MSel) -> Selection<'static> {
    match s {
        MSel::Field { alias, name, args, dirs, sel } => Selection::Field(Field {
            alias: alias.as_ref().map(|a| ident(a)),
            name: ident(name),
            arguments: ast_args(args),
            directives: ast_dirs(dirs),
            selection_set: sel.as_ref().map(|s| ast_selset(s)),
        }),
        MSel::Spread { name, dirs } => Selection::FragmentSpread(FragmentSpread { position: pos(), fragment_name: ident(name), directives: ast_dirs(dirs) }),
        MSel::Inline { cond, dirs, sel } => Selection::InlineFragment(InlineFragment {
            position: pos(),
            type_condition: cond.as_ref().map(|c| ident(c)),
            directives: ast_dirs(dirs),
            selection_set: ast_selset(sel),
        }),
    }
}
pub fn ast_def(d: &MDef) -> ExecutableDefinition<'static> {
    match d {
        MDef::Op { ty, name, vars, dirs, sel } => ExecutableDefinition::OperationDefinition(OperationDefinition {
            position: pos(),
            operation_type: match *ty {
                "query" => OperationType::Query,
                "mutation" => OperationType::Mutation,
                _ => OperationType::Subscription,
            },
            name: name.as_ref().map(|n| ident(n)),
            variables_definition: if vars.is_empty() {
                None
            } else {
                Some(VariablesDefinition {
                    position: pos(),
                    definitions: vars
                        .iter()
                        .map(|v| VariableDefinition {
                            pos: pos(),
                            name: Variable { name: leak(&v.name), position: pos() },
                            r#type: ast_type(&v.ty),
                            default_value: v.default.as_ref().map(ast_value),
                            directives: ast_dirs(&v.dirs),
                        })
                        .collect(),
                })
            },
            directives: ast_dirs(dirs),
            selection_set: ast_selset(sel),
        }),
        MDef::Frag { name, cond, dirs, sel } => ExecutableDefinition::FragmentDefinition(FragmentDefinition {
            position: pos(),
            name: ident(name),
            type_condition: ident(cond),
            directives: ast_dirs(dirs),
            selection_set: ast_selset(sel),
        }),
    }
}

// ------------------------------------------------------------------------------------------------ independent JSON reader
pub type R<T> = Result<T, String>;
pub fn obj<'a>(j: &'a J, kind: &str, required: &[&str], optional: &[&str]) -> R<&'a serde_json::Map<String, J>> {
    let o = j.as_object().ok_or_else(|| format!("{kind}: not an object: {j}"))?;
    let k = o.get("kind").and_then(|k| k.as_str()).ok_or_else(|| format!("{kind}: no kind in {j}"))?;
    if k != kind {
        return Err(format!("expected kind {kind}, got {k}"));
    }
    for r in required {
        if !o.contains_key(*r) {
            return Err(format!("{kind}: missing key {r}"));
        }
    }
    for key in o.keys() {
        if key != "kind" && !required.contains(&key.as_str()) && !optional.contains(&key.as_str()) {
            return Err(format!("{kind}: unexpected key {key}"));
        }
    }
    Ok(o)
}
pub fn kind_of(j: &J) -> R<&str> {
    j.get("kind").and_then(|k| k.as_str()).ok_or_else(|| format!("no kind in {j}"))
}
pub fn name_of(j: &J) -> R<String> {
    let o = obj(j, "Name", &["value"], &[])?;
    o["value"].as_str().map(|s| s.to_string()).ok_or_else(|| "Name.value is not a string".to_string())
}
pub fn arr<'a>(j: &'a J, what: &str) -> R<&'a Vec<J>> {
    j.as_array().ok_or_else(|| format!("{what}: not an array"))
}
pub fn str_of(j: &J, what: &str) -> R<String> {
    j.as_str().map(|s| s.to_string()).ok_or_else(|| format!("{what}: not a string: {j}"))
}
pub fn value_from(j: &J) -> R<MValue> {
    Ok(match kind_of(j)? {
        "Variable" => MValue::Var(name_of(&obj(j, "Variable", &["name"], &[])?["name"])?),
        "IntValue" => MValue::Int(str_of(&obj(j, "IntValue", &["value"], &[])?["value"], "IntValue.value")?),
        "FloatValue" => MValue::Float(str_of(&obj(j, "FloatValue", &["value"], &[])?["value"], "FloatValue.value")?),
        "StringValue" => MValue::Str(str_of(&obj(j, "StringValue", &["value"], &["block"])?["value"], "StringValue.value")?),
        "BooleanValue" => MValue::Bool(obj(j, "BooleanValue", &["value"], &[])?["value"].as_bool().ok_or("BooleanValue.value is not a boolean")?),
        "NullValue" => {
            obj(j, "NullValue", &[], &[])?;
            MValue::Null
        }
        "EnumValue" => MValue::Enum(str_of(&obj(j, "EnumValue", &["value"], &[])?["value"], "EnumValue.value")?),
        "ListValue" => MValue::List(arr(&obj(j, "ListValue", &["values"], &[])?["values"], "values")?.iter().map(value_from).collect::<R<_>>()?),
        "ObjectValue" => MValue::Obj(
            arr(&obj(j, "ObjectValue", &["fields"], &[])?["fields"], "fields")?
                .iter()
                .map(|f| {
                    let o = obj(f, "ObjectField", &["name", "value"], &[])?;
                    Ok((name_of(&o["name"])?, value_from(&o["value"])?))
                })
                .collect::<R<_>>()?,
        ),
        k => return Err(format!("unknown value kind {k}")),
    })
}
pub fn type_from(j: &J) -> R<MType> {
    Ok(match kind_of(j)? {
        "NamedType" => MType::Named(name_of(&obj(j, "NamedType", &["name"], &[])?["name"])?),
        "ListType" => MType::List(Box::new(type_from(&obj(j, "ListType", &["type"], &[])?["type"])?)),
        "NonNullType" => {
            let inner = type_from(&obj(j, "NonNullType", &["type"], &[])?["type"])?;
            if matches!(inner, MType::NonNull(_)) {
                return Err("NonNullType directly inside NonNullType".into());
            }
            MType::NonNull(Box::new(inner))
        }
        k => return Err(format!("unknown type kind {k}")),
    })
}
pub fn args_from(j: &J) -> R<Vec<(String, MValue)>> {
    arr(j, "arguments")?
        .iter()
        .map(|a| {
            let o = obj(a, "Argument", &["name", "value"], &[])?;
            Ok((name_of(&o["name"])?, value_from(&o["value"])?))
        })
        .collect()
}
pub fn dirs_from(j: &J) -> R<Vec<MDir>> {
    arr(j, "directives")?
        .iter()
        .map(|d| {
            let o = obj(d, "Directive", &["name"], &["arguments"])?;
            Ok(MDir { name: name_of(&o["name"])?, args: match o.get("arguments") { Some(a) => args_from(a)?, None => vec![] } })
        })
        .collect()
}
pub fn selset_from(j: &J) -> R<Vec<MSel>> {
    let o = obj(j, "SelectionSet", &["selections"], &[])?;
    arr(&o["selections"], "selections")?.iter().map(sel_from).collect()
}
pub fn sel_from(j: &J) -> R<MSel> {
    Ok(match kind_of(j)? {
        "Field" => {
            let o = obj(j, "Field", &["name"], &["alias", "arguments", "directives", "selectionSet"])?;
            MSel::Field {
                alias: match o.get("alias") { Some(a) => Some(name_of(a)?), None => None },
                name: name_of(&o["name"])?,
                args: match o.get("arguments") { Some(a) => args_from(a)?, None => vec![] },
                dirs: match o.get("directives") { Some(d) => dirs_from(d)?, None => vec![] },
                sel: match o.get("selectionSet") { Some(s) => Some(selset_from(s)?), None => None },
            }
        }
        "FragmentSpread" => {
            let o = obj(j, "FragmentSpread", &["name"], &["directives"])?;
            MSel::Spread { name: name_of(&o["name"])?, dirs: match o.get("directives") { Some(d) => dirs_from(d)?, None => vec![] } }
        }
        "InlineFragment" => {
            let o = obj(j, "InlineFragment", &["selectionSet"], &["typeCondition", "directives"])?;
            MSel::Inline {
                cond: match o.get("typeCondition") {
                    Some(t) => match type_from(t)? { MType::Named(n) => Some(n), _ => return Err("typeCondition is not a NamedType".into()) },
                    None => None,
                },
                dirs: match o.get("directives") { Some(d) => dirs_from(d)?, None => vec![] },
                sel: selset_from(&o["selectionSet"])?,
            }
        }
        k => return Err(format!("unknown selection kind {k}")),
    })
}
pub fn def_from(j: &J) -> R<MDef> {
    Ok(match kind_of(j)? {
        "OperationDefinition" => {
            let o = obj(j, "OperationDefinition", &["operation", "selectionSet"], &["name", "variableDefinitions", "directives"])?;
            let ty = match o["operation"].as_str() {
                Some("query") => "query",
                Some("mutation") => "mutation",
                Some("subscription") => "subscription",
                other => return Err(format!("bad operation {other:?}")),
            };
            let vars = match o.get("variableDefinitions") {
                None => vec![],
                Some(v) => arr(v, "variableDefinitions")?
                    .iter()
                    .map(|v| {
                        let o = obj(v, "VariableDefinition", &["variable", "type"], &["defaultValue", "directives"])?;
                        let name = match value_from(&o["variable"])? { MValue::Var(n) => n, _ => return Err("variable is not a Variable".to_string()) };
                        Ok(MVarDef {
                            name,
                            ty: type_from(&o["type"])?,
                            default: match o.get("defaultValue") { Some(d) => Some(value_from(d)?), None => None },
                            dirs: match o.get("directives") { Some(d) => dirs_from(d)?, None => vec![] },
                        })
                    })
                    .collect::<R<_>>()?,
            };
            MDef::Op {
                ty,
                name: match o.get("name") { Some(n) => Some(name_of(n)?), None => None },
                vars,
                dirs: match o.get("directives") { Some(d) => dirs_from(d)?, None => vec![] },
                sel: selset_from(&o["selectionSet"])?,
            }
        }
        "FragmentDefinition" => {
            let o = obj(j, "FragmentDefinition", &["name", "typeCondition", "selectionSet"], &["directives"])?;
            MDef::Frag {
                name: name_of(&o["name"])?,
                cond: match type_from(&o["typeCondition"])? { MType::Named(n) => n, _ => return Err("typeCondition is not a NamedType".into()) },
                dirs: match o.get("directives") { Some(d) => dirs_from(d)?, None => vec![] },
                sel: selset_from(&o["selectionSet"])?,
            }
        }
        k => return Err(format!("unknown definition kind {k}")),
    })
}
pub fn doc_from(j: &J) -> R<Vec<MDef>> {
    let o = obj(j, "Document", &["definitions"], &[])?;
    arr(&o["definitions"], "definitions")?.iter().map(def_from).collect()
}

// ------------------------------------------------------------------------------------------------ model -> GraphQL text (for reports only)
pub fn show_value(v: &MValue) -> String {
    match v {
        MValue::Var(n) => format!("${n}"),
        MValue::Bool(b) => b.to_string(),
        MValue::Int(s) | MValue::Float(s) | MValue::Enum(s) => s.clone(),
        MValue::Str(s) => format!("{s:?}"),
        MValue::Null => "null".into(),
        MValue::List(l) => format!("[{}]", l.iter().map(show_value).collect::<Vec<_>>().join(", ")),
        MValue::Obj(f) => format!("{{{}}}", f.iter().map(|(k, v)| format!("{k}: {}", show_value(v))).collect::<Vec<_>>().join(", ")),
    }
}
pub fn show_type(t: &MType) -> String {
    match t {
        MType::Named(n) => n.clone(),
        MType::List(i) => format!("[{}]", show_type(i)),
        MType::NonNull(i) => format!("{}!", show_type(i)),
    }
}
pub fn show_args(a: &[(String, MValue)]) -> String {
    if a.is_empty() { String::new() } else { format!("({})", a.iter().map(|(k, v)| format!("{k}: {}", show_value(v))).collect::<Vec<_>>().join(", ")) }
}
pub fn show_dirs(d: &[MDir]) -> String {
    d.iter().map(|d| format!(" @{}{}", d.name, show_args(&d.args))).collect()
}
pub fn show_sels(s: &[MSel]) -> String {
    format!("{{ {} }}", s.iter().map(show_sel).collect::<Vec<_>>().join(" "))
}
pub fn show_sel(s: &MSel) -> String {
    match s {
        MSel::Field { alias, name, args, dirs, sel } => format!(
            "{}{name}{}{}{}",
            alias.as_ref().map(|a| format!("{a}: ")).unwrap_or_default(),
            show_args(args),
            show_dirs(dirs),
            sel.as_ref().map(|s| format!(" {}", show_sels(s))).unwrap_or_default()
        ),
        MSel::Spread { name, dirs } => format!("...{name}{}", show_dirs(dirs)),
        MSel::Inline { cond, dirs, sel } => format!("...{}{} {}", cond.as_ref().map(|c| format!(" on {c}")).unwrap_or_default(), show_dirs(dirs), show_sels(sel)),
    }
}
pub fn show_def(d: &MDef) -> String {
    match d {
        MDef::Op { ty, name, vars, dirs, sel } => format!(
            "{ty}{}{}{} {}",
            name.as_ref().map(|n| format!(" {n}")).unwrap_or_default(),
            if vars.is_empty() {
                String::new()
            } else {
                format!(
                    "({})",
                    vars.iter()
                        .map(|v| format!("${}: {}{}{}", v.name, show_type(&v.ty), v.default.as_ref().map(|d| format!(" = {}", show_value(d))).unwrap_or_default(), show_dirs(&v.dirs)))
                        .collect::<Vec<_>>()
                        .join(", ")
                )
            },
            show_dirs(dirs),
            show_sels(sel)
        ),
        MDef::Frag { name, cond, dirs, sel } => format!("fragment {name} on {cond}{} {}", show_dirs(dirs), show_sels(sel)),
    }
}

// ------------------------------------------------------------------------------------------------ structural diff (failure signatures)
pub fn mj_value(v: &MValue) -> J {
    match v {
        MValue::Var(n) => serde_json::json!({"Variable": n}),
        MValue::Bool(b) => serde_json::json!({"BooleanValue": b}),
        MValue::Int(x) => serde_json::json!({"IntValue": x}),
        MValue::Float(x) => serde_json::json!({"FloatValue": x}),
        MValue::Str(x) => serde_json::json!({"StringValue": x}),
        MValue::Null => serde_json::json!({"NullValue": null}),
        MValue::Enum(x) => serde_json::json!({"EnumValue": x}),
        MValue::List(l) => serde_json::json!({"ListValue": l.iter().map(mj_value).collect::<Vec<_>>()}),
        MValue::Obj(f) => serde_json::json!({"ObjectValue": f.iter().map(|(k, v)| serde_json::json!({"name": k, "value": mj_value(v)})).collect::<Vec<_>>()}),
    }
}
pub fn mj_args(a: &[(String, MValue)]) -> J {
    J::Array(a.iter().map(|(k, v)| serde_json::json!({"name": k, "value": mj_value(v)})).collect())
}
pub fn mj_dirs(d: &[MDir]) -> J {
    J::Array(d.iter().map(|d| serde_json::json!({"name": d.name, "arguments": mj_args(&d.args)})).collect())
}
pub fn mj_sels(x: &[MSel]) -> J {
    J::Array(x.iter().map(mj_sel).collect())
}
pub fn mj_sel(x: &MSel) -> J {
    match x {
        MSel::Field { alias, name, args, dirs, sel } => serde_json::json!({"Field": {"alias": alias, "name": name, "arguments": mj_args(args), "directives": mj_dirs(dirs), "selectionSet": sel.as_ref().map(|s| mj_sels(s))}}),
        MSel::Spread { name, dirs } => serde_json::json!({"FragmentSpread": {"name": name, "directives": mj_dirs(dirs)}}),
        MSel::Inline { cond, dirs, sel } => serde_json::json!({"InlineFragment": {"typeCondition": cond, "directives": mj_dirs(dirs), "selectionSet": mj_sels(sel)}}),
    }
}
pub fn mj_def(d: &MDef) -> J {
    match d {
        MDef::Op { ty, name, vars, dirs, sel } => serde_json::json!({"OperationDefinition": {"operation": ty, "name": name,
            "variableDefinitions": vars.iter().map(|v| serde_json::json!({"variable": v.name, "type": show_type(&v.ty), "defaultValue": v.default.as_ref().map(mj_value), "directives": mj_dirs(&v.dirs)})).collect::<Vec<_>>(),
            "directives": mj_dirs(dirs), "selectionSet": mj_sels(sel)}}),
        MDef::Frag { name, cond, dirs, sel } => serde_json::json!({"FragmentDefinition": {"name": name, "typeCondition": cond, "directives": mj_dirs(dirs), "selectionSet": mj_sels(sel)}}),
    }
}
/// path (array indices erased) of the first place where the two trees differ
pub fn first_diff(a: &J, b: &J) -> Option<String> {
    match (a, b) {
        (J::Object(x), J::Object(y)) => {
            for (k, v) in x {
                match y.get(k) {
                    None => return Some(format!(".{k}")),
                    Some(w) => {
                        if let Some(p) = first_diff(v, w) {
                            return Some(format!(".{k}{p}"));
                        }
                    }
                }
            }
            for k in y.keys() {
                if !x.contains_key(k) {
                    return Some(format!(".{k}"));
                }
            }
            None
        }
        (J::Array(x), J::Array(y)) => {
            if x.len() != y.len() {
                return Some("[] (length differs)".to_string());
            }
            for (v, w) in x.iter().zip(y.iter()) {
                if let Some(p) = first_diff(v, w) {
                    return Some(format!("[]{p}"));
                }
            }
            None
        }
        _ => if a == b { None } else { Some(String::new()) },
    }
}

// ------------------------------------------------------------------------------------------------ oracle
pub fn spreads_in(s: &[MSel], out: &mut Vec<String>) {
    for x in s {
        match x {
            MSel::Field { sel: Some(s), .. } => spreads_in(s, out),
            MSel::Field { .. } => {}
            MSel::Spread { name, .. } => out.push(name.clone()),
            MSel::Inline { sel, .. } => spreads_in(sel, out),
        }
    }
}
pub fn sel_of(d: &MDef) -> &[MSel] {
    match d {
        MDef::Op { sel, .. } | MDef::Frag { sel, .. } => sel,
    }
}
/// names of the fragments transitively spread from `start` (excluding `start` itself unless it is reached again - a
/// definition is never listed twice, and the definition itself comes first)
pub fn closure(start: &MDef, frags: &BTreeMap<String, MDef>) -> BTreeSet<String> {
    let mut seen = BTreeSet::new();
    let mut todo = vec![];
    spreads_in(sel_of(start), &mut todo);
    while let Some(n) = todo.pop() {
        if let MDef::Frag { name, .. } = start {
            if *name == n {
                continue;
            }
        }
        if seen.insert(n.clone()) {
            if let Some(f) = frags.get(&n) {
                spreads_in(sel_of(f), &mut todo);
            }
        }
    }
    seen
}

pub struct Failure {
    pub signature: String,
    pub family: &'static str,
    pub index: usize,
    pub graphql: String,
    pub definition: String,
    pub why: String,
    pub got: String,
}

pub fn var_name_of(d: &MDef, names: &mut BTreeMap<String, usize>) -> String {
    let _ = names;
    match d {
        MDef::Op { name: Some(n), ty, .. } => format!("{n}{}", capitalize(ty)),
        MDef::Op { name: None, .. } => String::new(),
        MDef::Frag { name, .. } => name.clone(),
    }
}
pub fn capitalize(s: &str) -> String {
    let mut c = s.chars();
    match c.next() {
        Some(f) => f.to_uppercase().collect::<String>() + c.as_str(),
        None => String::new(),
    }
}

/// run the real printer on the document and compare every emitted runtime document with the oracle
pub fn check_doc(family: &'static str, index: usize, defs: &[MDef], failures: &mut Vec<Failure>) {
    let doc = OperationDocument { position: pos(), definitions: defs.iter().map(ast_def).collect() };
    let mut out = String::new();
    {
        let mut w = JustWriter::new(&mut out);
        print_js_for_operation_document(OperationJSPrinterOptions::default(), &doc, &mut w);
    }
    let graphql = defs.iter().map(show_def).collect::<Vec<_>>().join("\n");
    let frags: BTreeMap<String, MDef> = defs.iter().filter_map(|d| if let MDef::Frag { name, .. } = d { Some((name.clone(), d.clone())) } else { None }).collect();
    // `[export ]const <Name> = <json>;`
    let mut emitted: Vec<(String, String)> = vec![];
    for line in out.lines() {
        let l = line.strip_prefix("export ").unwrap_or(line);
        if let Some(rest) = l.strip_prefix("const ") {
            if let Some((name, json)) = rest.split_once(" = ") {
                emitted.push((name.to_string(), json.strip_suffix(';').unwrap_or(json).to_string()));
            }
        }
    }
    let mut fail_sig = |signature: String, definition: &str, why: String, got: &str| {
        failures.push(Failure { signature, family, index, graphql: graphql.clone(), definition: definition.to_string(), why, got: got.to_string() })
    };
    macro_rules! fail {
        ($d:expr, $w:expr, $g:expr) => {{
            let w: String = $w;
            let sig: String = w.split(|c| c == '`' || c == ':' || c == '[').next().unwrap_or("").trim().to_string();
            fail_sig(sig, $d, w, $g)
        }};
    }
    if emitted.len() != defs.len() {
        fail!("(document)", format!("{} definitions in the source, {} runtime documents emitted", defs.len(), emitted.len()), &out);
        return;
    }
    let mut names = BTreeMap::new();
    for (d, (name, json)) in defs.iter().zip(emitted.iter()) {
        let label = show_def(d).chars().take(60).collect::<String>();
        let want_var = var_name_of(d, &mut names);
        if !want_var.is_empty() && !name.starts_with(&want_var) && !want_var.starts_with(name.as_str()) {
            // variable naming is configuration dependent (C14); only the order of definitions is relied on here
        }
        let j: J = match serde_json::from_str(json) {
            Ok(j) => j,
            Err(e) => {
                fail!(&label, format!("emitted runtime document is not JSON: {e}"), json);
                continue;
            }
        };
        let got = match doc_from(&j) {
            Ok(g) => g,
            Err(e) => {
                fail_sig(format!("not a graphql-js DocumentNode: {e}"), &label, format!("emitted JSON is not a graphql-js DocumentNode: {e}"), json);
                continue;
            }
        };
        if got.is_empty() || got[0] != *d {
            let path = got.first().and_then(|g| first_diff(&mj_def(d), &mj_def(g))).unwrap_or_else(|| "(no definition)".into());
            fail_sig(format!("definition differs at {path}"), &label, format!("first definition differs from the source definition at {path}: expected `{}`, got `{}`", show_def(d), got.first().map(show_def).unwrap_or_default()), json);
            continue;
        }
        let want: BTreeSet<String> = closure(d, &frags);
        let mut got_names = vec![];
        let mut ok = true;
        for g in &got[1..] {
            match g {
                MDef::Frag { name, .. } => {
                    got_names.push(name.clone());
                    if frags.get(name) != Some(g) {
                        let path = frags.get(name).and_then(|f| first_diff(&mj_def(f), &mj_def(g))).unwrap_or_else(|| "(not defined in the source)".into());
                        fail_sig(format!("included fragment differs at {path}"), &label, format!("fragment {name} in the runtime document differs from its source definition at {path}: got `{}`", show_def(g)), json);
                        ok = false;
                    }
                }
                other => {
                    fail!(&label, format!("an operation follows the first definition: `{}`", show_def(other)), json);
                    ok = false;
                }
            }
        }
        if !ok {
            continue;
        }
        let got_set: BTreeSet<String> = got_names.iter().cloned().collect();
        if got_set.len() != got_names.len() {
            fail!(&label, format!("a fragment is included more than once: {got_names:?}"), json);
        } else if got_set != want.iter().filter(|n| frags.contains_key(*n)).cloned().collect::<BTreeSet<_>>() {
            fail_sig("fragment set differs from the transitive spread closure".into(), &label, format!("fragments included {got_names:?}, transitively spread {want:?}"), json);
        }
    }
}

// ------------------------------------------------------------------------------------------------ enumeration
pub fn s(x: &str) -> String {
    x.to_string()
}
pub fn atoms() -> Vec<MValue> {
    vec![
        MValue::Var(s("v")),
        MValue::Int(s("0")),
        MValue::Int(s("-12")),
        MValue::Float(s("1.5")),
        MValue::Float(s("-1e3")),
        MValue::Str(s("")),
        MValue::Str(s("plain")),
        MValue::Str(s("q\"b\\s\nl\tt")),
        MValue::Str(s("\u{e9}\u{2603}\u{1F600}")),
        MValue::Str(s("cr\r\nlf \r alone \u{0} \u{7f} \u{2028} / \u{8}\u{c}")),
        MValue::Bool(true),
        MValue::Bool(false),
        MValue::Null,
        MValue::Enum(s("RED")),
    ]
}
pub fn values(thorough: bool) -> Vec<MValue> {
    let a = atoms();
    let mut v = a.clone();
    v.push(MValue::List(vec![]));
    v.push(MValue::Obj(vec![]));
    for x in &a {
        v.push(MValue::List(vec![x.clone()]));
        v.push(MValue::Obj(vec![(s("k"), x.clone())]));
    }
    let pairs: Vec<(usize, usize)> = if thorough { (0..a.len()).flat_map(|i| (0..a.len()).map(move |j| (i, j))).collect() } else { (0..a.len()).map(|i| (i, (i * 5 + 3) % a.len())).collect() };
    for (i, j) in pairs {
        v.push(MValue::List(vec![a[i].clone(), a[j].clone()]));
        v.push(MValue::Obj(vec![(s("k"), a[i].clone()), (s("l"), a[j].clone())]));
    }
    let d1: Vec<MValue> = v[a.len()..].to_vec();
    for (n, x) in d1.iter().enumerate() {
        if thorough || n % 3 == 0 {
            v.push(MValue::List(vec![x.clone()]));
            v.push(MValue::Obj(vec![(s("o"), x.clone()), (s("p"), MValue::Int(s("7")))]));
        }
    }
    v
}
pub fn types() -> Vec<MType> {
    let n = |x: &str| MType::Named(s(x));
    vec![
        n("Int"),
        MType::NonNull(Box::new(n("ID"))),
        MType::List(Box::new(n("String"))),
        MType::NonNull(Box::new(MType::List(Box::new(MType::NonNull(Box::new(n("T"))))))),
        MType::List(Box::new(MType::List(Box::new(n("Int"))))),
        MType::List(Box::new(MType::NonNull(Box::new(MType::List(Box::new(n("U"))))))),
    ]
}
pub fn dir_sets() -> Vec<Vec<MDir>> {
    vec![
        vec![],
        vec![MDir { name: s("a"), args: vec![] }],
        vec![MDir { name: s("skip"), args: vec![(s("if"), MValue::Var(s("v")))] }],
        vec![MDir { name: s("a"), args: vec![] }, MDir { name: s("b"), args: vec![(s("y"), MValue::Int(s("1"))), (s("z"), MValue::Str(s("s")))] }],
    ]
}
pub fn field(name: &str) -> MSel {
    MSel::Field { alias: None, name: s(name), args: vec![], dirs: vec![], sel: None }
}
pub fn sel_alternatives() -> Vec<MSel> {
    let d = dir_sets();
    vec![
        field("a"),
        MSel::Field { alias: Some(s("b")), name: s("a"), args: vec![], dirs: vec![], sel: None },
        MSel::Field { alias: None, name: s("c"), args: vec![(s("x"), MValue::Int(s("1"))), (s("y"), MValue::Str(s("s")))], dirs: vec![], sel: None },
        MSel::Field { alias: None, name: s("d"), args: vec![], dirs: d[1].clone(), sel: None },
        MSel::Field { alias: Some(s("e")), name: s("f"), args: vec![(s("x"), MValue::Var(s("v")))], dirs: d[3].clone(), sel: Some(vec![field("g")]) },
        MSel::Field { alias: None, name: s("h"), args: vec![], dirs: vec![], sel: Some(vec![field("i"), field("j")]) },
        MSel::Spread { name: s("F1"), dirs: vec![] },
        MSel::Spread { name: s("F2"), dirs: d[2].clone() },
        MSel::Inline { cond: Some(s("T")), dirs: vec![], sel: vec![field("k")] },
        MSel::Inline { cond: None, dirs: vec![], sel: vec![field("l")] },
        MSel::Inline { cond: None, dirs: d[1].clone(), sel: vec![field("m")] },
        MSel::Inline { cond: Some(s("U")), dirs: d[3].clone(), sel: vec![field("n"), field("o")] },
    ]
}
pub fn frag(name: &str, sel: Vec<MSel>) -> MDef {
    MDef::Frag { name: s(name), cond: s("T"), dirs: vec![], sel }
}
pub fn query(name: Option<&str>, sel: Vec<MSel>) -> MDef {
    MDef::Op { ty: "query", name: name.map(s), vars: vec![], dirs: vec![], sel }
}

pub fn enumerate(thorough: bool, mut f: impl FnMut(&'static str, Vec<MDef>)) {
    let f1 = frag("F1", vec![field("x")]);
    let f2 = frag("F2", vec![field("y")]);
    // family values: every value in every value position
    for v in values(thorough) {
        let no_var = !format!("{v:?}").contains("Var(");
        let vars = vec![
            MVarDef { name: s("v"), ty: MType::Named(s("Int")), default: None, dirs: vec![] },
            MVarDef { name: s("w"), ty: MType::Named(s("In")), default: if no_var { Some(v.clone()) } else { None }, dirs: vec![MDir { name: s("vd"), args: vec![(s("x"), v.clone())] }] },
        ];
        f(
            "values",
            vec![MDef::Op {
                ty: "query",
                name: Some(s("Q")),
                vars,
                dirs: vec![MDir { name: s("od"), args: vec![(s("x"), v.clone())] }],
                sel: vec![
                    MSel::Field { alias: None, name: s("f"), args: vec![(s("x"), v.clone()), (s("y"), MValue::Obj(vec![(s("in"), v.clone())]))], dirs: vec![MDir { name: s("fd"), args: vec![(s("x"), v.clone())] }], sel: None },
                    MSel::Spread { name: s("F1"), dirs: vec![MDir { name: s("sd"), args: vec![(s("x"), v.clone())] }] },
                    MSel::Inline { cond: None, dirs: vec![MDir { name: s("id"), args: vec![(s("x"), v.clone())] }], sel: vec![field("z")] },
                ],
            }, MDef::Frag { name: s("F1"), cond: s("T"), dirs: vec![MDir { name: s("frd"), args: vec![(s("x"), v.clone())] }], sel: vec![field("x")] }],
        );
    }
    // family headers: operation type x name x variable definitions x directives
    let var_sets: Vec<Vec<MVarDef>> = {
        let mut r = vec![vec![]];
        for t in types() {
            r.push(vec![MVarDef { name: s("a"), ty: t.clone(), default: None, dirs: vec![] }]);
        }
        for ds in dir_sets() {
            r.push(vec![
                MVarDef { name: s("a"), ty: MType::Named(s("Int")), default: Some(MValue::Int(s("3"))), dirs: ds.clone() },
                MVarDef { name: s("b"), ty: MType::NonNull(Box::new(MType::Named(s("S")))), default: None, dirs: ds.clone() },
            ]);
        }
        r
    };
    for ty in ["query", "mutation", "subscription"] {
        for name in [None, Some("N")] {
            for vars in &var_sets {
                for dirs in dir_sets() {
                    f("headers", vec![MDef::Op { ty, name: name.map(s), vars: vars.clone(), dirs: dirs.clone(), sel: vec![field("a")] }]);
                }
            }
        }
    }
    for cond in ["T", "Query"] {
        for dirs in dir_sets() {
            f("headers", vec![MDef::Frag { name: s("Fr"), cond: s(cond), dirs: dirs.clone(), sel: vec![field("a")] }]);
        }
    }
    // family selections: all selection sequences of length 1..2 (3 when thorough), at depth 1, 2 and 3
    let alts = sel_alternatives();
    let mut seqs: Vec<Vec<MSel>> = alts.iter().map(|a| vec![a.clone()]).collect();
    for a in &alts {
        for b in &alts {
            seqs.push(vec![a.clone(), b.clone()]);
        }
    }
    if thorough {
        for a in &alts {
            for b in &alts {
                for c in &alts {
                    seqs.push(vec![a.clone(), b.clone(), c.clone()]);
                }
            }
        }
    }
    for (n, q) in seqs.iter().enumerate() {
        let wrapped = match n % 4 {
            0 => q.clone(),
            1 => vec![MSel::Field { alias: None, name: s("w"), args: vec![], dirs: vec![], sel: Some(q.clone()) }],
            2 => vec![MSel::Inline { cond: Some(s("W")), dirs: vec![], sel: q.clone() }, field("t")],
            _ => vec![MSel::Field { alias: None, name: s("w"), args: vec![], dirs: vec![], sel: Some(vec![MSel::Inline { cond: None, dirs: vec![], sel: q.clone() }]) }],
        };
        f("selections", vec![query(Some("Q"), wrapped.clone()), f1.clone(), f2.clone()]);
        if n % 3 == 0 {
            f("selections", vec![frag("F0", wrapped), f1.clone(), f2.clone()]);
        }
    }
    // family closure: every spread graph over three fragments (self loops and cycles included) x every set of spreads
    // in the operation; where a spread sits (top level, under a field, under an inline fragment) varies with the graph
    let fnames = ["F1", "F2", "F3"];
    let place = |k: usize, name: &str| -> MSel {
        let sp = MSel::Spread { name: s(name), dirs: vec![] };
        match k % 3 {
            0 => sp,
            1 => MSel::Field { alias: None, name: s("n"), args: vec![], dirs: vec![], sel: Some(vec![sp]) },
            _ => MSel::Inline { cond: Some(s("T")), dirs: vec![], sel: vec![field("q"), sp] },
        }
    };
    for g in 0..512usize {
        for o in 0..8usize {
            if !thorough && (g * 8 + o) % 3 != 0 && g.count_ones() > 4 {
                continue;
            }
            let mut defs = vec![];
            let mut osel = vec![field("root")];
            for (i, n) in fnames.iter().enumerate() {
                if o & (1 << i) != 0 {
                    osel.push(place(g + i, n));
                }
            }
            // operation names live in their own namespace: sometimes the operation is anonymous or shares a fragment's name
            let qname = match (g + 3 * o) % 7 { 0 => None, 1 => Some("F1"), 2 => Some("F3"), _ => Some("Q") };
            defs.push(query(qname, osel));
            for (i, n) in fnames.iter().enumerate() {
                let mut sel = vec![field(&format!("f{i}"))];
                for (j, m) in fnames.iter().enumerate() {
                    if g & (1 << (i * 3 + j)) != 0 {
                        sel.push(place(g + i + j + 1, m));
                    }
                }
                defs.push(frag(n, sel));
            }
            // definition order in the file must not matter: rotate
            let r = (g + o) % defs.len();
            defs.rotate_left(r);
            f("closure", defs);
        }
    }
    // family unknown: a spread of a fragment that is not defined in the document is outside C12's quantifier
    // (documents are accepted by `check` first); not generated.
}


/// driver shared by the bounded binaries: enumerate, check, report one JSON line
pub fn run_main(check: impl Fn(&'static str, usize, &[MDef], &mut Vec<Failure>), extra: impl FnOnce(bool, &mut dyn FnMut(&'static str, String, Vec<Failure>))) {
    let args: Vec<String> = std::env::args().collect();
    let thorough = args.get(1).map(|a| a == "thorough").unwrap_or(false);
    let only: Option<usize> = args.iter().position(|a| a == "--one").and_then(|i| args.get(i + 1)).and_then(|x| x.parse().ok());
    let mut failures: Vec<Failure> = vec![];
    let mut evaluations = 0usize;
    let mut distinct: BTreeSet<String> = BTreeSet::new();
    let mut per_family: BTreeMap<&'static str, usize> = BTreeMap::new();
    let mut samples: Vec<String> = vec![];
    let mut index = 0usize;
    std::panic::set_hook(Box::new(|_| {}));
    {
        let mut record = |family: &'static str, text: String, fs: Vec<Failure>, evaluations: &mut usize, per_family: &mut BTreeMap<&'static str, usize>, samples: &mut Vec<String>, distinct: &mut BTreeSet<String>, failures: &mut Vec<Failure>, i: usize| {
            *evaluations += 1;
            *per_family.entry(family).or_default() += 1;
            if per_family[family] == 2 || (per_family[family] % 997 == 0 && samples.len() < 12) {
                samples.push(format!("[{family} #{i}] {text}"));
            }
            distinct.insert(text);
            failures.extend(fs);
        };
        enumerate(thorough, |family, defs| {
            let i = index;
            index += 1;
            if let Some(o) = only {
                if o != i {
                    return;
                }
            }
            let text = defs.iter().map(show_def).collect::<Vec<_>>().join("\n");
            let r = std::panic::catch_unwind(std::panic::AssertUnwindSafe(|| {
                let mut fs = vec![];
                check(family, i, &defs, &mut fs);
                fs
            }));
            let fs = match r {
                Ok(fs) => fs,
                Err(_) => vec![Failure { signature: "the code under test panicked".into(), family, index: i, graphql: text.clone(), definition: "(document)".into(), why: "the code under test panicked".into(), got: String::new() }],
            };
            record(family, text, fs, &mut evaluations, &mut per_family, &mut samples, &mut distinct, &mut failures, i);
        });
        let mut extra_index = 1_000_000usize;
        let mut sink = |family: &'static str, text: String, mut fs: Vec<Failure>| {
            let i = extra_index;
            extra_index += 1;
            if let Some(o) = only {
                if o != i {
                    return;
                }
            }
            for f in fs.iter_mut() {
                f.index = i;
            }
            record(family, text, fs, &mut evaluations, &mut per_family, &mut samples, &mut distinct, &mut failures, i);
        };
        extra(thorough, &mut sink);
    }
    let mut signatures: BTreeMap<String, usize> = BTreeMap::new();
    for f in &failures {
        *signatures.entry(f.signature.clone()).or_default() += 1;
    }
    let mut seen: BTreeMap<String, usize> = BTreeMap::new();
    let shown: Vec<J> = failures
        .iter()
        .filter(|f| {
            let c = seen.entry(f.signature.clone()).or_default();
            *c += 1;
            *c <= 2
        })
        .take(40)
        .map(|f| {
            serde_json::json!({
                "signature": f.signature, "family": f.family, "index": f.index, "graphql": f.graphql, "definition": f.definition, "why": f.why,
                "got": f.got.chars().take(1500).collect::<String>(),
            })
        })
        .collect();
    let out = serde_json::json!({
        "evaluations": evaluations,
        "distinct_nontrivial": distinct.len(),
        "per_family": per_family,
        "samples": samples,
        "failure_count": failures.len(),
        "signatures": signatures,
        "failures": shown,
    });
    println!("{}", out);
}

// ------------------------------------------------------------------------------------------------ running the real CLI
pub mod cli {
    use std::io::Read;
    use std::path::Path;
    use std::sync::Mutex;
    use std::sync::atomic::{AtomicUsize, Ordering};

    pub struct Outcome {
        pub status: Option<i32>,
        pub stderr: String,
        pub timed_out: bool,
    }
    impl Outcome {
        pub fn panicked(&self) -> bool {
            self.stderr.contains("panicked at ") || self.stderr.contains("stack overflow")
        }
        /// `check` accepted the project (the CLI exits 0 even after a panic in its async task, so the marker is used)
        pub fn check_passed(&self) -> bool {
            self.stderr.contains("'check' finished")
        }
    }
    /// write `files` under `dir` (emptied first) and run `<cli> <command>` there
    pub fn run(cli: &str, dir: &Path, files: &[(String, String)], command: &str) -> Outcome {
        let _ = std::fs::remove_dir_all(dir);
        std::fs::create_dir_all(dir).unwrap();
        for (f, text) in files {
            let p = dir.join(f);
            std::fs::create_dir_all(p.parent().unwrap()).unwrap();
            std::fs::write(p, text).unwrap();
        }
        let mut child = match std::process::Command::new(cli)
            .arg(command)
            .current_dir(dir)
            .env("RUST_BACKTRACE", "0")
            .stdout(std::process::Stdio::null())
            .stderr(std::process::Stdio::piped())
            .spawn()
        {
            Ok(c) => c,
            Err(e) => return Outcome { status: None, stderr: format!("harness: cannot run the CLI: {e}"), timed_out: false },
        };
        let mut err = child.stderr.take().unwrap();
        let reader = std::thread::spawn(move || {
            let mut s = String::new();
            let _ = err.read_to_string(&mut s);
            s
        });
        let t0 = std::time::Instant::now();
        let mut timed_out = false;
        let status = loop {
            match child.try_wait() {
                Ok(Some(st)) => break st.code(),
                Ok(None) => {
                    if t0.elapsed().as_secs() >= 20 {
                        let _ = child.kill();
                        let _ = child.wait();
                        timed_out = true;
                        break None;
                    }
                    std::thread::sleep(std::time::Duration::from_millis(2));
                }
                Err(_) => break None,
            }
        };
        Outcome { status, stderr: reader.join().unwrap_or_default(), timed_out }
    }
    /// run `f(index, worker_dir)` for every index in 0..n on all cores; results in index order
    pub fn par_map<T: Send>(n: usize, tmp: &Path, f: impl Fn(usize, &Path) -> T + Sync) -> Vec<T> {
        let next = AtomicUsize::new(0);
        let out: Mutex<Vec<(usize, T)>> = Mutex::new(vec![]);
        let workers = std::thread::available_parallelism().map(|n| n.get()).unwrap_or(4).min(16);
        std::thread::scope(|sc| {
            for w in 0..workers {
                let (next, out, f) = (&next, &out, &f);
                let dir = tmp.join(format!("w{w}"));
                sc.spawn(move || loop {
                    let i = next.fetch_add(1, Ordering::SeqCst);
                    if i >= n {
                        break;
                    }
                    let r = f(i, &dir);
                    out.lock().unwrap().push((i, r));
                });
            }
        });
        let mut v = out.into_inner().unwrap();
        v.sort_by_key(|(i, _)| *i);
        v.into_iter().map(|(_, r)| r).collect()
    }
    /// the one-line JSON report every bounded binary prints
    pub fn report(evaluations: usize, per_family: std::collections::BTreeMap<String, usize>, samples: Vec<String>, failures: Vec<(usize, String, String, String, String)>) {
        // failures: (index, signature, input, why, got)
        let mut signatures: std::collections::BTreeMap<String, usize> = Default::default();
        for f in &failures {
            *signatures.entry(f.1.clone()).or_default() += 1;
        }
        let mut seen: std::collections::BTreeMap<String, usize> = Default::default();
        let shown: Vec<serde_json::Value> = failures
            .iter()
            .filter(|f| {
                let c = seen.entry(f.1.clone()).or_default();
                *c += 1;
                *c <= 2
            })
            .take(60)
            .map(|f| serde_json::json!({"signature": f.1, "family": "projects", "index": f.0, "graphql": f.2, "definition": "(project)", "why": f.3, "got": f.4}))
            .collect();
        println!(
            "{}",
            serde_json::json!({"evaluations": evaluations, "distinct_nontrivial": evaluations, "per_family": per_family, "samples": samples,
                "failure_count": failures.len(), "signatures": signatures, "failures": shown})
        );
    }
}
