//! BOUNDED stand-in (not a proof) for property C05 on two checker functions that are not under contract:
//! crates/checker/src/type_system_checker/interfaces.rs check_valid_implementation and
//! check_directive_recursion.rs (check_directive_recursion, directives_in_type).  The real `nitrogql-cli check` is run
//! on every schema of a stated finite family and its verdict (accepted / rejected) is compared with an independent
//! executable reading of the GraphQL specification's IsValidImplementation / IsSubType and of the rule that a
//! directive definition must not reference itself directly or indirectly.
//! usage: tsverdict <quick|thorough> [--one <index>]     env: VX_CLI
use std::collections::BTreeMap;

use vx_bounded::cli;

#[derive(Clone, Debug, PartialEq)]
enum Ty {
    Named(&'static str),
    List(Box<Ty>),
    NonNull(Box<Ty>),
}
fn show(t: &Ty) -> String {
    match t {
        Ty::Named(n) => n.to_string(),
        Ty::List(i) => format!("[{}]", show(i)),
        Ty::NonNull(i) => format!("{}!", show(i)),
    }
}
const NAMES: [&str; 7] = ["Int", "String", "J", "M", "K", "L", "U"];
fn all_types() -> Vec<Ty> {
    let mut v = vec![];
    for n in NAMES {
        let t = Ty::Named(n);
        v.push(t.clone());
        v.push(Ty::NonNull(Box::new(t.clone())));
        v.push(Ty::List(Box::new(t.clone())));
        v.push(Ty::List(Box::new(Ty::NonNull(Box::new(t.clone())))));
        v.push(Ty::NonNull(Box::new(Ty::List(Box::new(t.clone())))));
        v.push(Ty::NonNull(Box::new(Ty::List(Box::new(Ty::NonNull(Box::new(t.clone())))))));
    }
    v
}
const BASE: &str = "type Query { q: Int }\ninterface J { j: Int }\ninterface M implements J { j: Int m: Int }\ntype K implements J { j: Int }\ntype L { l: Int }\nunion U = K | L\n";
/// does `sub` (a named type of BASE) count as `sup`?
fn named_sub(sub: &str, sup: &str) -> bool {
    sub == sup || (sup == "J" && (sub == "K" || sub == "M")) || (sup == "U" && (sub == "K" || sub == "L"))
}
/// IsSubType of the GraphQL specification (section 3.6.x IsValidImplementationFieldType)
fn is_sub(sub: &Ty, sup: &Ty) -> bool {
    match (sub, sup) {
        (Ty::NonNull(a), Ty::NonNull(b)) => is_sub(a, b),
        (Ty::NonNull(a), b) => is_sub(a, b),
        (_, Ty::NonNull(_)) => false,
        (Ty::List(a), Ty::List(b)) => is_sub(a, b),
        (Ty::List(_), _) | (_, Ty::List(_)) => false,
        (Ty::Named(a), Ty::Named(b)) => named_sub(a, b),
    }
}
type Args = Vec<(&'static str, Ty)>;
fn show_args(a: &Args) -> String {
    if a.is_empty() { String::new() } else { format!("({})", a.iter().map(|(n, t)| format!("{n}: {}", show(t))).collect::<Vec<_>>().join(", ")) }
}

struct Case {
    family: &'static str,
    label: String,
    schema: String,
    expect_valid: bool,
    why: String,
}

fn implementation_cases(thorough: bool) -> Vec<Case> {
    let mut v = vec![];
    let int = || Ty::Named("Int");
    // 1. return types: every pair (TI, TO)
    let types = all_types();
    for (i, ti) in types.iter().enumerate() {
        for (o, to) in types.iter().enumerate() {
            if !thorough && (i * 31 + o * 7) % 4 != 0 && ti != to {
                continue;
            }
            for kind in ["type", "interface"] {
                if kind == "interface" && (i + o) % 5 != 0 {
                    continue;
                }
                let valid = is_sub(to, ti);
                v.push(Case {
                    family: "field type",
                    label: format!("{kind} O implements I; I.f: {}; O.f: {}", show(ti), show(to)),
                    schema: format!("{BASE}interface I {{ f: {} }}\n{kind} O implements I {{ f: {} }}\n", show(ti), show(to)),
                    expect_valid: valid,
                    why: if valid { "the field type is a subtype".into() } else { "the field type is not a subtype of the interface field's type".into() },
                });
            }
        }
    }
    // 1b. the same rule when `implements` is declared only by an extension (of the type, or of the interface's parent)
    for (i, ti) in types.iter().enumerate() {
        for (o, to) in types.iter().enumerate() {
            if (i * 13 + o * 5) % (if thorough { 3 } else { 11 }) != 0 {
                continue;
            }
            let valid = is_sub(to, ti);
            let why = if valid { "the field type is a subtype".to_string() } else { "the field type is not a subtype of the interface field's type".to_string() };
            v.push(Case {
                family: "implements declared by an extension",
                label: format!("extend type O implements I; I.f: {}; O.f: {}", show(ti), show(to)),
                schema: format!("{BASE}interface I {{ f: {} }}\ntype O {{ f: {} }}\nextend type O implements I\n", show(ti), show(to)),
                expect_valid: valid,
                why: why.clone(),
            });
            v.push(Case {
                family: "implements declared by an extension",
                label: format!("extend interface O implements I (and a directive-only extension before it); I.f: {}; O.f: {}", show(ti), show(to)),
                schema: format!("{BASE}directive @t on INTERFACE\ninterface I {{ f: {} }}\ninterface O {{ f: {} }}\nextend interface O @t\nextend interface O implements I\n", show(ti), show(to)),
                expect_valid: valid,
                why,
            });
        }
    }
    v.push(Case { family: "implements declared by an extension", label: "extension adds the interface, field missing".into(), schema: format!("{BASE}interface I {{ f: Int g: Int }}\ntype O {{ f: Int }}\nextend type O implements I\n"), expect_valid: false, why: "a field of the interface is missing".into() });
    v.push(Case { family: "implements declared by an extension", label: "extension adds the interface and the missing field".into(), schema: format!("{BASE}interface I {{ f: Int g: Int }}\ntype O {{ f: Int }}\nextend type O implements I {{ g: Int }}\n"), expect_valid: true, why: "all fields present after merging".into() });
    // 2. arguments
    let l = |t: Ty| Ty::List(Box::new(t));
    let nn = |t: Ty| Ty::NonNull(Box::new(t));
    let ai: Vec<Args> = vec![vec![], vec![("a", int())], vec![("a", nn(int()))], vec![("a", int()), ("b", Ty::Named("String"))], vec![("a", l(int()))], vec![("a", l(l(int())))], vec![("a", l(nn(l(int()))))], vec![("a", l(l(l(int()))))]];
    let ao: Vec<Args> = vec![
        vec![],
        vec![("a", int())],
        vec![("a", Ty::NonNull(Box::new(int())))],
        vec![("a", Ty::Named("String"))],
        vec![("a", Ty::List(Box::new(int())))],
        vec![("a", Ty::List(Box::new(Ty::NonNull(Box::new(int())))))],
        vec![("a", int()), ("b", Ty::Named("String"))],
        vec![("b", Ty::Named("String")), ("a", int())],
        vec![("a", int()), ("c", int())],
        vec![("a", int()), ("c", Ty::NonNull(Box::new(int())))],
        vec![("c", int())],
        vec![("c", Ty::NonNull(Box::new(int())))],
        vec![("a", l(l(int())))],
        vec![("a", l(l(nn(int()))))],
        vec![("a", l(nn(l(int()))))],
        vec![("a", nn(l(l(int()))))],
        vec![("a", l(l(Ty::Named("String"))))],
        vec![("a", l(l(l(int()))))],
        vec![("a", l(l(l(nn(int())))))],
    ];
    for a in &ai {
        for b in &ao {
            let all_present_same = a.iter().all(|(n, t)| b.iter().any(|(m, u)| m == n && t == u));
            let extras_nullable = b.iter().filter(|(m, _)| !a.iter().any(|(n, _)| n == m)).all(|(_, u)| !matches!(u, Ty::NonNull(_)));
            let valid = all_present_same && extras_nullable;
            v.push(Case {
                family: "arguments",
                label: format!("I.f{}; O.f{}", show_args(a), show_args(b)),
                schema: format!("{BASE}interface I {{ f{}: Int }}\ntype O implements I {{ f{}: Int }}\n", show_args(a), show_args(b)),
                expect_valid: valid,
                why: if valid { "every interface argument is present with the same type and additional arguments are nullable".into() } else if !all_present_same { "an interface argument is missing or has a different type".into() } else { "an additional argument is non-null".into() },
            });
        }
    }
    // 3. fields present, transitive interfaces
    let mut push = |label: &str, defs: &str, valid: bool, why: &str| v.push(Case { family: "fields and interfaces", label: label.into(), schema: format!("{BASE}{defs}"), expect_valid: valid, why: why.into() });
    push("field missing", "interface I { f: Int g: Int }\ntype O implements I { f: Int }\n", false, "a field of the interface is missing");
    push("field present among others", "interface I { f: Int }\ntype O implements I { e: Int f: Int g: Int }\n", true, "all fields present");
    push("differently named field", "interface I { f: Int }\ntype O implements I { F: Int }\n", false, "a field of the interface is missing (names are case sensitive)");
    push("transitive interface not declared", "interface I implements J { j: Int f: Int }\ntype O implements I { j: Int f: Int }\n", false, "the interface implements J, so the type must declare J too");
    push("transitive interface declared", "interface I implements J { j: Int f: Int }\ntype O implements I & J { j: Int f: Int }\n", true, "all interfaces declared");
    push("transitive interface declared, field of it missing", "interface I implements J { j: Int f: Int }\ntype O implements I & J { f: Int }\n", false, "field j of J (and I) is missing");
    push("interface implementing interface without declaring its parent", "interface I implements M { j: Int m: Int }\ntype O implements I & M & J { j: Int m: Int }\n", false, "interface I implements M, which implements J, so I must declare J");
    push("two interfaces, second violated", "interface I { f: Int }\ninterface I2 { g: String }\ntype O implements I & I2 { f: Int g: Int }\n", false, "field g is not a subtype of String");
    push("two interfaces, both satisfied", "interface I { f: Int }\ninterface I2 { g: String }\ntype O implements I & I2 { f: Int! g: String! }\n", true, "both satisfied");
    push("implements an unknown interface", "type O implements Nope { f: Int }\n", false, "unknown interface");
    push("implements an object type", "type O implements L { l: Int }\n", false, "L is not an interface");
    push("implements itself", "interface I implements I { f: Int }\ntype O implements I { f: Int }\n", false, "an interface must not implement itself");
    v
}

fn directive_cases(thorough: bool) -> Vec<Case> {
    let mut v = vec![];
    let names = ["a", "b", "c"];
    for via in ["argument directives", "input type fields", "enum values", "the argument type's own directives"] {
        let via_input = via != "argument directives";
        for g in 0..512usize {
            if !thorough && g % 3 != 0 && g.count_ones() > 3 {
                continue;
            }
            let edge = |i: usize, j: usize| g & (1 << (i * 3 + j)) != 0;
            // cycle detection by transitive closure
            let mut reach = [[false; 3]; 3];
            for i in 0..3 {
                for j in 0..3 {
                    reach[i][j] = edge(i, j);
                }
            }
            for k in 0..3 {
                for i in 0..3 {
                    for j in 0..3 {
                        if reach[i][k] && reach[k][j] {
                            reach[i][j] = true;
                        }
                    }
                }
            }
            let cyclic = (0..3).any(|i| reach[i][i]);
            let mut schema = String::from("type Query { q: Int }\n");
            for i in 0..3 {
                let uses: String = (0..3).filter(|j| edge(i, *j)).map(|j| format!(" @{}", names[j])).collect();
                let locs = "ARGUMENT_DEFINITION | INPUT_FIELD_DEFINITION | ENUM_VALUE | ENUM | INPUT_OBJECT | SCALAR";
                let up = names[i].to_uppercase();
                if via == "input type fields" {
                    schema += &format!("directive @{}(x: In{up}) on {locs}\ninput In{up} {{ f: Int{uses} }}\n", names[i]);
                } else if via == "enum values" {
                    schema += &format!("directive @{}(x: En{up}) on {locs}\nenum En{up} {{ V W{uses} }}\n", names[i]);
                } else if via == "the argument type's own directives" {
                    match i {
                        0 => schema += &format!("directive @{}(x: Ty{up}) on {locs}\nscalar Ty{up}{uses}\n", names[i]),
                        1 => schema += &format!("directive @{}(x: Ty{up}) on {locs}\nenum Ty{up}{uses} {{ V }}\n", names[i]),
                        _ => schema += &format!("directive @{}(x: Ty{up}) on {locs}\ninput Ty{up}{uses} {{ f: Int }}\n", names[i]),
                    }
                } else {
                    schema += &format!("directive @{}(x: Int{uses}) on ARGUMENT_DEFINITION | INPUT_FIELD_DEFINITION\n", names[i]);
                }
            }
            let edges: Vec<String> = (0..3).flat_map(|i| (0..3).filter(move |j| g & (1 << (i * 3 + j)) != 0).map(move |j| format!("{}->{}", names[i], names[j]))).collect();
            v.push(Case {
                family: if via_input { "directive references through types" } else { "directive references" },
                label: format!("references {{{}}} through {via}", edges.join(", ")),
                schema,
                expect_valid: !cyclic,
                why: if cyclic { "a directive references itself directly or indirectly".into() } else { "no directive reaches itself".into() },
            });
        }
    }
    v
}

/// "duplicate ... same-kind type definitions": two definitions of one name are rejected wherever extensions of that name
/// stand between, before or after them; one definition with extensions in any order is accepted
fn duplicate_cases() -> Vec<Case> {
    let mut v = vec![];
    let base = "directive @tag(name: String) repeatable on SCALAR | OBJECT | INTERFACE | UNION | ENUM | INPUT_OBJECT\ntype Query { q: Int }\ntype K { k: Int }\ntype L { l: Int }\ntype M1 { m: Int }\ntype M2 { m: Int }\n";
    // per kind: [definition 1, definition 2, extension 1, extension 2]
    let kinds: [(&str, [&str; 4]); 6] = [
        ("scalar", ["scalar X", "scalar X @tag(name: \"d2\")", "extend scalar X @tag(name: \"x1\")", "extend scalar X @tag(name: \"x2\")"]),
        ("type", ["type X { a: Int }", "type X { b: Int }", "extend type X { x1: Int }", "extend type X @tag(name: \"x2\")"]),
        ("interface", ["interface X { a: Int }", "interface X { b: Int }", "extend interface X { x1: Int }", "extend interface X @tag(name: \"x2\")"]),
        ("union", ["union X = K", "union X = L", "extend union X = M1", "extend union X = M2"]),
        ("enum", ["enum X { A }", "enum X { B }", "extend enum X { X1 }", "extend enum X { X2 }"]),
        ("input", ["input X { a: Int }", "input X { b: Int }", "extend input X { x1: Int }", "extend input X { x2: Int }"]),
    ];
    fn perms(items: &[usize]) -> Vec<Vec<usize>> {
        if items.len() <= 1 {
            return vec![items.to_vec()];
        }
        let mut out = vec![];
        for i in 0..items.len() {
            let mut rest = items.to_vec();
            let x = rest.remove(i);
            for mut p in perms(&rest) {
                p.insert(0, x);
                out.push(p);
            }
        }
        out
    }
    let names = ["definition", "second definition", "extension", "second extension"];
    for (kind, texts) in kinds {
        let sets: [(&[usize], bool); 8] = [(&[0, 1], false), (&[0, 1, 2], false), (&[0, 1, 2, 3], false), (&[0], true), (&[0, 2], true), (&[0, 2, 3], true), (&[1, 3], true), (&[1], true)];
        for (set, ok) in sets {
            for order in perms(set) {
                let body: String = order.iter().map(|i| format!("{}\n", texts[*i])).collect();
                v.push(Case {
                    family: "duplicate definitions",
                    label: format!("{kind}: {}", order.iter().map(|i| names[*i]).collect::<Vec<_>>().join(", ")),
                    schema: format!("{base}{body}"),
                    expect_valid: ok,
                    why: if ok { format!("one {kind} definition with its extensions in any order is valid") } else { format!("the {kind} is defined twice") },
                });
            }
        }
    }
    v
}

/// one accepted and one rejected schema (at least) for every rule the property lists; a second line behind the Verus
/// units that prove the per-kind checkers (ts_leaf, ts_enum, ts_simple, ts_object, tsdoc, dirs, args), for rewrites
/// that leave a unit undecided
fn rule_cases() -> Vec<Case> {
    let mut v = vec![];
    let q = "type Query { q: Int }\n";
    let mut add = |rule: &str, schema: &str, expect_valid: bool| {
        v.push(Case { family: "type-system rules", label: format!("{rule}: {}", schema.replace('\n', " ")), schema: format!("{q}{schema}\n"), expect_valid, why: if expect_valid { format!("the schema satisfies the rule `{rule}` and every other rule") } else { format!("the schema breaks the rule `{rule}`") } })
    };
    // reserved names
    add("reserved __ names", "type __T { a: Int }", false);
    add("reserved __ names", "type T { __a: Int }", false);
    add("reserved __ names", "type T { a(__x: Int): Int }", false);
    add("reserved __ names", "interface __I { a: Int }", false);
    add("reserved __ names", "input __N { a: Int }", false);
    add("reserved __ names", "input N { __a: Int }", false);
    add("reserved __ names", "enum __E { A }", false);
    add("reserved __ names", "union __U = Query", false);
    add("reserved __ names", "scalar __S", false);
    add("reserved __ names", "directive @__d on FIELD", false);
    add("reserved __ names", "directive @d(__x: Int) on FIELD", false);
    add("reserved __ names", "type T_ { _a(x__: Int): Int }\nenum E_ { A__ }\ndirective @d_(x_: Int) on FIELD", true);
    // duplicates
    add("duplicate fields", "type T { a: Int a: Int }", false);
    add("duplicate fields", "type T { a: Int b: String a: String }", false);
    add("duplicate fields", "interface I { a: Int a: Int }", false);
    add("duplicate fields", "input N { a: Int a: Int }", false);
    add("duplicate fields", "type T { a: Int }\nextend type T { a: Int }", false);
    add("duplicate fields", "type T { a: Int b: Int }\ninterface I { a: Int b: Int }\ninput N { a: Int b: Int }", true);
    // a duplicate that is not adjacent to its first occurrence, with names in between that sort before and after it
    add("duplicate fields", "type T { name: String! id: ID! name: String! }", false);
    add("duplicate fields", "type T { m: Int z: Int a: Int q: Int m: Int }", false);
    add("duplicate fields", "interface I { name: String id: ID name: String }", false);
    add("duplicate fields", "input N { name: String id: ID zz: Int name: String }", false);
    add("duplicate fields", "type T { name: String id: ID }\nextend type T { aa: Int name: String }", false);
    add("duplicate arguments", "type T { a(offset: Int, limit: Int, offset: Int): Int }", false);
    add("duplicate arguments", "directive @d(offset: Int, limit: Int, zz: Int, offset: Int) on FIELD", false);
    add("duplicate enum values", "enum E { USER ADMIN USER }", false);
    add("duplicate enum values", "enum E { M Z A Q M }", false);
    add("duplicate enum values", "enum E { USER ADMIN }\nextend enum E { GUEST USER }", false);
    add("duplicate union members", "type Dog { a: Int }\ntype Cat { a: Int }\nunion Pet = Dog | Cat | Dog", false);
    add("duplicate union members", "type Dog { a: Int }\ntype Cat { a: Int }\ntype Ant { a: Int }\nunion Pet = Dog | Cat\nextend union Pet = Ant | Dog", false);
    add("duplicate fields", "type T { m: Int z: Int a: Int q: Int b: Int }\nenum E { M Z A Q B }\ntype Dog { a: Int }\ntype Cat { a: Int }\nunion Pet = Dog | Cat\ninput N { m: Int z: Int a: Int }", true);
    add("duplicate arguments", "type T { a(x: Int, x: Int): Int }", false);
    add("duplicate arguments", "directive @d(x: Int, x: Int) on FIELD", false);
    add("duplicate arguments", "type T { a(x: Int, y: Int): Int b(x: Int): Int }", true);
    add("duplicate enum values", "enum E { A B A }", false);
    add("duplicate enum values", "enum E { A }\nextend enum E { A }", false);
    add("duplicate enum values", "enum E { A B }\nenum F { A B }", true);
    add("duplicate union members", "type A { a: Int }\nunion U = A | A", false);
    add("duplicate union members", "type A { a: Int }\nunion U = A\nextend union U = A", false);
    add("duplicate union members", "type A { a: Int }\ntype B { b: Int }\nunion U = A | B\nunion V = A | B", true);
    // unknown types
    add("unknown types", "type T { a: Nope }", false);
    add("unknown types", "type T { a(x: Nope): Int }", false);
    add("unknown types", "type T { a: [Nope!]! }", false);
    add("unknown types", "input N { a: Nope }", false);
    add("unknown types", "union U = Nope", false);
    add("unknown types", "type T implements Nope { a: Int }", false);
    add("unknown types", "directive @d(x: Nope) on FIELD", false);
    add("root operation types are defined object types", "schema { query: Nope }", false);
    add("root operation types are defined object types", "enum E { A }\nschema { query: Query mutation: E }", false);
    add("root operation types are defined object types", "type M { m: Int }\nschema { query: Query mutation: M }", true);
    add("unknown types", "type T { a: [T!]! b(x: N): E }\ninput N { a: N }\nenum E { A }", true);
    // input vs output
    add("input types in output positions", "input N { a: Int }\ntype T { a: N }", false);
    add("input types in output positions", "input N { a: Int }\ninterface I { a: [N] }", false);
    add("output types in input positions", "type A { a: Int }\ntype T { a(x: A): Int }", false);
    add("output types in input positions", "type A { a: Int }\ninput N { a: A }", false);
    add("output types in input positions", "interface I { a: Int }\ninput N { a: [I!] }", false);
    add("output types in input positions", "type A { a: Int }\nunion U = A\ndirective @d(x: U) on FIELD", false);
    add("output types in input positions", "enum E { A }\nscalar S\ninput N { a: E b: S c: N }\ntype T { a(x: E, y: S, z: N): E b: S }", true);
    // implements
    add("non-interface implements", "type A { a: Int }\ntype T implements A { a: Int }", false);
    add("non-interface implements", "union U = Query\ntype T implements U { q: Int }", false);
    add("non-interface implements", "scalar S\ninterface I implements S { a: Int }", false);
    add("self implements", "interface I implements I { a: Int }", false);
    add("missing transitive interfaces", "interface A { a: Int }\ninterface B implements A { a: Int }\ntype T implements B { a: Int }", false);
    add("missing transitive interfaces", "interface A { a: Int }\ninterface B implements A { a: Int }\ninterface C implements B { a: Int }", false);
    add("missing transitive interfaces", "interface A { a: Int }\ninterface B implements A { a: Int }\ntype T implements B & A { a: Int }\ninterface C implements A & B { a: Int }", true);
    add("interface fields", "interface A { a: Int }\ntype T implements A { b: Int }", false);
    add("interface fields", "interface A { a: Int }\ntype T implements A { a: String }", false);
    add("interface fields", "interface A { a(x: Int): Int }\ntype T implements A { a: Int }", false);
    add("interface fields", "interface A { a(x: Int): Int }\ntype T implements A { a(x: Int, y: Int!): Int }", false);
    add("interface fields", "interface A { a(x: Int): Int }\ntype T implements A { a(x: Int, y: Int): Int! b: Int }", true);
    // union members
    add("non-object union members", "interface I { a: Int }\nunion U = I", false);
    add("non-object union members", "scalar S\nunion U = S", false);
    add("non-object union members", "enum E { A }\nunion U = Query | E", false);
    add("non-object union members", "input N { a: Int }\nunion U = N", false);
    add("non-object union members", "type A { a: Int }\nunion V = A\nunion U = V", false);
    // directive applications
    add("unknown directive applications", "type T @nope { a: Int }", false);
    add("unknown directive applications", "type T { a: Int @nope }", false);
    add("unknown directive applications", "type T { a(x: Int @nope): Int }", false);
    add("unknown directive applications", "enum E { A @nope }", false);
    add("unknown directive applications", "input N { a: Int @nope }", false);
    add("unknown directive applications", "scalar S @nope", false);
    add("unknown directive applications", "union U @nope = Query", false);
    add("unknown directive applications", "schema @nope { query: Query }", false);
    // the same faults on extensions, incl. extensions that carry nothing but directives
    for (kind, def, ext) in [
        ("type", "type X { a: Int }", "extend type X"),
        ("interface", "interface X { a: Int }", "extend interface X"),
        ("union", "union X = Query", "extend union X"),
        ("enum", "enum X { A }", "extend enum X"),
        ("input", "input X { a: Int }", "extend input X"),
        ("scalar", "scalar X", "extend scalar X"),
        ("schema", "schema { query: Query }", "extend schema"),
    ] {
        let loc = match kind { "type" => "OBJECT", "interface" => "INTERFACE", "union" => "UNION", "enum" => "ENUM", "input" => "INPUT_OBJECT", "scalar" => "SCALAR", _ => "SCHEMA" };
        add("unknown directive applications", &format!("{def}\n{ext} @nope"), false);
        add("misplaced directive applications", &format!("directive @d on FIELD\n{def}\n{ext} @d"), false);
        add("repeated directive applications", &format!("directive @d on {loc}\n{def}\n{ext} @d @d"), false);
        add("repeated directive applications", &format!("directive @d on {loc}\n{}\n{ext} @d", def.replacen(if kind == "schema" { "schema" } else { "X" }, if kind == "schema" { "schema @d" } else { "X @d" }, 1)), false);
        add("ill-typed directive applications", &format!("directive @d(x: Int!) on {loc}\n{def}\n{ext} @d(x: \"s\")"), false);
        add("misplaced directive applications", &format!("directive @d(x: Int) repeatable on {loc}\n{def}\n{ext} @d\n{ext} @d(x: 1)"), true);
    }
    add("misplaced directive applications", "directive @d on FIELD\ntype T @d { a: Int }", false);
    add("misplaced directive applications", "directive @d on OBJECT\ntype T { a: Int @d }", false);
    add("misplaced directive applications", "directive @d on OBJECT\ninterface I @d { a: Int }", false);
    add("misplaced directive applications", "directive @d on FIELD_DEFINITION\ninput N { a: Int @d }", false);
    add("misplaced directive applications", "directive @d on ENUM\nenum E { A @d }", false);
    add("misplaced directive applications", "directive @d on ARGUMENT_DEFINITION\ninput N { a: Int @d }", false);
    add("misplaced directive applications", "type T { a: Int @skip(if: true) }", false);
    add("misplaced directive applications", "directive @d on OBJECT | INTERFACE | UNION | ENUM | ENUM_VALUE | SCALAR | INPUT_OBJECT | INPUT_FIELD_DEFINITION | FIELD_DEFINITION | ARGUMENT_DEFINITION | SCHEMA\ntype T @d { a(x: Int @d): Int @d }\ninterface I @d { a: Int @d }\nunion U @d = T\nenum E @d { A @d }\nscalar S @d\ninput N @d { a: Int @d }\nschema @d { query: Query }", true);
    add("misplaced directive applications", "type T { a: Int @deprecated }\nenum E { A @deprecated(reason: \"r\") }", true);
    add("repeated directive applications", "directive @d on OBJECT\ntype T @d @d { a: Int }", false);
    add("repeated directive applications", "type T { a: Int @deprecated @deprecated }", false);
    add("repeated directive applications", "directive @d repeatable on OBJECT | FIELD_DEFINITION\ntype T @d @d { a: Int @d @d @d }", true);
    add("ill-typed directive applications", "directive @d(x: Int!, y: Int) on OBJECT\ntype T @d(x: 1, z: 2) { a: Int }", false);
    add("ill-typed directive applications", "directive @d(name: String!, scope: String, extra: Int) on OBJECT | FIELD_DEFINITION\ntype T @d(name: \"a\", scop: \"s\") { a: Int @d(name: \"b\", nope: 1) }", false);
    add("ill-typed directive applications", "directive @d(name: String!, scope: String, extra: Int) on OBJECT | FIELD_DEFINITION\ntype T @d(name: \"a\", scope: \"s\") { a: Int @d(name: \"b\", extra: 1) }", true);
    add("ill-typed directive applications", "directive @d(x: Int!) on OBJECT\ntype T @d { a: Int }", false);
    add("ill-typed directive applications", "directive @d(x: Int!) on OBJECT\ntype T @d(x: \"s\") { a: Int }", false);
    add("ill-typed directive applications", "directive @d(x: Int!) on OBJECT\ntype T @d(x: 1, y: 2) { a: Int }", false);
    add("ill-typed directive applications", "directive @d(x: Int!, y: [String!] = [\"a\"]) on OBJECT\ntype T @d(x: 1, y: \"single\") { a: Int }", true);
    add("recursive directive definitions", "directive @d(x: Int @d) on ARGUMENT_DEFINITION", false);
    add("recursive directive definitions", "directive @d(x: Int @e) on ARGUMENT_DEFINITION\ndirective @e(x: Int @d) on ARGUMENT_DEFINITION", false);
    add("recursive directive definitions", "directive @d(x: Int @e) on ARGUMENT_DEFINITION\ndirective @e(x: Int) on ARGUMENT_DEFINITION", true);
    v
}

fn main() {
    let args: Vec<String> = std::env::args().collect();
    let thorough = args.get(1).map(|a| a == "thorough").unwrap_or(false);
    let only: Option<usize> = args.iter().position(|a| a == "--one").and_then(|i| args.get(i + 1)).and_then(|x| x.parse().ok());
    let clip = std::env::var("VX_CLI").unwrap_or_default();
    let mut cases = implementation_cases(thorough);
    cases.extend(directive_cases(thorough));
    cases.extend(duplicate_cases());
    cases.extend(rule_cases());
    let tmp = std::env::temp_dir().join(format!("vx-tsverdict-{}", std::process::id()));
    let config = "schema: ./schema/*.graphql\n".to_string();
    let results = cli::par_map(cases.len(), &tmp, |i, dir| {
        if let Some(o) = only {
            if o != i {
                return None;
            }
        }
        let c = &cases[i];
        let out = cli::run(&clip, dir, &[("graphql.config.yaml".into(), config.clone()), ("schema/s.graphql".into(), c.schema.clone())], "check");
        Some(out)
    });
    let _ = std::fs::remove_dir_all(&tmp);
    let mut failures = vec![];
    let mut per_family: BTreeMap<String, usize> = BTreeMap::new();
    let mut evaluations = 0;
    let mut agree = (0usize, 0usize);
    for (i, (c, out)) in cases.iter().zip(results.iter()).enumerate() {
        let Some(out) = out else { continue };
        evaluations += 1;
        *per_family.entry(c.family.to_string()).or_default() += 1;
        let input = format!("[{}: {}]\n{}", c.family, c.label, c.schema);
        if out.timed_out {
            failures.push((i, format!("{}: check does not terminate within 20 s", c.family), input, c.why.clone(), String::new()));
            continue;
        }
        if out.panicked() || out.stderr.starts_with("harness:") {
            failures.push((i, format!("{}: check panics", c.family), input, c.why.clone(), out.stderr.chars().take(500).collect()));
            continue;
        }
        let accepted = out.check_passed();
        if accepted == c.expect_valid {
            if accepted { agree.0 += 1 } else { agree.1 += 1 }
            continue;
        }
        let msg: String = out.stderr.lines().find(|l| !l.trim().is_empty() && !l.contains("check")).unwrap_or("").chars().take(120).collect();
        let sig = if accepted { format!("{}: accepted although {}", c.family, c.why) } else { format!("{}: rejected although {}", c.family, c.why) };
        failures.push((i, sig, input, format!("expected {}: {}", if c.expect_valid { "valid" } else { "invalid" }, c.why), msg));
    }
    per_family.insert("agreed: accepted".into(), agree.0);
    per_family.insert("agreed: rejected".into(), agree.1);
    let samples: Vec<String> = cases.iter().enumerate().filter(|(i, _)| i % (cases.len() / 8).max(1) == 1).take(8).map(|(i, c)| format!("[#{i} {}: {}] expect {}", c.family, c.label, if c.expect_valid { "valid" } else { "invalid" })).collect();
    cli::report(evaluations, per_family, samples, failures);
}
