//! BOUNDED stand-in (not a proof) for property C12 end to end, including imported fragments: the JSON DocumentNode that
//! the real `nitrogql generate` embeds in the standalone `.graphql.ts` files (crates/cli/src/generate.rs driver,
//! crates/semantics/src/operation_import_resolver, crates/printer/src/operation_type_printer/visitor.rs with
//! print_values, crates/printer/src/json_printer) for every operation and fragment constant of multi-file projects of a
//! stated finite family.  (The fragment-name collection IS proved: unit fragnames; the JSON printers are checked on a
//! much larger family of single documents by the bounded check jsonrt.)
//! Oracle: the documents are written from an independent model; every embedded JSON document, read by the strict
//! reader of the graphql-js DocumentNode shape (vx_bounded::doc_from), must be the definition itself followed by each
//! fragment it transitively spreads - local or imported - exactly once, each equal to its model, and nothing else.
//! usage: runtimedoc <quick|thorough> [--one <index>]     env: VX_CLI
use std::collections::{BTreeMap, BTreeSet};

use vx_bounded::{cli, closure, doc_from, field, show_def, MDef, MDir, MSel, MType, MValue, MVarDef};

fn s(x: &str) -> String {
    x.to_string()
}
fn spread(n: &str) -> MSel {
    MSel::Spread { name: s(n), dirs: vec![] }
}
fn obj(name: &str, sel: Vec<MSel>) -> MSel {
    MSel::Field { alias: None, name: s(name), args: vec![], dirs: vec![], sel: Some(sel) }
}
fn frag(name: &str, sel: Vec<MSel>) -> MDef {
    MDef::Frag { name: s(name), cond: s("User"), dirs: vec![], sel }
}
fn query(name: &str, sel: Vec<MSel>) -> MDef {
    MDef::Op { ty: "query", name: Some(s(name)), vars: vec![], dirs: vec![], sel }
}
const SCHEMA: &str = "directive @x(n: Int) repeatable on QUERY | MUTATION | VARIABLE_DEFINITION | FIELD | FRAGMENT_SPREAD | INLINE_FRAGMENT | FRAGMENT_DEFINITION\n\
type Query { user(id: ID, f: In): User hello: Int }\ntype Mutation { rename(id: ID!, to: String): User }\ninput In { a: Int b: [String!] c: In }\n\
type User { id: ID! name: String friend: User }\n";

struct File {
    path: &'static str,
    /// `#import` lines (verbatim) and the definitions of the file
    imports: Vec<&'static str>,
    defs: Vec<MDef>,
}
struct Project {
    label: &'static str,
    files: Vec<File>,
}
fn projects() -> Vec<Project> {
    let user = |sel: Vec<MSel>| obj("user", sel);
    let c = || frag("C", vec![obj("friend", vec![field("id")])]);
    let a_imp = || File { path: "ops/frags/a.graphql", imports: vec!["#import C from \"./c.graphql\""], defs: vec![frag("A", vec![field("id"), spread("C")])] };
    let b_imp = || File { path: "ops/frags/b.graphql", imports: vec!["#import C from \"./c.graphql\""], defs: vec![frag("B", vec![field("name"), spread("C")])] };
    let c_file = || File { path: "ops/frags/c.graphql", imports: vec![], defs: vec![c(), frag("Unused", vec![field("id")])] };
    let rich_op = MDef::Op {
        ty: "query",
        name: Some(s("Rich")),
        vars: vec![
            MVarDef { name: s("id"), ty: MType::NonNull(Box::new(MType::Named(s("ID")))), default: None, dirs: vec![] },
            MVarDef { name: s("f"), ty: MType::Named(s("In")), default: Some(MValue::Obj(vec![(s("a"), MValue::Int(s("1"))), (s("b"), MValue::List(vec![MValue::Str(s("q\"uo\\te")), MValue::Str(s("\u{e9}\u{1F600}"))])), (s("c"), MValue::Null)])), dirs: vec![MDir { name: s("x"), args: vec![(s("n"), MValue::Int(s("2")))] }] },
        ],
        dirs: vec![MDir { name: s("x"), args: vec![] }, MDir { name: s("x"), args: vec![(s("n"), MValue::Int(s("-3")))] }],
        sel: vec![
            MSel::Field { alias: Some(s("me")), name: s("user"), args: vec![(s("id"), MValue::Var(s("id"))), (s("f"), MValue::Var(s("f")))], dirs: vec![MDir { name: s("skip"), args: vec![(s("if"), MValue::Bool(false))] }], sel: Some(vec![spread("A"), MSel::Inline { cond: Some(s("User")), dirs: vec![MDir { name: s("x"), args: vec![] }], sel: vec![MSel::Spread { name: s("B"), dirs: vec![MDir { name: s("include"), args: vec![(s("if"), MValue::Bool(true))] }] }] }]) },
            field("hello"),
        ],
    };
    vec![
        Project { label: "one file: local fragments, a chain, an unused fragment, an operation without fragments", files: vec![File { path: "ops/q.graphql", imports: vec![], defs: vec![query("Q", vec![user(vec![spread("A")])]), frag("A", vec![field("id"), spread("B")]), frag("B", vec![field("name")]), frag("U", vec![field("id")]), query("Plain", vec![field("hello")]), MDef::Op { ty: "mutation", name: Some(s("M")), vars: vec![], dirs: vec![], sel: vec![MSel::Field { alias: None, name: s("rename"), args: vec![(s("id"), MValue::Int(s("1"))), (s("to"), MValue::Str(s("n")))], dirs: vec![], sel: Some(vec![spread("B")]) }] }] }] },
        Project { label: "diamond: two imported fragments that import the same third one; a local fragment; an operation without spreads", files: vec![File { path: "ops/q.graphql", imports: vec!["#import A from \"./frags/a.graphql\"", "#import B from \"./frags/b.graphql\""], defs: vec![query("Q", vec![user(vec![spread("A"), spread("B")])]), query("R", vec![field("hello")]), frag("L", vec![field("id")]), query("OnlyLocal", vec![user(vec![spread("L")])])] }, a_imp(), b_imp(), c_file()] },
        Project { label: "a fragment imported directly and again through another import, in both orders", files: vec![File { path: "ops/q.graphql", imports: vec!["#import C from \"./frags/c.graphql\"", "#import A from \"./frags/a.graphql\""], defs: vec![query("Q", vec![user(vec![spread("A"), spread("C")])])] }, File { path: "ops/r.graphql", imports: vec!["#import A from \"./frags/a.graphql\"", "#import C from \"./frags/c.graphql\""], defs: vec![query("R", vec![user(vec![spread("C"), spread("A")])])] }, a_imp(), c_file()] },
        Project { label: "wildcard import of a file with two fragments, only one of them spread", files: vec![File { path: "ops/q.graphql", imports: vec!["#import * from \"./frags/c.graphql\""], defs: vec![query("Q", vec![user(vec![spread("C")])])] }, c_file()] },
        Project { label: "imported fragments that are not spread are not part of the document", files: vec![File { path: "ops/q.graphql", imports: vec!["#import A from \"./frags/a.graphql\"", "#import B from \"./frags/b.graphql\""], defs: vec![query("Q", vec![user(vec![spread("B")])]), query("None", vec![field("hello")])] }, a_imp(), b_imp(), c_file()] },
        Project { label: "an operation and a fragment of the same name; a fragment spread twice", files: vec![File { path: "ops/q.graphql", imports: vec![], defs: vec![query("User", vec![user(vec![spread("User"), obj("friend", vec![spread("User")])])]), frag("User", vec![field("id")])] }] },
        Project { label: "files that import each other (no fragment cycle)", files: vec![File { path: "ops/q.graphql", imports: vec!["#import A from \"./a.graphql\""], defs: vec![query("Q", vec![user(vec![spread("A")])])] }, File { path: "ops/a.graphql", imports: vec!["#import B from \"./b.graphql\""], defs: vec![frag("A", vec![field("id"), spread("B")]), frag("A2", vec![field("name")])] }, File { path: "ops/b.graphql", imports: vec!["#import A2 from \"./a.graphql\""], defs: vec![frag("B", vec![field("id"), spread("A2")])] }] },
        Project { label: "a chain of four imports across directories", files: vec![File { path: "ops/deep/dir/q.graphql", imports: vec!["#import F1 from \"../f1.graphql\""], defs: vec![query("Q", vec![user(vec![spread("F1")])])] }, File { path: "ops/deep/f1.graphql", imports: vec!["#import F2 from \"../f2.graphql\""], defs: vec![frag("F1", vec![field("id"), spread("F2")])] }, File { path: "ops/f2.graphql", imports: vec!["#import F3 from \"./other/f3.graphql\""], defs: vec![frag("F2", vec![obj("friend", vec![spread("F3")])])] }, File { path: "ops/other/f3.graphql", imports: vec![], defs: vec![frag("F3", vec![field("name")])] }] },
        Project { label: "variables with defaults and directives, aliases, arguments, directives on every kind of selection, imported fragments below inline fragments", files: vec![File { path: "ops/q.graphql", imports: vec!["#import A from \"./frags/a.graphql\"", "#import B from \"./frags/b.graphql\""], defs: vec![rich_op] }, a_imp(), b_imp(), c_file()] },
    ]
}
fn text_of(f: &File) -> String {
    let mut t = String::new();
    for i in &f.imports {
        t.push_str(i);
        t.push('\n');
    }
    for d in &f.defs {
        t.push_str(&show_def(d));
        t.push('\n');
    }
    t
}
/// `const <name>: TypedDocumentNode<..> = {json} as unknown as ..` -> (constant name, json text)
fn constants(ts: &str) -> Vec<(String, String)> {
    let mut out = vec![];
    for line in ts.lines() {
        let l = line.trim_start().trim_start_matches("export ");
        let Some(rest) = l.strip_prefix("const ") else { continue };
        let Some((name, after)) = rest.split_once(':') else { continue };
        let Some(eq) = after.find("> = {") else { continue };
        let json = &after[eq + 4..];
        let end = json.rfind("} as unknown as").map(|i| i + 1).unwrap_or(json.len());
        out.push((name.trim().to_string(), json[..end].to_string()));
    }
    out
}

fn main() {
    let args: Vec<String> = std::env::args().collect();
    let only: Option<usize> = args.iter().position(|a| a == "--one").and_then(|i| args.get(i + 1)).and_then(|x| x.parse().ok());
    let clip = std::env::var("VX_CLI").unwrap_or_default();
    let projects = projects();
    let tmp = std::env::temp_dir().join(format!("vx-runtimedoc-{}", std::process::id()));
    let config = "schema: ./schema/*.graphql\ndocuments: ./ops/**/*.graphql\nextensions:\n  nitrogql:\n    generate:\n      mode: standalone-ts-4.0\n      schemaOutput: ./schema.ts\n";
    let results = cli::par_map(projects.len(), &tmp, |i, dir| {
        if let Some(o) = only {
            if o != i {
                return None;
            }
        }
        let p = &projects[i];
        let mut files = vec![("graphql.config.yaml".to_string(), config.to_string()), ("schema/s.graphql".to_string(), SCHEMA.to_string())];
        for f in &p.files {
            files.push((f.path.to_string(), text_of(f)));
        }
        let out = cli::run(&clip, dir, &files, "generate");
        let generated: Vec<(String, Option<String>)> = p.files.iter().map(|f| (f.path.to_string(), std::fs::read_to_string(dir.join(format!("{}.ts", f.path))).ok())).collect();
        Some((out, generated))
    });
    let _ = std::fs::remove_dir_all(&tmp);
    let mut failures = vec![];
    let mut per_family: BTreeMap<String, usize> = BTreeMap::new();
    let (mut evaluations, mut docs_checked) = (0usize, 0usize);
    for (i, (p, r)) in projects.iter().zip(results.iter()).enumerate() {
        let Some((out, generated)) = r else { continue };
        evaluations += 1;
        let input = format!("[{}]\n{}", p.label, p.files.iter().map(|f| format!("--- {}\n{}", f.path, text_of(f))).collect::<String>());
        let mut fail = |sig: String, why: String, got: String| failures.push((i, sig, input.clone(), why, got));
        if out.timed_out || out.panicked() || out.stderr.starts_with("harness:") {
            fail("generate panics or does not terminate".into(), String::new(), out.stderr.chars().take(500).collect());
            continue;
        }
        if !out.stderr.contains("'generate' finished") {
            fail("generate fails on a valid project".into(), String::new(), out.stderr.chars().take(700).collect());
            continue;
        }
        // every fragment of the project by name (names are unique per project by construction, except the
        // operation / fragment pair that shares one - those live in different namespaces)
        let mut all_frags: BTreeMap<String, MDef> = BTreeMap::new();
        for f in &p.files {
            for d in &f.defs {
                if let MDef::Frag { name, .. } = d {
                    all_frags.insert(name.clone(), d.clone());
                }
            }
        }
        'files: for (f, (_, ts)) in p.files.iter().zip(generated.iter()) {
            let Some(ts) = ts else {
                fail("no standalone module written for an operation file".into(), f.path.to_string(), String::new());
                break;
            };
            let consts: BTreeMap<String, String> = constants(ts).into_iter().collect();
            for d in &f.defs {
                let cname = match d {
                    MDef::Op { name: Some(n), ty, .. } => format!("{n}{}", ty[..1].to_uppercase() + &ty[1..]),
                    MDef::Frag { name, .. } => name.clone(),
                    _ => continue,
                };
                let Some(json) = consts.get(&cname) else {
                    fail("harness: a definition has no constant with an embedded document in the standalone module".into(), format!("{} in {}", cname, f.path), ts.chars().take(400).collect());
                    break 'files;
                };
                docs_checked += 1;
                let j: serde_json::Value = match serde_json::from_str(json) {
                    Ok(j) => j,
                    Err(e) => {
                        fail("the embedded document is not JSON".into(), format!("{cname}: {e}"), json.chars().take(400).collect());
                        break 'files;
                    }
                };
                let got = match doc_from(&j) {
                    Ok(g) => g,
                    Err(e) => {
                        fail("the embedded document is not a graphql-js DocumentNode".into(), format!("{cname}: {e}"), json.chars().take(400).collect());
                        break 'files;
                    }
                };
                let what = if matches!(d, MDef::Op { .. }) { "operation" } else { "fragment" };
                if got.first() != Some(d) {
                    fail(format!("the first definition of the embedded document is not the {what} itself"), format!("{cname} in {}: expected {}", f.path, show_def(d)), got.first().map(show_def).unwrap_or_default());
                    break 'files;
                }
                let want: BTreeSet<String> = closure(d, &all_frags);
                let rest: Vec<&MDef> = got.iter().skip(1).collect();
                let names: Vec<String> = rest.iter().map(|x| match x { MDef::Frag { name, .. } => name.clone(), MDef::Op { name, .. } => format!("(operation {name:?})") }).collect();
                let name_set: BTreeSet<String> = names.iter().cloned().collect();
                if name_set.len() != names.len() {
                    fail(format!("a fragment is listed twice in the embedded document of an {what}"), format!("{cname} in {}: {names:?}", f.path), String::new());
                    break 'files;
                }
                if name_set != want {
                    let missing: Vec<&String> = want.difference(&name_set).collect();
                    let extra: Vec<&String> = name_set.difference(&want).collect();
                    let sig = if !missing.is_empty() { format!("a transitively spread fragment is missing from the embedded document of an {what}") } else { format!("the embedded document of an {what} contains a definition it does not spread") };
                    fail(sig, format!("{cname} in {}: missing {missing:?}, not needed {extra:?}", f.path), format!("{names:?}"));
                    break 'files;
                }
                for x in rest {
                    if let MDef::Frag { name, .. } = x {
                        if all_frags.get(name) != Some(x) {
                            fail("a fragment in the embedded document differs from its source".into(), format!("{cname} in {}: fragment {name}", f.path), show_def(x));
                            break 'files;
                        }
                    }
                }
            }
        }
    }
    per_family.insert("projects".into(), evaluations);
    per_family.insert("embedded documents checked".into(), docs_checked);
    let samples: Vec<String> = projects.iter().enumerate().take(6).map(|(i, p)| format!("[#{i}] {}", p.label)).collect();
    cli::report(evaluations, per_family, samples, failures);
}
