//! BOUNDED stand-in (not a proof) for property C08 on the pipeline stages that no contract reaches (pest-generated parser
//! and its builders, extension / import resolution, config parsing, the driver in crates/cli, diagnostic rendering as the
//! CLI invokes it).  The real `nitrogql-cli` binary built from the tree under check ($VX_CLI) is run with `generate`
//! (which runs `check` first) on a project in which exactly one input - the schema text, the operation text or the
//! configuration text - is replaced by a member of a stated finite family of texts: valid documents, every
//! single-token mutation of them, and a list of lexical edge cases.  Oracle: the process terminates within the time
//! limit with exit status 0 or 1 and never prints a panic message.
//! usage: nopanic <quick|thorough> [--one <index>]      env: VX_CLI, VERIF_SEED
use std::collections::BTreeMap;
use std::io::Read;
use std::path::Path;
use std::sync::Mutex;
use std::sync::atomic::{AtomicUsize, Ordering};

use serde_json::Value as J;

const SCHEMA: &str = r#""""
The root
"""
type Query {
  user(id: ID!, filter: Filter = {word: "x", tags: ["a"]}): User
  "greeting" hello(times: Int = 1, loud: Boolean): String!
  things(first: Int): [Thing!]!
}
type Mutation { rename(id: ID!, to: String!): User @deprecated(reason: "no") }
type Subscription { ticks: Int }
interface Node { id: ID! }
type User implements Node { id: ID! name: String posts: [Post!]! kind: Kind when: Date }
type Post implements Node { id: ID! title: String author: User }
union Thing = User | Post
enum Kind { ADMIN GUEST }
input Filter { word: String = "w" tags: [String!] nested: Filter }
scalar Date
directive @tag(name: String!) repeatable on FIELD | FRAGMENT_SPREAD | INLINE_FRAGMENT | QUERY
extend type Query { extra: Date }
"#;

const OPERATIONS: &str = r#"query GetUser($id: ID!, $loud: Boolean! = false, $f: Filter = {word: "q"}) @tag(name: "a") {
  user(id: $id, filter: $f) { ...UserFrag posts { id title author { id } } kind when }
  hello(times: 3, loud: $loud) @skip(if: $loud)
  things(first: 2) { ... on User { name } ... on Post { title } ... @include(if: true) { __typename } }
}
fragment UserFrag on User { id alias: name }
mutation Rename($id: ID!) { rename(id: $id, to: "x\n\u00e9 \"q\"") { id } }
subscription Ticks { ticks }
"#;

const CONFIG: &str = "schema: ./schema/*.graphql\ndocuments: ./ops/*.graphql\nextensions:\n  nitrogql:\n    generate:\n      mode: with-loader-ts-5.0\n      schemaOutput: ./out/schema.d.ts\n      resolversOutput: ./out/resolvers.d.ts\n      serverGraphqlOutput: ./out/server-schema.ts\n      type:\n        scalarTypes:\n          Date: string\n";

#[derive(Clone)]
struct Case {
    kind: &'static str, // which input is replaced: schema / operation / config / schema+operation
    how: String,
    text: String,
}

// ------------------------------------------------------------------------------------------------ token-level mutations
fn tokenize(s: &str) -> Vec<String> {
    let c: Vec<char> = s.chars().collect();
    let mut out = vec![];
    let mut i = 0;
    while i < c.len() {
        let ch = c[i];
        if ch.is_whitespace() {
            i += 1;
        } else if ch == '"' {
            let mut j = i + 1;
            if j + 1 < c.len() && c[j] == '"' && c[j + 1] == '"' {
                j += 2;
                while j + 2 < c.len() && !(c[j] == '"' && c[j + 1] == '"' && c[j + 2] == '"') {
                    j += 1;
                }
                j = (j + 3).min(c.len());
            } else {
                while j < c.len() && c[j] != '"' {
                    if c[j] == '\\' {
                        j += 1;
                    }
                    j += 1;
                }
                j = (j + 1).min(c.len());
            }
            out.push(c[i..j].iter().collect());
            i = j;
        } else if ch.is_alphanumeric() || ch == '_' {
            let mut j = i;
            while j < c.len() && (c[j].is_alphanumeric() || c[j] == '_') {
                j += 1;
            }
            out.push(c[i..j].iter().collect());
            i = j;
        } else if ch == '.' && i + 2 < c.len() && c[i + 1] == '.' && c[i + 2] == '.' {
            out.push("...".into());
            i += 3;
        } else {
            out.push(ch.to_string());
            i += 1;
        }
    }
    out
}
fn join(t: &[String]) -> String {
    t.join(" ")
}
const INTERESTING: [&str; 28] = [
    "{", "}", "(", ")", "[", "]", ":", "!", "$", "@", "=", "|", "&", "...", "on", "fragment", "query", "extend", "null", "true", "0", "-1.5e3", "\"\"", "\"\"\"\"\"\"", "\"\\uD800\"", "\"\\u{110000}\"", "\u{e9}", "#",
];
fn mutations(kind: &'static str, base: &str, stride: usize, offset: usize, out: &mut Vec<Case>) {
    let t = tokenize(base);
    let mut n = 0usize;
    let mut push = |how: String, toks: Vec<String>, out: &mut Vec<Case>| {
        n += 1;
        if (n + offset) % stride == 0 {
            out.push(Case { kind, how, text: join(&toks) });
        }
    };
    for i in 0..t.len() {
        let mut d = t.clone();
        d.remove(i);
        push(format!("token {i} ({:?}) deleted", t[i]), d, out);
        let mut d = t.clone();
        d.insert(i, t[i].clone());
        push(format!("token {i} ({:?}) duplicated", t[i]), d, out);
        if i + 1 < t.len() {
            let mut d = t.clone();
            d.swap(i, i + 1);
            push(format!("tokens {i},{} swapped", i + 1), d, out);
        }
        for (k, rep) in INTERESTING.iter().enumerate() {
            // every position sees a rotating third of the replacement tokens
            if (i + k) % 3 == 0 {
                let mut d = t.clone();
                d[i] = rep.to_string();
                push(format!("token {i} ({:?}) replaced by {rep:?}", t[i]), d, out);
            }
        }
    }
    // truncations
    for i in (0..t.len()).step_by(3) {
        push(format!("truncated after token {i}"), t[..i].to_vec(), out);
    }
}
/// YAML is layout sensitive: the configuration text is mutated line-wise and value-wise instead of token-wise
fn config_mutations(out: &mut Vec<Case>) {
    let lines: Vec<&str> = CONFIG.lines().collect();
    for i in 0..lines.len() {
        let mut d = lines.clone();
        d.remove(i);
        out.push(Case { kind: "config", how: format!("line {i} deleted"), text: d.join("\n") + "\n" });
        let mut d = lines.clone();
        d.insert(i, lines[i]);
        out.push(Case { kind: "config", how: format!("line {i} duplicated"), text: d.join("\n") + "\n" });
        if let Some((k, _)) = lines[i].split_once(':') {
            for v in ["", " 3", " [1, 2]", " {a: b}", " null", " true", " \"\"", " ./nowhere", " ~", " !!binary x", " &a *a"] {
                let mut d: Vec<String> = lines.iter().map(|l| l.to_string()).collect();
                d[i] = format!("{k}:{v}");
                out.push(Case { kind: "config", how: format!("line {i}: value replaced by {v:?}"), text: d.join("\n") + "\n" });
            }
            let mut d: Vec<String> = lines.iter().map(|l| l.to_string()).collect();
            d[i] = format!(" {}", lines[i]);
            out.push(Case { kind: "config", how: format!("line {i} indented by one more space"), text: d.join("\n") + "\n" });
        }
    }
}
/// documents that `check` accepts, so that the generation stages run (every printer, source maps, runtime documents)
fn valid_family() -> Vec<Case> {
    let mut v = vec![];
    let ops = [
        "query { hello }",
        "{ hello }",
        "query Q { __typename hello h2: hello(times: 2) }",
        "query Q($t: Int = 2, $l: Boolean) { hello(times: $t, loud: $l) }",
        "query Q($f: Filter = {word: \"a\", tags: [\"x\", \"y\"], nested: {word: null}}) { user(id: 1, filter: $f) { id } }",
        "query Q($ids: [ID!]! = [1, \"2\"]) { user(id: 3) { id kind when } }",
        "query Q($s: Boolean!) { user(id: \"u\") @skip(if: $s) { id name @include(if: $s) posts @skip(if: true) { id } } }",
        "query Q { things { __typename ... on Node { id } ... on User { name posts { title author { name } } } ... on Post { title } } }",
        "query Q { things(first: 1) { ...T } }\nfragment T on Thing { ... on User { ...U } ... on Post { id } }\nfragment U on User { id name }",
        "query Q { user(id: 1) { ...A ...B } }\nfragment A on User { id posts { id } }\nfragment B on Node { id ... on User { name } }",
        "mutation M($id: ID!, $to: String! = \"n\") { rename(id: $id, to: $to) { id name } }",
        "subscription S { ticks }",
        "query A { hello }\nquery B { extra }\nmutation C { rename(id: 1, to: \"x\") { id } }",
        "query Q @tag(name: \"a\") @tag(name: \"b\") { hello @tag(name: \"c\") ... @tag(name: \"d\") { extra } }",
        "query Q { user(id: 1) { posts { author { posts { author { id } } } } } }",
        "fragment OnlyFragment on Post { id title author { id } }",
        "#import UserFrag from \"./other.graphql\"\nquery Q { user(id: 1) { ...UserFrag name } }",
        "#import * from \"./other.graphql\"\nquery Q { user(id: 1) { ...UserFrag } }",
        "query Q2 { hello }",
        "query Q($a: Boolean!, $b: Boolean!) { user(id: 1) { ...F @skip(if: $a) ...F @include(if: $b) } }\nfragment F on User { id }",
        "query Q($b: Boolean!) { user(id: 1) { ...G ...F @skip(if: $b) } }\nfragment G on User { ...F name }\nfragment F on User { id }",
        "query Q($a: Boolean!) { things { ... on User { ...F } ... on Node { ... on User { ...F @include(if: $a) } } } }\nfragment F on User { id name }",
        "query Q($a: Boolean!, $b: Boolean!) { hello @skip(if: $a) @include(if: $b) x: hello @include(if: $a) extra @skip(if: $b) }",
        "query Q($a: Boolean!, $b: Boolean!) { hello @skip(if: $a) @include(if: $b) }",
        "query Q($a: Boolean!, $b: Boolean!) { hello @include(if: $a) ...HF @include(if: $b) user(id: 1) @skip(if: true) { id } user(id: 1) @include(if: false) { name } }\nfragment HF on Query { hello }",
        "query Q($id: ID!, $w: String!) { user(id: $id, filter: { word: $w, tags: [$w, \"lit\"] }) { id } }",
        "query Q($a: Boolean!, $b: Boolean!) { user(id: 1) { id name @include(if: $b) @skip(if: $a) } extra }",
        "query Q($a: Boolean!, $b: Boolean!, $c: Boolean!) { user(id: 1) { ... @skip(if: $a) @include(if: $b) { id } ...UF @include(if: $c) @skip(if: $a) } }\nfragment UF on User { name @skip(if: $c) }",
        "query Q { hello(times: 3, loud: false) a: hello b: hello(loud: null) }",
    ];
    for (i, o) in ops.iter().enumerate() {
        v.push(Case { kind: "operation", how: format!("valid document {i}"), text: o.to_string() });
    }
    let schemas = [
        "type Query { a: Int }",
        "schema { query: Root }\ntype Root { a: Int }",
        "\"\"\"\nmulti\n  line `${x}` \\ doc\n\"\"\"\ntype Query { \"d \\\" q\" a(x: Int = 1 @deprecated): Int @deprecated(reason: \"r\\nr\") }",
        "type Query { n: Node u: U e: E s: S i(in: I): Int }\ninterface Node { id: ID! }\ninterface Named implements Node { id: ID! name: String }\ntype A implements Node & Named { id: ID! name: String }\ntype B implements Node { id: ID! }\nunion U = A | B\nenum E { X Y @deprecated }\nscalar S @nitrogql_ts_type(resolverInput: \"string\", resolverOutput: \"string | number\", operationInput: \"string\", operationOutput: \"string\")\ninput I { a: Int! = 1 b: [I!] c: E = X d: S }",
        "type Query { a: [[Int!]]! b(x: [[String]!] = [[\"a\"], null]): [Int] }\nextend type Query { c: Int }\nextend type Query @deprecated { d: Int }",
        "type Query { a: Int }\ntype Mutation { m(i: In!): Int }\ntype Subscription { s: Int }\ninput In { x: Int y: In }\ndirective @custom(a: In) repeatable on OBJECT | FIELD_DEFINITION | QUERY\nextend type Mutation @custom(a: {x: 1})",
        "type Query { a: Int }\nenum E { A }\nextend enum E { B }\nunion U = Query\ntype T { t: Int }\nextend union U = T\ninput I { a: Int }\nextend input I { b: Int }\ninterface N { n: Int }\nextend interface N { m: Int }\nscalar Sc\nextend scalar Sc @specifiedBy(url: \"u\")",
    ];
    for (i, t) in schemas.iter().enumerate() {
        // the base operations do not fit these schemas: pair each with an operation file that does
        v.push(Case { kind: "schema+operation", how: format!("valid schema {i}"), text: t.to_string() });
    }
    v
}
fn edge_cases() -> Vec<Case> {
    let mut v = valid_family();
    let op = |how: &str, text: &str| Case { kind: "operation", how: how.into(), text: text.into() };
    let sc = |how: &str, text: &str| Case { kind: "schema", how: how.into(), text: format!("{SCHEMA}\n{text}") };
    let cf = |how: &str, text: &str| Case { kind: "config", how: how.into(), text: text.into() };
    v.push(op("empty file", ""));
    v.push(op("only a comment", "# nothing\n"));
    v.push(op("shorthand query", "{ hello }"));
    v.push(op("lone surrogate escape", "query { user(id: \"\\uD800\") { id } }"));
    v.push(op("code point above U+10FFFF", "query { user(id: \"\\u{110000}\") { id } }"));
    v.push(op("surrogate pair escapes", "query { user(id: \"\\uD83D\\uDE00\") { id } }"));
    v.push(op("unterminated string", "query { user(id: \"abc) { id } }"));
    v.push(op("unterminated block string", "query { user(id: \"\"\"abc) { id } }"));
    v.push(op("bad escape", "query { user(id: \"\\q\") { id } }"));
    v.push(op("import twice the same name", "#import UserFrag, UserFrag from \"./other.graphql\"\nquery { user(id: 1) { ...UserFrag } }"));
    v.push(op("import of a missing file", "#import Nope from \"./missing.graphql\"\nquery { user(id: 1) { ...Nope } }"));
    v.push(op("import star", "#import * from \"./missing.graphql\"\nquery { hello }"));
    v.push(op("malformed import", "#import from\nquery { hello }"));
    v.push(op("spread of an undefined fragment", "query { user(id: 1) { ...Missing } }"));
    v.push(op("fragment cycle", "query { user(id: 1) { ...A } }\nfragment A on User { ...B }\nfragment B on User { ...A }"));
    v.push(op("subscription spreading a two-fragment cycle", "subscription { ...F }\nfragment F on Subscription { ticks ...G }\nfragment G on Subscription { ticks ...F }"));
    v.push(op("subscription spreading a three-fragment cycle through an inline fragment", "subscription S { ... { ...A } }\nfragment A on Subscription { ...B }\nfragment B on Subscription { ... on Subscription { ...C } }\nfragment C on Subscription { ticks ...A }"));
    v.push(op("mutation and query spreading fragment cycles", "query Q { user(id: 1) { ...A } }\nmutation M { rename(id: 1, to: \"x\") { ...B } }\nfragment A on User { posts { author { ...B } } }\nfragment B on User { id ...A }"));
    v.push(op("cycle not containing the first spread fragment", "query { user(id: 1) { ...A } }\nfragment A on User { ...B }\nfragment B on User { ...C }\nfragment C on User { ...B id }"));
    v.push(op("self-referential fragment", "fragment A on User { ...A }"));
    v.push(op("unused fragment selecting an unknown field", "fragment A on User { nope }"));
    v.push(op("unused fragment with a wrong argument", "query { hello }\nfragment A on Query { hello(times: \"s\", nope: 1) }"));
    v.push(op("unused fragment spreading an unknown fragment", "fragment A on User { ...Nope }"));
    v.push(op("unused mutually recursive fragments", "fragment A on User { ...B }\nfragment B on User { ...A }"));
    v.push(op("two anonymous operations", "query { hello }\nquery { hello }"));
    v.push(op("unknown type condition", "query { things { ... on Nope { id } } }"));
    v.push(op("huge int", "query { hello(times: 99999999999999999999999999999999) }"));
    v.push(op("float forms", "query { hello(times: 1e400) a: hello(times: -0.0e-0) }"));
    v.push(op("deep selection nesting (60)", &format!("query {{ user(id: 1) {{ {} id {} }} }}", "posts { author { ".repeat(30), "} } ".repeat(30))));
    v.push(op("deep list value nesting (200)", &format!("query {{ hello(times: {}1{}) }}", "[".repeat(200), "]".repeat(200))));
    v.push(op("deep object value nesting (100)", &format!("query($f: Filter = {}null{}) {{ hello }}", "{nested: ".repeat(100), "}".repeat(100))));
    v.push(op("non-ASCII everywhere", "query \u{e9} { h\u{e9}llo \u{1F600} }"));
    v.push(op("very long name", &format!("query {{ {} }}", "a".repeat(5000))));
    v.push(op("BOM and CRLF", "\u{feff}query {\r\n  hello\r\n}\r\n"));
    v.push(op("NUL and control characters", "query { hello \u{0} \u{1b} }"));
    v.push(op("error on the last line without newline", "query { hello"));
    v.push(op("error at a wide character", "query { \u{1F600}\u{1F600}\u{1F600} hello(times: \"\u{1F600}\") { x } }"));
    v.push(op("error after tabs", "query {\n\t\t\thello(times: \"s\")\n}"));
    v.push(op("error on a whitespace-only last line inside an indented document", "        query {\n            hello\n  "));
    v.push(op("error at column 0 below indented lines", "        query {\n            hello\n}}"));
    v.push(op("error on the first of many indented lines", "    query { hello(times: \"s\")\n        a: hello\n        b: hello\n        c: hello\n    }"));
    v.push(op("error in a file of blank lines", "\n\n   \n\t\n  }"));
    v.push(op("error far to the right on a long line", &format!("query {{ {} hello(times: \"s\") }}", "h: hello ".repeat(40))));
    v.push(op("variable used but not defined", "query { hello(times: $nope) }"));
    v.push(op("directive on wrong location with wide text", "query @deprecated { hello @tag @tag(name: 1) \u{1F600} }"));
    v.push(sc("type extension of an unknown type", "extend type Nope { a: Int }"));
    v.push(sc("duplicate type", "type User { id: ID! }"));
    v.push(sc("schema definition and extension", "schema { query: Query }\nextend schema { mutation: Mutation }"));
    v.push(sc("extension kind mismatch", "extend enum User { A }\nextend union Kind = User\nextend input Query { a: Int }\nextend interface Filter { a: Int }\nextend scalar User @tag(name: \"x\")"));
    v.push(sc("interface cycle", "interface A implements B { x: Int }\ninterface B implements A { x: Int }"));
    v.push(sc("input object cycle", "input I1 { a: I2! }\ninput I2 { a: I1! }"));
    v.push(sc("directive cycle", "directive @a(x: Int @b) on ARGUMENT_DEFINITION\ndirective @b(y: Int @a) on ARGUMENT_DEFINITION"));
    v.push(sc("directive cycle that does not contain the first directive (lasso)", "directive @la(x: Int @lb) on ARGUMENT_DEFINITION\ndirective @lb(y: Int @lc) on ARGUMENT_DEFINITION\ndirective @lc(z: Int @lb) on ARGUMENT_DEFINITION"));
    v.push(sc("long directive chain", "directive @c1(x: Int @c2) on ARGUMENT_DEFINITION\ndirective @c2(x: Int @c3) on ARGUMENT_DEFINITION\ndirective @c3(x: Int @c4) on ARGUMENT_DEFINITION\ndirective @c4(x: Int) on ARGUMENT_DEFINITION"));
    v.push(sc("directive referring to itself through an input type", "directive @s(x: SI) on INPUT_FIELD_DEFINITION\ninput SI { f: Int @s }"));
    v.push(sc("empty type bodies", "type E1\ninterface E2\nunion E3\nenum E4\ninput E5"));
    v.push(sc("reserved names", "type __Bad { __x: Int }\nscalar __S"));
    v.push(sc("scalar without a TypeScript type", "scalar Mystery\nextend type Query { m: Mystery }"));
    v.push(sc("nitrogql_ts_type with odd arguments", "scalar Odd @nitrogql_ts_type(resolverInput: 1, resolverOutput: \"a\")\nscalar Odd2 @nitrogql_ts_type\nextend type Query { o: Odd o2: Odd2 }"));
    v.push(sc("default values of the wrong shape", "input D { a: Int = \"s\" b: [Int] = {x: 1} c: D = [[1]] }\nextend type Query { d(x: D = 3): Int }"));
    v.push(sc("block description indented with wide and ASCII spaces", "\"\"\"\n\u{a0}\u{a0}first\n  second\n\u{3000}\u{3000}third\n\"\"\"\ntype D1 { \"\"\"\n\u{3000}a\n  b\n\"\"\" f: Int }"));
    v.push(sc("block description with a blank line of wide spaces", "\"\"\"\n    first\n\u{3000}\u{3000}\n    second\n\"\"\"\ntype D2 { f: Int }\n\"\"\"\n\tone\n \ttwo\n\t three\n\"\"\"\nenum D3 { \"\"\"\n\u{2003}x\n y\n\"\"\" A }"));
    v.push(sc("block description: one ASCII space against two-byte and three-byte spaces", "\"\"\"\n one\n\u{a0}\u{a0}two\n\u{3000}three\n\"\"\"\ntype D5 { \"\"\"\n  a\n\u{3000}\u{3000}b\n\"\"\" f: Int \"\"\"\n\u{a0}x\n\u{2003}y\n z\n\"\"\" g: Int }"));
    v.push(sc("block description of emoji and combining characters", "\"\"\"\n  \u{1F600}\u{301} wide\n\u{1F600} start\n   e\u{301}\n\"\"\"\ninput D4 { \"\u{1F600}\" f: Int = 1 }"));
    v.push(sc("descriptions with odd characters", "\"\"\"\n`${x}` \\ \"\"\n\"\"\"\ntype Odd3 { \"\\u0007 \\\" \\\\\" f: Int }"));
    v.push(cf("invalid YAML", "schema: [unclosed\n  documents: }"));
    v.push(cf("empty config", ""));
    v.push(cf("config of the wrong shape", "schema: {a: 1}\ndocuments: 3\nextensions: [1, 2]\n"));
    v.push(cf("unknown mode", &CONFIG.replace("with-loader-ts-5.0", "nonsense")));
    v.push(cf("scalarTypes of the wrong shape", &CONFIG.replace("Date: string", "Date: [1, 2]")));
    v.push(cf("scalarTypes send/receive form", &CONFIG.replace("Date: string", "Date:\n            send: string\n            receive: Date")));
    // TypeScript type texts of scalars are scanned for identifiers: non-ASCII text before, between and after them
    for (k, t) in ["\"\u{65e5}\u{672c}\u{8a9e}\" | Date", "\"\u{e9}\" | A | \"\u{1F600}\u{1F600}\" | B\u{e9}C | D", "\u{65e5}\u{672c} | x", "Array<\"\u{e9}\u{e9}\u{e9}\">", "\"a\u{308}\" | Map<string, \"\u{1F468}\u{200D}\u{1F469}\">"].iter().enumerate() {
        v.push(cf(&format!("scalarTypes with non-ASCII text {k}"), &CONFIG.replace("Date: string", &format!("Date: '{t}'"))));
        v.push(cf(&format!("scalarTypes send/receive with non-ASCII text {k}"), &CONFIG.replace("Date: string", &format!("Date:\n            send: '{t}'\n            receive: 'Date | {t}'"))));
        v.push(sc(&format!("nitrogql_ts_type with non-ASCII text {k}"), &format!("scalar Uni @nitrogql_ts_type(resolverInput: \"{0}\", resolverOutput: \"{0}\", operationInput: \"x | {0}\", operationOutput: \"{0} | y\")\nextend type Query {{ uni: Uni }}", t.replace('"', "'"))));
    }
    v.push(cf("schema glob matching nothing", &CONFIG.replace("./schema/*.graphql", "./nowhere/*.graphql")));
    v.push(cf("JSON config text", "{\"schema\": \"./schema/*.graphql\", \"documents\": \"./ops/*.graphql\"}"));
    v.push(cf("tabs in YAML", "schema:\t./schema/*.graphql\n\tdocuments: x"));
    v
}

// ------------------------------------------------------------------------------------------------ running the CLI
struct Outcome {
    status: Option<i32>,
    stderr: String,
    timed_out: bool,
}
fn run_case(cli: &str, dir: &Path, c: &Case) -> Outcome {
    let _ = std::fs::remove_dir_all(dir);
    std::fs::create_dir_all(dir.join("schema")).unwrap();
    std::fs::create_dir_all(dir.join("ops")).unwrap();
    std::fs::create_dir_all(dir.join("out")).unwrap();
    let modes = ["with-loader-ts-5.0", "with-loader-ts-4.0", "standalone-ts-4.0"];
    let mode = modes[(c.text.len() + c.how.len()) % 3];
    let config = CONFIG.replace("with-loader-ts-5.0", mode).replace("Date: string", "Date: string\n          Sc: string");
    std::fs::write(dir.join("graphql.config.yaml"), if c.kind == "config" { c.text.as_str() } else { config.as_str() }).unwrap();
    std::fs::write(dir.join("schema/s.graphql"), if c.kind.starts_with("schema") { c.text.as_str() } else { SCHEMA }).unwrap();
    std::fs::write(dir.join("ops/o.graphql"), if c.kind == "operation" { c.text.as_str() } else if c.kind == "schema+operation" { "query { __typename }\n" } else { OPERATIONS }).unwrap();
    if c.kind != "schema+operation" {
        std::fs::write(dir.join("ops/other.graphql"), "fragment UserFrag on User { id }\n").unwrap();
    }
    let mut child = match std::process::Command::new(cli)
        .arg("generate")
        .current_dir(dir)
        .env("RUST_BACKTRACE", "0")
        .stdout(std::process::Stdio::null())
        .stderr(std::process::Stdio::piped())
        .spawn()
    {
        Ok(c) => c,
        Err(e) => return Outcome { status: None, stderr: format!("harness: cannot run the CLI: {e}"), timed_out: false },
    };
    let mut err = child.stderr.take().unwrap();
    let reader = std::thread::spawn(move || {
        let mut s = String::new();
        let _ = err.read_to_string(&mut s);
        s
    });
    let t0 = std::time::Instant::now();
    let mut timed_out = false;
    let status = loop {
        match child.try_wait() {
            Ok(Some(st)) => break st.code(),
            Ok(None) => {
                if t0.elapsed().as_secs() >= 20 {
                    let _ = child.kill();
                    let _ = child.wait();
                    timed_out = true;
                    break None;
                }
                std::thread::sleep(std::time::Duration::from_millis(2));
            }
            Err(_) => break None,
        }
    };
    let stderr = reader.join().unwrap_or_default();
    Outcome { status, stderr, timed_out }
}
/// `panic in <file>: <message>` with line numbers and digits removed (so that unrelated edits of the file do not change it)
fn panic_signature(stderr: &str) -> Option<String> {
    let i = stderr.find("panicked at ")?;
    let rest = &stderr[i + "panicked at ".len()..];
    let loc_end = rest.find('\n').unwrap_or(rest.len());
    let loc = &rest[..loc_end];
    let file = loc.split(':').next().unwrap_or("").trim();
    let file = file.rsplit("crates/").next().map(|f| format!("crates/{f}")).filter(|_| loc.contains("crates/")).unwrap_or_else(|| file.rsplit('/').take(3).collect::<Vec<_>>().into_iter().rev().collect::<Vec<_>>().join("/"));
    let msg = rest[loc_end..].trim_start().lines().next().unwrap_or("").trim();
    let msg: String = msg.chars().map(|c| if c.is_ascii_digit() { '#' } else { c }).collect();
    let msg: String = msg.chars().take(90).collect();
    Some(format!("panic in {file}: {msg}"))
}

fn main() {
    let args: Vec<String> = std::env::args().collect();
    let thorough = args.get(1).map(|a| a == "thorough").unwrap_or(false);
    let only: Option<usize> = args.iter().position(|a| a == "--one").and_then(|i| args.get(i + 1)).and_then(|x| x.parse().ok());
    let seed: usize = std::env::var("VERIF_SEED").ok().and_then(|s| s.parse().ok()).unwrap_or(0);
    let cli = std::env::var("VX_CLI").unwrap_or_default();
    let mut cases: Vec<Case> = vec![
        Case { kind: "operation", how: "unchanged".into(), text: OPERATIONS.into() },
    ];
    cases.extend(edge_cases());
    // every single-token mutation of the three base texts (quick: every 9th / 9th / 3rd, offset by the seed)
    let (so, sc, sf) = if thorough { (1, 1, 1) } else { (9, 9, 3) };
    mutations("operation", OPERATIONS, so, seed, &mut cases);
    mutations("schema", SCHEMA, sc, seed, &mut cases);
    let _ = sf;
    config_mutations(&mut cases);

    let tmp = std::env::temp_dir().join(format!("vx-nopanic-{}", std::process::id()));
    let next = AtomicUsize::new(0);
    let results: Mutex<Vec<(usize, String, String)>> = Mutex::new(vec![]); // (index, signature, detail)
    let outcomes: Mutex<BTreeMap<String, usize>> = Mutex::new(BTreeMap::new());
    let workers = std::thread::available_parallelism().map(|n| n.get()).unwrap_or(4).min(16);
    std::thread::scope(|sc| {
        for w in 0..workers {
            let (cases, next, results, outcomes, cli, tmp) = (&cases, &next, &results, &outcomes, &cli, &tmp);
            sc.spawn(move || loop {
                let i = next.fetch_add(1, Ordering::SeqCst);
                if i >= cases.len() {
                    break;
                }
                if let Some(o) = only {
                    if o != i {
                        continue;
                    }
                }
                let c = &cases[i];
                let dir = tmp.join(format!("w{w}"));
                let out = run_case(cli, &dir, c);
                let sig = if out.timed_out {
                    Some(format!("does not terminate within 20 s [{} text: {}]", c.kind, c.how))
                } else if let Some(p) = panic_signature(&out.stderr) {
                    // hand-written inputs carry their label, so that a listed known finding on one input cannot hide the
                    // same panic site reached by a different input
                    if c.how.starts_with("token ") || c.how.starts_with("truncated") || c.how.starts_with("line ") { Some(p) } else { Some(format!("{p} [{} text: {}]", c.kind, c.how)) }
                } else if out.stderr.starts_with("harness:") {
                    Some(out.stderr.clone())
                } else {
                    match out.status {
                        Some(0) | Some(1) => None,
                        None if out.stderr.contains("stack overflow") => Some(format!("killed by a signal: stack overflow [{} text: {}]", c.kind, c.how)),
                        other => Some(format!("exit status {other:?} (neither 0 nor 1)")),
                    }
                };
                *outcomes.lock().unwrap().entry(match (&sig, out.status) { (Some(_), _) => "failure".to_string(), (None, Some(0)) => "exit 0".to_string(), (None, _) => "exit 1 (diagnostics)".to_string() }).or_default() += 1;
                if let Some(sig) = sig {
                    results.lock().unwrap().push((i, sig, out.stderr.chars().take(700).collect()));
                }
            });
        }
    });
    let _ = std::fs::remove_dir_all(&tmp);
    let mut failures = results.into_inner().unwrap();
    failures.sort();
    let mut signatures: BTreeMap<String, usize> = BTreeMap::new();
    for (_, s, _) in &failures {
        *signatures.entry(s.clone()).or_default() += 1;
    }
    let mut seen: BTreeMap<String, usize> = BTreeMap::new();
    let shown: Vec<J> = failures
        .iter()
        .filter(|(_, s, _)| {
            let c = seen.entry(s.clone()).or_default();
            *c += 1;
            *c <= 2
        })
        .take(60)
        .map(|(i, s, d)| {
            let c = &cases[*i];
            serde_json::json!({"signature": s, "family": c.kind, "index": i, "graphql": format!("[{} text: {}]\n{}", c.kind, c.how, c.text.chars().take(1200).collect::<String>()), "definition": "(project)", "why": s, "got": d})
        })
        .collect();
    let evaluations = if only.is_some() { 1 } else { cases.len() };
    let mut per_family: BTreeMap<String, usize> = BTreeMap::new();
    for c in &cases {
        *per_family.entry(format!("{} texts", c.kind)).or_default() += 1;
    }
    for (k, v) in outcomes.into_inner().unwrap() {
        per_family.insert(format!("outcome: {k}"), v);
    }
    let samples: Vec<String> = cases.iter().enumerate().filter(|(i, _)| i % (cases.len() / 8).max(1) == 3).take(8).map(|(i, c)| format!("[#{i} {} text: {}] {}", c.kind, c.how, c.text.chars().take(160).collect::<String>())).collect();
    println!(
        "{}",
        serde_json::json!({
            "evaluations": evaluations, "distinct_nontrivial": cases.iter().map(|c| (c.kind, c.text.clone())).collect::<std::collections::BTreeSet<_>>().len().min(evaluations.max(2)),
            "per_family": per_family, "samples": samples, "failure_count": failures.len(), "signatures": signatures, "failures": shown,
        })
    );
}
